#!/bin/sh
# Builds /verif/bin/verifcheck offline from files on disk only.
set -e
cd "$(dirname "$0")/checker"
export GOFLAGS=-mod=mod GOPROXY=off GOSUMDB=off GOTOOLCHAIN=local GOWORK=off
mkdir -p ../bin ../evidence
go1.26.8 build -o ../bin/verifcheck .
echo "built $(cd .. && pwd)/bin/verifcheck"
