package core

import (
	"go/token"
	"go/types"

	"golang.org/x/tools/go/ssa"
)

// ---------------------------------------------------------------------------
// Flag variables.
//
// `denied := a || b; if denied { return err }` compiles to a boolean phi with a
// constant incoming operand and an If on the phi: in the plain CFG the edge on
// which the phi is the constant `true` can still be followed to the If's false
// successor, a path that cannot be executed. The same happens when one boolean
// value is tested by two Ifs. Reach therefore explores (block, valuation) states
// for a small set of tracked boolean values per function:
//
//   - boolean phis with at least one constant (or tracked) incoming operand,
//   - boolean values tested by two or more Ifs.
//
// A valuation maps each tracked value to unknown/true/false. Crossing a branch
// on a tracked value records its truth; entering the block that defines a
// tracked value re-computes it (phi: from the incoming operand; otherwise
// unknown, the value is re-evaluated). A branch whose condition is known is
// followed only on the consistent side. Everything untracked stays unknown, so
// the exploration is an over-approximation of the feasible paths and an
// under-approximation of the plain CFG paths. The state count is capped; past
// the cap the plain CFG exploration is used.

type flagSet struct {
	vals    []ssa.Value
	idx     map[ssa.Value]int
	byBlock map[*ssa.BasicBlock][]int
}

var flagCache = map[*ssa.Function]*flagSet{}

const (
	maxFlags      = 16
	maxFlagStates = 60000
)

func isBoolType(t types.Type) bool {
	b, ok := t.Underlying().(*types.Basic)
	return ok && b.Info()&types.IsBoolean != 0
}

// stripBool peels negations and comparisons with boolean constants.
func stripBool(v ssa.Value) (ssa.Value, bool) {
	neg := false
	for {
		switch x := v.(type) {
		case *ssa.UnOp:
			if x.Op == token.NOT {
				v, neg = x.X, !neg
				continue
			}
		case *ssa.BinOp:
			if x.Op == token.EQL || x.Op == token.NEQ {
				if b, ok := BoolConst(x.Y); ok && isBoolType(x.X.Type()) {
					v = x.X
					if (x.Op == token.EQL) != b {
						neg = !neg
					}
					continue
				}
				if b, ok := BoolConst(x.X); ok && isBoolType(x.Y.Type()) {
					v = x.Y
					if (x.Op == token.EQL) != b {
						neg = !neg
					}
					continue
				}
			}
		}
		return v, neg
	}
}

func flagsOf(fn *ssa.Function) *flagSet {
	if fs, ok := flagCache[fn]; ok {
		return fs
	}
	fs := &flagSet{idx: map[ssa.Value]int{}, byBlock: map[*ssa.BasicBlock][]int{}}
	flagCache[fn] = fs
	add := func(v ssa.Value) {
		if _, ok := fs.idx[v]; ok || len(fs.vals) >= maxFlags {
			return
		}
		if _, isConst := v.(*ssa.Const); isConst {
			return
		}
		fs.idx[v] = len(fs.vals)
		fs.vals = append(fs.vals, v)
	}
	tested := map[ssa.Value]int{}
	var phis []*ssa.Phi
	for _, b := range fn.Blocks {
		for _, in := range b.Instrs {
			switch x := in.(type) {
			case *ssa.Phi:
				if isBoolType(x.Type()) {
					phis = append(phis, x)
				}
			case *ssa.If:
				u, _ := stripBool(x.Cond)
				tested[u]++
			}
		}
	}
	for _, phi := range phis {
		for _, e := range phi.Edges {
			u, _ := stripBool(e)
			if _, ok := BoolConst(u); ok {
				add(phi)
				break
			}
		}
	}
	// phis fed by tracked phis
	for changed := true; changed; {
		changed = false
		for _, phi := range phis {
			if _, ok := fs.idx[phi]; ok {
				continue
			}
			for _, e := range phi.Edges {
				u, _ := stripBool(e)
				if _, ok := fs.idx[u]; ok {
					n := len(fs.vals)
					add(phi)
					changed = len(fs.vals) > n
					break
				}
			}
		}
	}
	for _, b := range fn.Blocks {
		for _, in := range b.Instrs {
			if iff, ok := in.(*ssa.If); ok {
				u, _ := stripBool(iff.Cond)
				if _, isPhi := u.(*ssa.Phi); tested[u] >= 2 || isPhi {
					add(u)
				}
			}
		}
	}
	// selector variables: `reason := ""; switch {case a: reason = "x" …}; if reason != "" {…}` — a
	// phi of constants compared with a constant; only its provenance is tracked
	for _, b := range fn.Blocks {
		for _, in := range b.Instrs {
			if iff, ok := in.(*ssa.If); ok {
				u, _ := stripBool(iff.Cond)
				if phi, _ := constComparedPhi(u); phi != nil {
					add(phi)
				}
			}
		}
	}
	for i, v := range fs.vals {
		if in, ok := v.(ssa.Instruction); ok && in.Block() != nil {
			fs.byBlock[in.Block()] = append(fs.byBlock[in.Block()], i)
		}
	}
	return fs
}

// constComparedPhi: v is `phi == const` / `phi != const` (either order) where the
// phi has at least one constant incoming operand; returns the phi and the constant.
func constComparedPhi(v ssa.Value) (*ssa.Phi, *ssa.Const) {
	bo, ok := v.(*ssa.BinOp)
	if !ok || (bo.Op != token.EQL && bo.Op != token.NEQ) {
		return nil, nil
	}
	phi, _ := bo.X.(*ssa.Phi)
	k, _ := bo.Y.(*ssa.Const)
	if phi == nil || k == nil {
		phi, _ = bo.Y.(*ssa.Phi)
		k, _ = bo.X.(*ssa.Const)
	}
	if phi == nil || k == nil {
		return nil, nil
	}
	for _, e := range phi.Edges {
		if _, isC := e.(*ssa.Const); isC {
			return phi, k
		}
	}
	return nil, nil
}

func constEqual(a, b *ssa.Const) bool {
	if a.Value == nil || b.Value == nil {
		return a.Value == nil && b.Value == nil
	}
	return a.Value.Kind() == b.Value.Kind() && a.Value.ExactString() == b.Value.ExactString()
}

const (
	fUnknown = 0
	fTrue    = 1
	fFalse   = 2
)

func fOf(b bool) byte {
	if b {
		return fTrue
	}
	return fFalse
}

// flagValue: the truth of v under val (fUnknown when not determined).
func (fs *flagSet) flagValue(v ssa.Value, val []byte) byte {
	u, neg := stripBool(v)
	var r byte = fUnknown
	if c, ok := BoolConst(u); ok {
		r = fOf(c)
	} else if k, ok := fs.idx[u]; ok {
		r = val[k]
	}
	if r != fUnknown && neg {
		r = 3 - r
	}
	return r
}

// transfer: the valuation after following successor si of b; feasible=false
// when the branch contradicts val.
func (fs *flagSet) transfer(b *ssa.BasicBlock, si int, val []byte) ([]byte, bool) {
	nv := append([]byte(nil), val...)
	if len(b.Instrs) > 0 {
		if iff, ok := b.Instrs[len(b.Instrs)-1].(*ssa.If); ok && len(b.Succs) == 2 && b.Succs[0] != b.Succs[1] {
			u, neg := stripBool(iff.Cond)
			want := (si == 0) != neg
			if c, isConst := BoolConst(u); isConst {
				if c != want {
					return nil, false
				}
			} else if k, ok := fs.idx[u]; ok {
				if nv[k] != fUnknown && nv[k] != fOf(want) {
					return nil, false
				}
				nv[k] = fOf(want)
			} else if phi, kc := constComparedPhi(u); phi != nil {
				// a selector compared with a constant: decided by the operand the phi took
				if k, ok := fs.idx[phi]; ok {
					if prov := nv[len(fs.vals)+k]; prov > 0 && int(prov) <= len(phi.Edges) {
						if inc, isC := phi.Edges[prov-1].(*ssa.Const); isC {
							truth := constEqual(inc, kc) == (u.(*ssa.BinOp).Op == token.EQL)
							if truth != want {
								return nil, false
							}
						}
					}
				}
			}
		}
	}
	s := b.Succs[si]
	ids := fs.byBlock[s]
	if len(ids) == 0 {
		return nv, true
	}
	pi, n := -1, 0
	for j, p := range s.Preds {
		if p == b {
			pi = j
			n++
		}
	}
	old := append([]byte(nil), nv...)
	nf := len(fs.vals)
	for _, k := range ids {
		phi, isPhi := fs.vals[k].(*ssa.Phi)
		if !isPhi || n != 1 || pi >= len(phi.Edges) {
			nv[k] = fUnknown
			nv[nf+k] = 0
			continue
		}
		nv[k] = fs.flagValue(phi.Edges[pi], old)
		nv[nf+k] = byte(pi + 1) // provenance: which operand the phi took
	}
	return nv, true
}

// ViaEdges: conditional pass edges. The edge (an If on a boolean phi, one
// side) counts as a pass edge when the phi last took the incoming operand with
// one of the listed indices — on that side that operand has the side's truth,
// and that truth implies the gate's check.
type ViaEdges map[Edge]map[int]bool

func (v ViaEdges) add(o ViaEdges) {
	for e, m := range o {
		if v[e] == nil {
			v[e] = map[int]bool{}
		}
		for i := range m {
			v[e][i] = true
		}
	}
}

// PassEdgesVia computes g's conditional pass edges in fn.
func (g Gate) PassEdgesVia(fn *ssa.Function) ViaEdges {
	out := ViaEdges{}
	for _, b := range fn.Blocks {
		if len(b.Instrs) == 0 || len(b.Succs) != 2 {
			continue
		}
		iff, ok := b.Instrs[len(b.Instrs)-1].(*ssa.If)
		if !ok {
			continue
		}
		u, neg := stripBool(iff.Cond)
		phi, isPhi := u.(*ssa.Phi)
		if !isPhi || !isBoolType(phi.Type()) {
			continue
		}
		for si := 0; si < 2; si++ {
			pt := (si == 0) != neg // truth of the phi on this side
			for i, e := range phi.Edges {
				if _, isC := BoolConst(e); isC {
					continue
				}
				if g.impliedBy(e, pt, fn, 1) {
					ed := Edge{b, si}
					if out[ed] == nil {
						out[ed] = map[int]bool{}
					}
					out[ed][i] = true
				}
			}
		}
	}
	return out
}

// PhiImplied: the If tests a boolean phi whose constant incoming operands all
// equal c; on the side where the phi is !c control came through one of the
// non-constant operands and that operand is !c. It returns those operands, the
// successor index of the !c side, and the truth they have there.
func PhiImplied(i *ssa.If) (ops []ssa.Value, succ int, truth bool, ok bool) {
	u, neg := stripBool(i.Cond)
	phi, isPhi := u.(*ssa.Phi)
	if !isPhi || !isBoolType(phi.Type()) {
		return nil, 0, false, false
	}
	var c, have bool
	for _, e := range phi.Edges {
		if b, isC := BoolConst(e); isC {
			if have && b != c {
				return nil, 0, false, false
			}
			c, have = b, true
		} else {
			ops = append(ops, e)
		}
	}
	if !have || len(ops) == 0 {
		return nil, 0, false, false
	}
	truth = !c
	// the If's Succs[0] is taken when cond is true, i.e. when phi == !neg
	if truth != neg {
		succ = 0
	} else {
		succ = 1
	}
	return ops, succ, truth, true
}

// AtomOfValue normalises a boolean value the way AtomOf normalises a branch
// condition; the atom "holds" when v is true.
func AtomOfValue(v ssa.Value) Atom {
	return atomOfCond(nil, v)
}

// NoFlagSensitivity switches the (block, valuation) exploration off (debugging).
var NoFlagSensitivity = false

type flagState struct {
	b   *ssa.BasicBlock
	val string
}

// reachFlags is Reach over (block, valuation) states; false when the state cap
// was exceeded (r is then unusable).
func reachFlags(fn *ssa.Function, o ReachOpts, fs *flagSet, r *ReachResult, cutIdx func(*ssa.BasicBlock, int) int) bool {
	seen := map[flagState]bool{}
	var work []flagState
	zero := string(make([]byte, 2*len(fs.vals)))
	viaRemoved := func(b *ssa.BasicBlock, si int, val string) bool {
		via := o.RemovedVia[Edge{b, si}]
		if len(via) == 0 || len(b.Instrs) == 0 {
			return false
		}
		iff, ok := b.Instrs[len(b.Instrs)-1].(*ssa.If)
		if !ok {
			return false
		}
		u, _ := stripBool(iff.Cond)
		k, ok := fs.idx[u]
		if !ok {
			return false
		}
		prov := val[len(fs.vals)+k]
		return prov > 0 && via[int(prov)-1]
	}
	enter := func(from, b *ssa.BasicBlock, val string) {
		st := flagState{b, val}
		if seen[st] {
			return
		}
		seen[st] = true
		if !r.blockIn[b] {
			r.blockIn[b] = true
			if from != nil {
				r.pred[b] = from
			}
		}
		work = append(work, st)
	}
	pushSuccs := func(b *ssa.BasicBlock, val string, complete bool) {
		if !complete {
			return
		}
		for si := range b.Succs {
			if o.Removed != nil && o.Removed[Edge{b, si}] {
				continue
			}
			if o.RemovedVia != nil && viaRemoved(b, si, val) {
				continue
			}
			nv, ok := fs.transfer(b, si, []byte(val))
			if !ok {
				continue
			}
			enter(b, b.Succs[si], string(nv))
		}
	}
	if o.From != nil {
		b := o.From.Block()
		r.start = b
		for i, in := range b.Instrs {
			if in == o.From {
				r.startI = i + 1
			}
		}
		end := cutIdx(b, r.startI)
		r.startUpto = end
		complete := end == len(b.Instrs) && !(o.Cut != nil && len(b.Instrs) > 0 && end > r.startI && o.Cut(b.Instrs[end-1]))
		pushSuccs(b, zero, complete)
	} else if len(o.Starts) > 0 {
		for _, e := range o.Starts {
			enter(nil, e, zero)
		}
	} else {
		enter(nil, fn.Blocks[0], zero)
	}
	for len(work) > 0 {
		st := work[len(work)-1]
		work = work[:len(work)-1]
		if len(seen) > maxFlagStates {
			return false
		}
		b := st.b
		end := cutIdx(b, 0)
		r.upto[b] = end
		complete := end == len(b.Instrs) && !(o.Cut != nil && len(b.Instrs) > 0 && o.Cut(b.Instrs[end-1]))
		pushSuccs(b, st.val, complete)
	}
	return true
}
