package core

import (
	"go/types"
	"sort"

	"golang.org/x/tools/go/ssa"
)

// StaticClosure returns the set of functions reachable from roots through
// static calls, closures created (MakeClosure) and function values referenced,
// restricted by follow. Interface (invoke) calls are not followed.
func StaticClosure(roots []*ssa.Function, follow func(*ssa.Function) bool) []*ssa.Function {
	seen := map[*ssa.Function]bool{}
	var out []*ssa.Function
	var visit func(fn *ssa.Function)
	visit = func(fn *ssa.Function) {
		if fn == nil || seen[fn] || fn.Blocks == nil {
			return
		}
		if follow != nil && !follow(fn) {
			return
		}
		seen[fn] = true
		out = append(out, fn)
		Instrs(fn, func(in ssa.Instruction) {
			switch x := in.(type) {
			case ssa.CallInstruction:
				if f := CalleeFunc(x.Common()); f != nil {
					visit(f)
				}
				for _, a := range x.Common().Args {
					if f, ok := a.(*ssa.Function); ok {
						visit(f)
					}
				}
			case *ssa.MakeClosure:
				if f, ok := x.Fn.(*ssa.Function); ok {
					visit(f)
				}
			}
		})
	}
	for _, r := range roots {
		visit(r)
	}
	sort.Slice(out, func(i, j int) bool { return out[i].Pos() < out[j].Pos() })
	return out
}

// NondetFinding is one source of run-to-run nondeterminism found in a closure.
type NondetFinding struct {
	Fn     *ssa.Function
	Instr  ssa.Instruction
	Kind   string
	Detail string
}

// MapRangeLoops returns, for fn, each loop that iterates a map together with
// the Range instruction.
func MapRangeLoops(fn *ssa.Function) map[*Loop]*ssa.Range {
	out := map[*Loop]*ssa.Range{}
	loops := Loops(fn)
	for _, l := range loops {
		for _, in := range l.Header.Instrs {
			if nx, ok := in.(*ssa.Next); ok && !nx.IsString {
				if rg, ok := nx.Iter.(*ssa.Range); ok {
					if _, isMap := rg.X.Type().Underlying().(*types.Map); isMap {
						out[l] = rg
					}
				}
			}
		}
	}
	return out
}

var sortFuncs = map[string]bool{
	"slices.Sort": true, "slices.SortFunc": true, "slices.SortStableFunc": true,
	"sort.Slice": true, "sort.SliceStable": true, "sort.Strings": true, "sort.Sort": true, "sort.Stable": true,
	"golang.org/x/exp/slices.Sort": true, "golang.org/x/exp/slices.SortFunc": true, "golang.org/x/exp/slices.SortStableFunc": true,
}

func isSortCall(c *ssa.CallCommon) bool {
	o := CalleeObj(c)
	if o == nil || o.Pkg() == nil {
		return false
	}
	return sortFuncs[o.Pkg().Path()+"."+o.Name()]
}

// NondetScan scans fns. feedsSink tells whether a call (transitively) writes
// to the order-sensitive sink (e.g. a hasher).
func NondetScan(fns []*ssa.Function, feedsSink func(c *ssa.CallCommon) bool) []NondetFinding {
	var out []NondetFinding
	for _, fn := range fns {
		// time / rand / select / go
		Instrs(fn, func(in ssa.Instruction) {
			switch x := in.(type) {
			case *ssa.Call:
				if o := CalleeObj(&x.Call); o != nil && o.Pkg() != nil {
					switch o.Pkg().Path() {
					case "time":
						if o.Name() == "Now" || o.Name() == "Since" {
							out = append(out, NondetFinding{fn, in, "time", "calls time." + o.Name()})
						}
					case "math/rand", "math/rand/v2", "crypto/rand":
						out = append(out, NondetFinding{fn, in, "rand", "calls " + o.Pkg().Path() + "." + o.Name()})
					}
				}
			case *ssa.Select:
				if len(x.States) > 1 {
					out = append(out, NondetFinding{fn, in, "select", "select with several cases"})
				}
			case *ssa.Go:
				out = append(out, NondetFinding{fn, in, "go", "spawns a goroutine"})
			}
		})
		for l, rg := range MapRangeLoops(fn) {
			// (i) sink fed inside the loop body
			for b := range l.Blocks {
				for _, in := range b.Instrs {
					if c, ok := in.(ssa.CallInstruction); ok && feedsSink != nil && feedsSink(c.Common()) {
						out = append(out, NondetFinding{fn, in, "map-range-feeds-sink", "order-sensitive sink is written inside a loop ranging over a map"})
					}
				}
			}
			// (ii) slices appended in the body must be sorted before use
			for b := range l.Blocks {
				for _, in := range b.Instrs {
					call, ok := in.(*ssa.Call)
					if !ok {
						continue
					}
					bi, ok := call.Call.Value.(*ssa.Builtin)
					if !ok || bi.Name() != "append" {
						continue
					}
					if !sortedAfter(fn, call) {
						out = append(out, NondetFinding{fn, in, "map-range-unsorted-append", "slice built while ranging over a map is not sorted afterwards"})
					}
				}
			}
			// (iii) early exit selecting an element: a return/break out of the loop from
			// a non-header block
			for b := range l.Blocks {
				if b == l.Header {
					continue
				}
				for _, s := range b.Succs {
					if !l.Blocks[s] {
						out = append(out, NondetFinding{fn, rg, "map-range-early-exit", "loop over a map exits early (selects a map-order dependent element)"})
					}
				}
			}
		}
	}
	return out
}

// sortedAfter: the slice produced by `app` (an append inside a map-range loop)
// reaches a sort call in the same function.
func sortedAfter(fn *ssa.Function, app *ssa.Call) bool {
	// forward closure of values derived from app through phi / store+load / append
	derived := map[ssa.Value]bool{app: true}
	changed := true
	for changed {
		changed = false
		Instrs(fn, func(in ssa.Instruction) {
			v, ok := in.(ssa.Value)
			if !ok || derived[v] {
				return
			}
			switch x := in.(type) {
			case *ssa.Phi:
				for _, e := range x.Edges {
					if derived[e] {
						derived[v] = true
						changed = true
					}
				}
			case *ssa.UnOp:
				vals, _ := Origins(x)
				for _, o := range vals {
					if derived[o] {
						derived[v] = true
						changed = true
					}
				}
			case *ssa.Call:
				if bi, ok := x.Call.Value.(*ssa.Builtin); ok && bi.Name() == "append" && derived[x.Call.Args[0]] {
					derived[v] = true
					changed = true
				}
			}
		})
	}
	ok := false
	Instrs(fn, func(in ssa.Instruction) {
		if c, isCall := in.(*ssa.Call); isCall && isSortCall(&c.Call) {
			for _, a := range c.Call.Args {
				if derived[a] {
					ok = true
				}
				if mi, isMI := a.(*ssa.MakeInterface); isMI && derived[mi.X] {
					ok = true
				}
			}
		}
	})
	return ok
}

// LockAtEntry describes the mutex acquisition at the start of a function: the
// first sync.(RW)Mutex Lock/RLock call on a struct field, reached before any
// branch, with the matching Unlock deferred.
type EntryLock struct {
	Field    *types.Var
	Mode     string // "Lock" | "RLock"
	Deferred bool
}

func LockAtEntry(fn *ssa.Function) *EntryLock {
	if len(fn.Blocks) == 0 {
		return nil
	}
	b := fn.Blocks[0]
	var el *EntryLock
	for {
		for _, in := range b.Instrs {
			switch x := in.(type) {
			case *ssa.Call:
				o := CalleeObj(&x.Call)
				if o != nil && o.Pkg() != nil && o.Pkg().Path() == "sync" && (o.Name() == "Lock" || o.Name() == "RLock") && el == nil && len(x.Call.Args) > 0 {
					if fa, ok := x.Call.Args[0].(*ssa.FieldAddr); ok {
						el = &EntryLock{Field: FieldOf(fa), Mode: o.Name()}
					}
				}
			case *ssa.Defer:
				o := CalleeObj(&x.Call)
				if el != nil && o != nil && o.Pkg() != nil && o.Pkg().Path() == "sync" && len(x.Call.Args) > 0 {
					if fa, ok := x.Call.Args[0].(*ssa.FieldAddr); ok && FieldOf(fa) == el.Field {
						if (el.Mode == "Lock" && o.Name() == "Unlock") || (el.Mode == "RLock" && o.Name() == "RUnlock") {
							el.Deferred = true
							return el
						}
					}
				}
			}
		}
		if len(b.Succs) != 1 || el != nil && false {
			return el
		}
		b = b.Succs[0]
		if len(b.Preds) != 1 {
			return el
		}
	}
}
