package core

import (
	"go/token"
	"go/types"

	"golang.org/x/tools/go/ssa"
)

// Loop is a natural loop with (optionally) a recognised induction variable.
type Loop struct {
	Header  *ssa.BasicBlock
	Blocks  map[*ssa.BasicBlock]bool
	Latches []*ssa.BasicBlock
	// induction
	Ind   *ssa.Phi  // nil if not recognised
	Init  ssa.Value // value on entry
	Step  int64     // +1 / -1 per iteration (0 unknown)
	Index ssa.Value // the value used as index in the body (phi or phi+step for range loops)
	// exit test in header (or the block testing Index)
	Test     *ssa.If
	TestAtom Atom
	ExitSucc int // successor index of Test leaving the loop
}

// Loops finds the natural loops of fn (one per header, back edges merged).
func Loops(fn *ssa.Function) []*Loop {
	var out []*Loop
	byHeader := map[*ssa.BasicBlock]*Loop{}
	for _, b := range fn.Blocks {
		for _, s := range b.Succs {
			if s.Dominates(b) { // back edge b -> s
				l := byHeader[s]
				if l == nil {
					l = &Loop{Header: s, Blocks: map[*ssa.BasicBlock]bool{s: true}}
					byHeader[s] = l
					out = append(out, l)
				}
				l.Latches = append(l.Latches, b)
				// collect body: nodes that reach b without passing s
				var stack []*ssa.BasicBlock
				if !l.Blocks[b] {
					l.Blocks[b] = true
					stack = append(stack, b)
				}
				for len(stack) > 0 {
					x := stack[len(stack)-1]
					stack = stack[:len(stack)-1]
					for _, p := range x.Preds {
						if !l.Blocks[p] {
							l.Blocks[p] = true
							stack = append(stack, p)
						}
					}
				}
			}
		}
	}
	for _, l := range out {
		l.recognise()
	}
	return out
}

func (l *Loop) recognise() {
	h := l.Header
	for _, in := range h.Instrs {
		phi, ok := in.(*ssa.Phi)
		if !ok {
			break
		}
		if _, isInt := phi.Type().Underlying().(*types.Basic); !isInt {
			continue
		}
		var init ssa.Value
		var step int64
		okInd := true
		nInit := 0
		for i, e := range phi.Edges {
			pred := h.Preds[i]
			if l.Blocks[pred] {
				bo, ok := e.(*ssa.BinOp)
				if !ok || (bo.Op != token.ADD && bo.Op != token.SUB) || bo.X != phi {
					okInd = false
					break
				}
				c, ok := IntConst(bo.Y)
				if !ok {
					okInd = false
					break
				}
				if bo.Op == token.SUB {
					c = -c
				}
				if step != 0 && step != c {
					okInd = false
					break
				}
				step = c
			} else {
				init = e
				nInit++
			}
		}
		if !okInd || step == 0 || nInit != 1 {
			continue
		}
		l.Ind, l.Init, l.Step = phi, init, step
		l.Index = phi
		// range loops: index = phi + 1 computed in header, init -1
		if c, ok := IntConst(init); ok && c == -1 && step == 1 {
			for _, in2 := range h.Instrs {
				if bo, ok := in2.(*ssa.BinOp); ok && bo.Op == token.ADD && bo.X == phi {
					if k, ok := IntConst(bo.Y); ok && k == 1 {
						l.Index = bo
					}
				}
			}
		}
		break
	}
	// exit test: the If ending the header
	if len(h.Instrs) > 0 {
		if iff, ok := h.Instrs[len(h.Instrs)-1].(*ssa.If); ok {
			l.Test = iff
			l.TestAtom = AtomOf(iff)
			for si, s := range h.Succs {
				if !l.Blocks[s] {
					l.ExitSucc = si
				}
			}
		}
	}
}

// Contains reports whether instruction in lies in the loop.
func (l *Loop) Contains(in ssa.Instruction) bool { return l.Blocks[in.Block()] }

// InnermostLoop returns the smallest loop containing in.
func InnermostLoop(loops []*Loop, in ssa.Instruction) *Loop {
	var best *Loop
	for _, l := range loops {
		if l.Contains(in) {
			if best == nil || len(l.Blocks) < len(best.Blocks) {
				best = l
			}
		}
	}
	return best
}

// LenOfField: v is len(x) where x is a load of the given struct field (through
// reaching stores); returns true when so.
func IsLenOfField(v ssa.Value, field *types.Var) bool {
	call, ok := v.(*ssa.Call)
	if !ok {
		return false
	}
	b, ok := call.Call.Value.(*ssa.Builtin)
	if !ok || b.Name() != "len" || len(call.Call.Args) != 1 {
		return false
	}
	return IsLoadOfField(call.Call.Args[0], field)
}

// IsLoadOfField reports whether every origin of v is a load of the field.
func IsLoadOfField(v ssa.Value, field *types.Var) bool {
	vals, unknown := Origins(v)
	if unknown || len(vals) == 0 {
		return false
	}
	for _, o := range vals {
		f, _ := LoadedField(o)
		if f != field {
			return false
		}
	}
	return true
}

// ForwardOver reports whether l iterates index 0,1,..,len(field)-1 ascending.
func (l *Loop) ForwardOver(field *types.Var) bool {
	if l.Ind == nil || l.Step != 1 || l.Test == nil {
		return false
	}
	a := l.TestAtom
	// range form: init -1, Index = phi+1, test Index < len
	if c, ok := IntConst(l.Init); ok {
		if c == -1 && l.Index != l.Ind {
			if a.Op == token.LSS && a.X == l.Index && IsLenOfField(a.Y, field) && l.ExitSucc != a.TrueSucc() {
				return true
			}
		}
		if c == 0 && l.Index == l.Ind {
			if a.Op == token.LSS && a.X == l.Ind && IsLenOfField(a.Y, field) && l.ExitSucc != a.TrueSucc() {
				return true
			}
		}
	}
	return false
}

// CountsDownToZero reports whether l iterates init, init-1, …, 0 (inclusive),
// and returns the init value.
func (l *Loop) CountsDownToZero() (ssa.Value, bool) {
	if l.Ind == nil || l.Step != -1 || l.Test == nil {
		return nil, false
	}
	a := l.TestAtom
	if a.X != l.Ind {
		return nil, false
	}
	z, ok := IntConst(a.Y)
	if !ok {
		return nil, false
	}
	// continue while i >= 0  (or i > -1)
	cont := (a.Op == token.GEQ && z == 0) || (a.Op == token.GTR && z == -1)
	if !cont || l.ExitSucc == a.TrueSucc() {
		return nil, false
	}
	return l.Init, true
}

// CountsDownToOne reports whether l iterates init, init-1, …, 1 (inclusive) —
// the `for n := len(x); n > 0; n--` spelling of a reverse walk, whose body
// indexes with n-1 — and returns the init value.
func (l *Loop) CountsDownToOne() (ssa.Value, bool) {
	if l.Ind == nil || l.Step != -1 || l.Test == nil {
		return nil, false
	}
	a := l.TestAtom
	if a.X != l.Ind {
		return nil, false
	}
	z, ok := IntConst(a.Y)
	if !ok {
		return nil, false
	}
	cont := (a.Op == token.GTR && z == 0) || (a.Op == token.GEQ && z == 1) || (a.Op == token.NEQ && z == 0)
	if !cont || l.ExitSucc == a.TrueSucc() {
		return nil, false
	}
	return l.Init, true
}

// IsLenMinusOne: v == len(field) - 1.
func IsLenMinusOne(v ssa.Value, field *types.Var) bool {
	bo, ok := v.(*ssa.BinOp)
	if !ok || bo.Op != token.SUB {
		return false
	}
	if c, ok := IntConst(bo.Y); !ok || c != 1 {
		return false
	}
	return IsLenOfField(bo.X, field)
}
