package core

import (
	"fmt"
	"go/token"
	"go/types"
	"strings"

	"golang.org/x/tools/go/ssa"
)

// Atom is a normalised branch condition: the If's Succs[0] is taken when the
// atom (X Op Y, or boolean X when Op==ILLEGAL) is true, unless Neg.
type Atom struct {
	If  *ssa.If
	Op  token.Token
	X   ssa.Value
	Y   ssa.Value
	Neg bool
}

// TrueSucc is the successor index taken when the atom holds.
func (a Atom) TrueSucc() int {
	if a.Neg {
		return 1
	}
	return 0
}

// AtomOf normalises the condition of an If.
func AtomOf(i *ssa.If) Atom { return atomOfCond(i, i.Cond) }

func atomOfCond(i *ssa.If, cond ssa.Value) Atom {
	a := Atom{If: i, X: cond}
	for {
		switch x := a.X.(type) {
		case *ssa.UnOp:
			if x.Op == token.NOT {
				a.X = x.X
				a.Neg = !a.Neg
				continue
			}
		case *ssa.BinOp:
			if a.Op == token.ILLEGAL {
				switch x.Op {
				case token.EQL, token.NEQ:
					// comparison with a boolean constant reduces to the operand
					if b, ok := BoolConst(x.Y); ok {
						a.X = x.X
						if (x.Op == token.EQL) != b {
							a.Neg = !a.Neg
						}
						continue
					}
					if b, ok := BoolConst(x.X); ok {
						a.X = x.Y
						if (x.Op == token.EQL) != b {
							a.Neg = !a.Neg
						}
						continue
					}
					a.Op, a.X, a.Y = x.Op, x.X, x.Y
				case token.LSS, token.LEQ, token.GTR, token.GEQ:
					a.Op, a.X, a.Y = x.Op, x.X, x.Y
				}
			}
		}
		break
	}
	return a
}

// Edge is a CFG edge identified by source block and successor index.
type Edge struct {
	From *ssa.BasicBlock
	Succ int
}

// Gate recognises the branch conditions that test one check and tells which
// edge is the "check passed" edge.
type Gate struct {
	Name  string
	Match func(a Atom) (matched bool, passWhenTrue bool)
	// IsVerdict (optional): v is the error result of the gate's own check. A
	// function returning that value as its error returns the check's verdict,
	// which is as good as testing it.
	IsVerdict func(v ssa.Value) bool
	// For (optional): the same gate re-instantiated for another function — needed
	// when Match refers to fn's own parameters (e.g. "the author identity
	// parameter"); used when the check is evaluated inside a helper.
	For func(fn *ssa.Function) Gate
}

// ---------------------------------------------------------------------------
// Gate summaries: a check extracted into a helper.
//
// `if err := h(...); err != nil { return err }` crosses the pass edge of gate g
// when every non-error return of h is itself reachable only across g's pass
// edge inside h (h enforces g). `if !h(...) { return Err }` likewise when h's
// boolean answer is g's own tested value, or when h returns a constant only
// across g's pass edge. Depth is bounded; results are memoised per (helper, gate).

type sumKey struct {
	fn   *ssa.Function
	gate string
	kind string
	call *ssa.Call
}

// bindParams makes h's parameters stand for the arguments of call while f runs
// (provenance predicates then see through the helper's parameters).
// BindParams is bindParams for rule packs.
func BindParams(h *ssa.Function, call *ssa.Call, f func()) { bindParams(h, call, f) }

func bindParams(h *ssa.Function, call *ssa.Call, f func()) {
	if call == nil {
		f()
		return
	}
	saved := map[*ssa.Parameter]ssa.Value{}
	had := map[*ssa.Parameter]bool{}
	args := call.Call.Args
	if call.Call.IsInvoke() {
		args = append([]ssa.Value{call.Call.Value}, args...)
	}
	for i, pm := range h.Params {
		if i >= len(args) {
			break
		}
		saved[pm], had[pm] = ParamBinding[pm], false
		if _, ok := ParamBinding[pm]; ok {
			had[pm] = true
		}
		ParamBinding[pm] = args[i]
	}
	defer func() {
		for pm := range saved {
			if had[pm] {
				ParamBinding[pm] = saved[pm]
			} else {
				delete(ParamBinding, pm)
			}
		}
	}()
	f()
}

var (
	sumCache = map[sumKey]int{} // 1 yes, 2 no
	sumDepth = 0
)

const maxSummaryDepth = 2

func (g Gate) in(h *ssa.Function) Gate {
	if g.For != nil {
		return g.For(h)
	}
	return g
}

// helperOf: the repository function with a body that produced value v as its
// result #idx (idx<0: last) on every origin; nil when origins differ.
func helperOf(v ssa.Value, idx int, self *ssa.Function) (*ssa.Function, *ssa.Call) {
	vals, unknown := OriginsNoExpand(v)
	if unknown || len(vals) == 0 {
		return nil, nil
	}
	var h *ssa.Function
	var site *ssa.Call
	for _, o := range vals {
		call, i, ok := CallResult(o)
		if !ok {
			return nil, nil
		}
		n := call.Call.Signature().Results().Len()
		want := idx
		if want < 0 {
			want = n - 1
		}
		if i != want {
			return nil, nil
		}
		f := CalleeFunc(&call.Call)
		if f == nil || f.Blocks == nil || !IsRepoFunc(f) || f == self {
			return nil, nil
		}
		if h != nil && h != f {
			return nil, nil
		}
		h = f
		if len(vals) == 1 {
			site = call
		}
	}
	return h, site
}

// enforcesErr: every non-error return of h lies behind g's pass edge.
func (g Gate) enforcesErr(h *ssa.Function, site *ssa.Call) bool {
	k := sumKey{h, g.Name, "err", site}
	if r, ok := sumCache[k]; ok {
		return r == 1
	}
	if sumDepth >= maxSummaryDepth {
		return false
	}
	sumDepth++
	defer func() { sumDepth-- }()
	sumCache[k] = 2 // recursion guard
	gg := g.in(h)
	sinks := SuccessReturns(h)
	if len(sinks) == 0 || ErrIndex(h) < 0 {
		return false
	}
	edges, sites := gg.PassEdges(h)
	nSites := len(sites)
	for e := range ErrorExitEdges(h) {
		edges[e] = true
	}
	via := gg.PassEdgesVia(h)
	nSites += len(via)
	r := Reach(h, ReachOpts{Removed: edges, RemovedVia: via})
	for _, s := range sinks {
		if ret, ok := s.(*ssa.Return); ok && gg.IsVerdict != nil {
			if ei := ErrIndex(h); ei < len(ret.Results) && gg.IsVerdict(ret.Results[ei]) {
				nSites++
				continue
			}
		}
		if r.Reachable(s) {
			return false
		}
	}
	if nSites == 0 {
		return false
	}
	sumCache[k] = 1
	return true
}

// enforcesBool: h's boolean result #0 is val only behind g's pass edge, or is
// g's own tested value (then the polarity is g's). Returns (ok, passWhenTrue).
func (g Gate) enforcesBool(h *ssa.Function, ri0 int) (bool, bool) {
	if sumDepth >= maxSummaryDepth {
		return false, false
	}
	sumDepth++
	defer func() { sumDepth-- }()
	gg := g.in(h)
	rets := Returns(h)
	if len(rets) == 0 {
		return false, false
	}
	// (a) verdict form: every return hands back the value g itself tests
	allVerdict, pol, first := true, false, true
	for _, ri := range rets {
		ret := ri.(*ssa.Return)
		if ret.Block() == h.Recover || len(ret.Results) <= ri0 {
			continue
		}
		v := ret.Results[ri0]
		if _, isConst := v.(*ssa.Const); isConst {
			allVerdict = false
			break
		}
		a := AtomOfValue(v) // `return x == y` as well as `return ok` / `return !ok`
		m, pwt := gg.Match(a)
		if !m {
			allVerdict = false
			break
		}
		if a.Neg {
			pwt = !pwt
		}
		if first {
			pol, first = pwt, false
		} else if pol != pwt {
			allVerdict = false
			break
		}
	}
	if allVerdict && !first {
		return true, pol
	}
	// (b) constant form: `return true` (resp. false) only behind the pass edge
	edges, sites := gg.PassEdges(h)
	if len(sites) == 0 {
		return false, false
	}
	r := Reach(h, ReachOpts{Removed: edges, RemovedVia: gg.PassEdgesVia(h)})
	for _, val := range []bool{true, false} {
		n, bypass := 0, false
		for _, ri := range rets {
			ret := ri.(*ssa.Return)
			if len(ret.Results) <= ri0 {
				continue
			}
			if b, ok := BoolConst(ret.Results[ri0]); ok && b == val {
				n++
				if r.Reachable(ret) {
					bypass = true
				}
			} else if _, isConst := ret.Results[ri0].(*ssa.Const); !isConst {
				// a computed answer (`return a || b`): either the return itself lies behind the
				// pass edge, or the answer must imply the check whenever it is val
				if !r.Reachable(ret) || gg.impliedBy(ret.Results[ri0], val, h, 1) {
					n++
				} else {
					bypass = true
				}
			}
		}
		if n > 0 && !bypass {
			return true, val
		}
	}
	return false, false
}

// viaHelper: the atom tests the result of a helper that enforces g.
func (g Gate) viaHelper(a Atom, self *ssa.Function) (bool, bool) {
	if g.Name == "" {
		return false, false
	}
	switch a.Op {
	case token.EQL, token.NEQ:
		var x ssa.Value
		if IsNilConst(a.Y) {
			x = a.X
		} else if IsNilConst(a.X) {
			x = a.Y
		}
		if x == nil || !IsErrorType(x.Type()) {
			return false, false
		}
		h, site := helperOf(x, -1, self)
		if h == nil {
			return false, false
		}
		ok := false
		bindParams(h, site, func() { ok = g.enforcesErr(h, site) })
		if !ok {
			return false, false
		}
		return true, a.Op == token.EQL
	case token.ILLEGAL:
		if a.X == nil {
			return false, false
		}
		if bt, ok := a.X.Type().Underlying().(*types.Basic); !ok || bt.Kind() != types.Bool {
			return false, false
		}
		idx := 0
		if ex, isEx := a.X.(*ssa.Extract); isEx {
			idx = ex.Index
		}
		h, site := helperOf(a.X, idx, self)
		if h == nil || h.Signature.Results().Len() <= idx {
			return false, false
		}
		ok, pwt := false, false
		bindParams(h, site, func() { ok, pwt = g.enforcesBool(h, idx) })
		return ok, pwt
	}
	return false, false
}

// ImpliedBy: the boolean value v having the given truth implies that g's check
// passed (v is g's tested value, or a flag `x && y` / `x || y` one of whose
// operands is).
func (g Gate) ImpliedBy(v ssa.Value, truth bool, fn *ssa.Function) bool {
	return g.impliedBy(v, truth, fn, 0)
}

func (g Gate) impliedBy(v ssa.Value, truth bool, fn *ssa.Function, depth int) bool {
	if depth > 3 {
		return false
	}
	a := AtomOfValue(v)
	m, pwt := g.Match(a)
	if !m {
		m, pwt = g.viaHelper(a, fn)
	}
	if m {
		return (truth != a.Neg) == pwt
	}
	u, neg := stripBool(v)
	// slices.ContainsFunc(list, pred) being true: pred answered true for some element
	if call, isCall := u.(*ssa.Call); isCall && truth != neg && len(call.Call.Args) == 2 {
		if o := CalleeObj(&call.Call); o != nil && o.Pkg() != nil && strings.HasSuffix(o.Pkg().Path(), "slices") && o.Name() == "ContainsFunc" {
			var pred *ssa.Function
			switch x := call.Call.Args[1].(type) {
			case *ssa.MakeClosure:
				pred, _ = x.Fn.(*ssa.Function)
			case *ssa.Function:
				pred = x
			}
			if pred != nil && pred.Blocks != nil {
				n := 0
				for _, ri := range Returns(pred) {
					ret := ri.(*ssa.Return)
					if len(ret.Results) != 1 {
						return false
					}
					if b, isC := BoolConst(ret.Results[0]); isC {
						if b {
							return false
						}
						continue
					}
					n++
					if !g.in(pred).impliedBy(ret.Results[0], true, pred, depth+1) {
						return false
					}
				}
				return n > 0
			}
		}
	}
	phi, ok := u.(*ssa.Phi)
	if !ok || !isBoolType(phi.Type()) {
		return false
	}
	pt := truth != neg // truth of the phi itself
	// `x && y` (constants false) being true: every operand is true — one implying g is enough;
	// `x || y` (constants true) being false: every operand is false — likewise
	var c, have bool
	var ops []ssa.Value
	for _, e := range phi.Edges {
		if b, isC := BoolConst(e); isC {
			if have && b != c {
				return false
			}
			c, have = b, true
		} else {
			ops = append(ops, e)
		}
	}
	if have && pt == c && len(ops) > 0 {
		// `x || y` being true (resp. `x && y` false): control came either along a
		// short-circuit edge — which must itself be a pass edge of g — or through an
		// operand that then has that truth and must imply g
		edges, _ := g.PassEdges(fn)
		for i, e := range phi.Edges {
			pr := phi.Block().Preds[i]
			if _, isC := BoolConst(e); isC {
				okEdge := false
				for si, s := range pr.Succs {
					if s == phi.Block() && edges[Edge{pr, si}] {
						okEdge = true
					}
				}
				if !okEdge {
					return false
				}
			} else if !g.impliedBy(e, pt, fn, depth+1) {
				return false
			}
		}
		return true
	}
	if !have || pt == c {
		return false
	}
	// control came through one of the non-constant operands: each of them must imply g…
	all := len(ops) > 0
	for _, op := range ops {
		if !g.impliedBy(op, pt, fn, depth+1) {
			all = false
		}
	}
	if all {
		return true
	}
	// …or a short-circuit branch on the way to every non-constant operand does: the
	// constant edges are the ones that skipped the rest, so reaching an operand's block
	// means the earlier conjuncts had truth pt
	edges, _ := g.PassEdges(fn)
	if len(edges) == 0 {
		return false
	}
	r := Reach(fn, ReachOpts{Removed: edges})
	for i, e := range phi.Edges {
		if _, isC := BoolConst(e); isC {
			continue
		}
		pr := phi.Block().Preds[i]
		if len(pr.Instrs) > 0 && r.Reachable(pr.Instrs[len(pr.Instrs)-1]) {
			return false
		}
	}
	return true
}

// OrGate: the disjunction of gates as one gate. It has no direct sites of its
// own (those are counted per disjunct by the caller); its pass edges are the
// tests of helpers that enforce the disjunction as a whole.
func OrGate(gates []Gate) Gate {
	var ns []string
	for _, g := range gates {
		ns = append(ns, g.Name)
	}
	name := "(" + strings.Join(ns, " ∨ ") + ")"
	var forFn func(h *ssa.Function) Gate
	forFn = func(h *ssa.Function) Gate {
		var inner []Gate
		for _, g := range gates {
			inner = append(inner, g.in(h))
		}
		o := Gate{Name: name}
		o.Match = func(a Atom) (bool, bool) {
			for _, g := range inner {
				if m, pwt := g.Match(a); m {
					return true, pwt
				}
			}
			return false, false
		}
		o.For = forFn
		return o
	}
	or := Gate{Name: name, For: forFn}
	or.Match = func(a Atom) (bool, bool) { return false, false }
	return or
}

// PassEdges returns the pass edges of g in fn and the number of Ifs matched.
func (g Gate) PassEdges(fn *ssa.Function) (edges map[Edge]bool, sites []*ssa.If) {
	edges = map[Edge]bool{}
	for _, b := range fn.Blocks {
		if len(b.Instrs) == 0 {
			continue
		}
		i, ok := b.Instrs[len(b.Instrs)-1].(*ssa.If)
		if !ok {
			continue
		}
		a := AtomOf(i)
		m, pwt := g.Match(a)
		if !m {
			m, pwt = g.viaHelper(a, fn)
		}
		if !m {
			// flag variable: `bad := x || y; if bad {…}` — on the side where the phi differs
			// from its constant operands every other operand has that truth
			if ops, succ, truth, ok := PhiImplied(i); ok {
				all := true
				for _, op := range ops {
					aw := AtomOfValue(op)
					mw, pw := g.Match(aw)
					if !mw {
						mw, pw = g.viaHelper(aw, fn)
					}
					if !mw || (truth != aw.Neg) != pw {
						all = false
						break
					}
				}
				if all {
					sites = append(sites, i)
					edges[Edge{b, succ}] = true
				}
			}
			continue
		}
		sites = append(sites, i)
		s := a.TrueSucc()
		if !pwt {
			s = 1 - s
		}
		edges[Edge{b, s}] = true
	}
	return
}

// CallMatcher selects calls.
type CallMatcher func(c *ssa.CallCommon) bool

// CalleeIs matches calls whose static callee / interface method is any of objs.
func CalleeIs(objs ...*types.Func) CallMatcher {
	return func(c *ssa.CallCommon) bool {
		o := CalleeObj(c)
		for _, x := range objs {
			if SameFunc(o, x) {
				return true
			}
		}
		return false
	}
}

// CalleeFn matches calls whose static callee is one of fns (SSA functions,
// including closures).
func CalleeFn(fns ...*ssa.Function) CallMatcher {
	return func(c *ssa.CallCommon) bool {
		f := CalleeFunc(c)
		if f == nil {
			// closure bound to a local: c.Value is MakeClosure
			if mc, ok := c.Value.(*ssa.MakeClosure); ok {
				f, _ = mc.Fn.(*ssa.Function)
			}
		}
		if f == nil {
			return false
		}
		for _, x := range fns {
			if x == nil {
				continue // an optional anchor that does not exist (any more)
			}
			if f == x || f.Origin() == x {
				return true
			}
		}
		return false
	}
}

// CalleeNamed matches by method name on any receiver whose named type has the
// given name (used for interface families with several declaring interfaces,
// e.g. Storage.AddAll); pkgSuffix restricts the declaring package.
func CalleeNamed(pkgSuffix, recv, name string) CallMatcher {
	return func(c *ssa.CallCommon) bool {
		o := CalleeObj(c)
		if o == nil || o.Name() != name || o.Pkg() == nil {
			return false
		}
		if !strings.HasSuffix(o.Pkg().Path(), pkgSuffix) {
			return false
		}
		sig := o.Type().(*types.Signature)
		if recv == "" {
			return sig.Recv() == nil
		}
		if sig.Recv() == nil {
			return false
		}
		t := sig.Recv().Type()
		if p, ok := t.(*types.Pointer); ok {
			t = p.Elem()
		}
		if n, ok := t.(*types.Named); ok {
			return n.Obj().Name() == recv
		}
		return false
	}
}

func AnyOf(ms ...CallMatcher) CallMatcher {
	return func(c *ssa.CallCommon) bool {
		for _, m := range ms {
			if m(c) {
				return true
			}
		}
		return false
	}
}

// allOriginsAreResults checks that every origin of v is result #idx (idx<0:
// the last result) of a call matching m; no unknown or zero definition.
func allOriginsAreResults(v ssa.Value, m CallMatcher, idx int) bool {
	// the call of a new helper is itself a candidate (m may select it); only then
	// look through it at what it returns
	if vals, unknown := OriginsNoExpand(v); allAreResults(vals, unknown, m, idx) {
		return true
	}
	vals, unknown := Origins(v)
	return allAreResults(vals, unknown, m, idx)
}

func allAreResults(vals []ssa.Value, unknown bool, m CallMatcher, idx int) bool {
	if unknown || len(vals) == 0 {
		return false
	}
	for _, o := range vals {
		call, i, ok := CallResult(o)
		if !ok || !m(&call.Call) {
			return false
		}
		n := call.Call.Signature().Results().Len()
		want := idx
		if want < 0 {
			want = n - 1
		}
		if i != want {
			return false
		}
	}
	return true
}

// GErrNil: the check is a call matching m whose error result must be nil.
func GErrNil(name string, m CallMatcher) Gate {
	return Gate{Name: name, IsVerdict: func(v ssa.Value) bool { return IsErrorType(v.Type()) && allOriginsAreResults(v, m, -1) }, Match: func(a Atom) (bool, bool) {
		if a.Op != token.EQL && a.Op != token.NEQ {
			return false, false
		}
		var x ssa.Value
		if IsNilConst(a.Y) {
			x = a.X
		} else if IsNilConst(a.X) {
			x = a.Y
		} else {
			return false, false
		}
		if !IsErrorType(x.Type()) {
			return false, false
		}
		if !allOriginsAreResults(x, m, -1) {
			return false, false
		}
		return true, a.Op == token.EQL
	}}
}

// GBool: the check is result #idx of a call matching m, which must equal want.
func GBool(name string, m CallMatcher, idx int, want bool) Gate {
	return Gate{Name: name, Match: func(a Atom) (bool, bool) {
		if a.Op != token.ILLEGAL {
			return false, false
		}
		if !allOriginsAreResults(a.X, m, idx) {
			return false, false
		}
		return true, want
	}}
}

// GCmpNil: the check is "value matching vm is (non-)nil".
func GNil(name string, vm func(ssa.Value) bool, passWhenNil bool) Gate {
	return Gate{Name: name, Match: func(a Atom) (bool, bool) {
		if a.Op != token.EQL && a.Op != token.NEQ {
			return false, false
		}
		var x ssa.Value
		if IsNilConst(a.Y) {
			x = a.X
		} else if IsNilConst(a.X) {
			x = a.Y
		} else {
			return false, false
		}
		if !vm(x) {
			return false, false
		}
		return true, (a.Op == token.EQL) == passWhenNil
	}}
}

// GCmp: generic comparison gate; f inspects the atom and returns
// (matched, passWhenTrue).
func GCmp(name string, f func(a Atom) (bool, bool)) Gate { return Gate{Name: name, Match: f} }

// ---------------------------------------------------------------------------
// Reachability with removed edges / cut instructions

type ReachOpts struct {
	Removed map[Edge]bool
	// RemovedVia: conditional removed edges (flag variables; see ViaEdges).
	RemovedVia ViaEdges
	// Cut: reaching this instruction ends the path (the instruction itself is
	// reached, nothing after it).
	Cut func(ssa.Instruction) bool
	// From: start after this instruction instead of function entry.
	From ssa.Instruction
	// Starts: start at the entry of these blocks instead of function entry.
	Starts []*ssa.BasicBlock
}

// Reach computes the set of instructions reachable under opts. It returns a
// function telling whether an instruction is reachable and a predecessor map
// for witness paths.
type ReachResult struct {
	fn      *ssa.Function
	blockIn map[*ssa.BasicBlock]bool // block entry reachable
	// for blocks containing cuts or the start, reachable instruction ranges
	upto   map[*ssa.BasicBlock]int // exclusive index up to which instrs are reachable from block entry (len if no cut)
	start  *ssa.BasicBlock
	startI int // first reachable index in start block (when From set)
	startUpto int
	pred   map[*ssa.BasicBlock]*ssa.BasicBlock
}

func Reach(fn *ssa.Function, o ReachOpts) *ReachResult {
	r := &ReachResult{fn: fn, blockIn: map[*ssa.BasicBlock]bool{}, upto: map[*ssa.BasicBlock]int{}, pred: map[*ssa.BasicBlock]*ssa.BasicBlock{}}
	if len(fn.Blocks) == 0 {
		return r
	}
	cutIdx := func(b *ssa.BasicBlock, from int) int {
		if o.Cut == nil {
			return len(b.Instrs)
		}
		for i := from; i < len(b.Instrs); i++ {
			if o.Cut(b.Instrs[i]) {
				return i + 1 // cut instr itself reachable
			}
		}
		return len(b.Instrs)
	}
	if fs := flagsOf(fn); len(fs.vals) > 0 && !NoFlagSensitivity {
		if reachFlags(fn, o, fs, r, cutIdx) {
			return r
		}
		// state cap exceeded: fall back to the plain CFG
		r = &ReachResult{fn: fn, blockIn: map[*ssa.BasicBlock]bool{}, upto: map[*ssa.BasicBlock]int{}, pred: map[*ssa.BasicBlock]*ssa.BasicBlock{}}
	}
	var work []*ssa.BasicBlock
	pushSuccs := func(b *ssa.BasicBlock, complete bool) {
		if !complete {
			return
		}
		for si, s := range b.Succs {
			if o.Removed != nil && o.Removed[Edge{b, si}] {
				continue
			}
			if !r.blockIn[s] {
				r.blockIn[s] = true
				r.pred[s] = b
				work = append(work, s)
			}
		}
	}
	if o.From != nil {
		b := o.From.Block()
		r.start = b
		for i, in := range b.Instrs {
			if in == o.From {
				r.startI = i + 1
			}
		}
		end := cutIdx(b, r.startI)
		r.startUpto = end
		complete := end == len(b.Instrs) && !(o.Cut != nil && len(b.Instrs) > 0 && end > r.startI && o.Cut(b.Instrs[end-1]))
		pushSuccs(b, complete)
	} else if len(o.Starts) > 0 {
		for _, e := range o.Starts {
			if !r.blockIn[e] {
				r.blockIn[e] = true
				work = append(work, e)
			}
		}
	} else {
		e := fn.Blocks[0]
		r.blockIn[e] = true
		work = append(work, e)
	}
	for len(work) > 0 {
		b := work[len(work)-1]
		work = work[:len(work)-1]
		end := cutIdx(b, 0)
		r.upto[b] = end
		complete := end == len(b.Instrs) && !(o.Cut != nil && len(b.Instrs) > 0 && o.Cut(b.Instrs[end-1]))
		pushSuccs(b, complete)
	}
	return r
}

// Reachable reports whether in is reachable.
func (r *ReachResult) Reachable(in ssa.Instruction) bool {
	b := in.Block()
	idx := -1
	for i, x := range b.Instrs {
		if x == in {
			idx = i
			break
		}
	}
	if idx < 0 {
		return false
	}
	if r.blockIn[b] {
		if up, ok := r.upto[b]; ok && idx < up {
			return true
		}
	}
	if r.start == b && idx >= r.startI && idx < r.startUpto {
		return true
	}
	return false
}

// Path renders one witness path of block indices to the block of in.
func (r *ReachResult) Path(p *Prog, in ssa.Instruction) string {
	var blocks []*ssa.BasicBlock
	b := in.Block()
	seen := map[*ssa.BasicBlock]bool{}
	for b != nil && !seen[b] {
		seen[b] = true
		blocks = append(blocks, b)
		b = r.pred[b]
	}
	var parts []string
	for i := len(blocks) - 1; i >= 0; i-- {
		bb := blocks[i]
		line := ""
		for _, x := range bb.Instrs {
			if x.Pos().IsValid() {
				line = fmt.Sprintf(":%d", p.Fset.Position(x.Pos()).Line)
				break
			}
		}
		parts = append(parts, fmt.Sprintf("b%d%s", bb.Index, line))
	}
	if len(parts) > 12 {
		parts = append(parts[:5], append([]string{"…"}, parts[len(parts)-6:]...)...)
	}
	return strings.Join(parts, "→")
}

// ---------------------------------------------------------------------------
// Error-exit classification

// NonNil reports whether v is provably a non-nil error/pointer at instruction
// `at` (which uses v).
func NonNil(v ssa.Value, at ssa.Instruction) bool {
	return nonNil(v, at.Block(), 0)
}

func nonNil(v ssa.Value, at *ssa.BasicBlock, depth int) bool {
	if depth > 6 {
		return false
	}
	switch x := v.(type) {
	case *ssa.Const:
		return false
	case *ssa.MakeInterface:
		// interface holding a concrete value: non-nil interface
		return true
	case *ssa.Alloc, *ssa.MakeClosure, *ssa.MakeMap, *ssa.MakeSlice, *ssa.MakeChan, *ssa.Function, *ssa.FieldAddr, *ssa.IndexAddr:
		return true
	case *ssa.ChangeInterface:
		return nonNil(x.X, at, depth+1)
	case *ssa.Call:
		if alwaysErr(&x.Call) {
			return true
		}
	case *ssa.Phi:
		for i, e := range x.Edges {
			if !nonNil(e, x.Block().Preds[i], depth+1) {
				return false
			}
		}
		return true
	case *ssa.UnOp:
		if x.Op == token.MUL {
			if g, ok := x.X.(*ssa.Global); ok {
				// package-level error variables (Err*) are non-nil sentinels
				if IsErrorType(x.Type()) && (strings.HasPrefix(g.Name(), "Err") || strings.HasPrefix(g.Name(), "err")) {
					return true
				}
			}
			if ri, ok := ReachingStores(x); ok {
				if !ri.unknown && !ri.zero && len(ri.stores) > 0 {
					all := true
					for _, s := range ri.stores {
						if !nonNil(s.Val, s.Block(), depth+1) {
							all = false
							break
						}
					}
					if all {
						return true
					}
				}
				// a dominating test of the same cell with no store in between
				if cellTestedNonNil(x, at) {
					return true
				}
			}
		}
	}
	// dominated by the non-nil edge of a test of this very value
	return dominatedByNonNilTest(v, at)
}

func alwaysErr(c *ssa.CallCommon) bool {
	o := CalleeObj(c)
	if o == nil || o.Pkg() == nil {
		return false
	}
	switch o.Pkg().Path() + "." + o.Name() {
	case "errors.New", "fmt.Errorf", "errors.Join":
		return true
	}
	// repo convention: rpcerr.Unwrap etc. are not always-non-nil.
	return false
}

// dominatedByNonNilTest: some If on (v != nil) whose non-nil successor
// dominates block at.
func dominatedByNonNilTest(v ssa.Value, at *ssa.BasicBlock) bool {
	refs := v.Referrers()
	if refs == nil {
		return false
	}
	for _, r := range *refs {
		bo, ok := r.(*ssa.BinOp)
		if !ok || (bo.Op != token.EQL && bo.Op != token.NEQ) {
			continue
		}
		if !(IsNilConst(bo.X) || IsNilConst(bo.Y)) {
			continue
		}
		for _, r2 := range *bo.Referrers() {
			iff, ok := r2.(*ssa.If)
			if !ok {
				continue
			}
			a := AtomOf(iff)
			if a.Op != token.EQL && a.Op != token.NEQ {
				continue
			}
			// successor where value is non-nil
			s := a.TrueSucc()
			if a.Op == token.EQL {
				s = 1 - s
			}
			succ := iff.Block().Succs[s]
			if edgeDominates(iff.Block(), succ, at) {
				return true
			}
		}
	}
	return false
}

// edgeDominates: every path to `at` goes through edge from→succ. Approximated
// soundly: succ dominates at, and succ's only predecessor is from (or all other
// preds are dominated by succ, i.e. back edges).
func edgeDominates(from, succ, at *ssa.BasicBlock) bool {
	if !succ.Dominates(at) {
		return false
	}
	for _, p := range succ.Preds {
		if p == from {
			continue
		}
		if !succ.Dominates(p) {
			return false
		}
	}
	return true
}

// cellTestedNonNil: load x of cell c at block `at`; there is an earlier load y
// of c tested != nil whose non-nil edge dominates `at`, and no store to c (or
// unknown write) can happen between that test and x.
func cellTestedNonNil(x *ssa.UnOp, at *ssa.BasicBlock) bool {
	cell := cellOf(x.X)
	if cell == nil {
		return false
	}
	refs := cell.Referrers()
	if refs == nil {
		return false
	}
	mine, _ := ReachingStores(x)
	for _, r := range *refs {
		y, ok := r.(*ssa.UnOp)
		if !ok || y.Op != token.MUL || y == x {
			continue
		}
		if !dominatedByNonNilTest(y, x.Block()) {
			continue
		}
		// same reaching definitions => same value (no store in between on any path)
		other, _ := ReachingStores(y)
		if sameDefs(mine, other) && !mine.unknown {
			return true
		}
		// unknown (escaped cell, e.g. named result captured by a deferred closure):
		// accept when no store/call lies between in straight-line terms: y's test
		// successor dominates x and blocks between contain no store to the cell.
		if mine.unknown && noWriteBetween(cell, y, x) {
			return true
		}
	}
	return false
}

func sameDefs(a, b *reachInfo) bool {
	if a == nil || b == nil || a.unknown != b.unknown || a.zero != b.zero || len(a.stores) != len(b.stores) {
		return false
	}
	m := map[*ssa.Store]bool{}
	for _, s := range a.stores {
		m[s] = true
	}
	for _, s := range b.stores {
		if !m[s] {
			return false
		}
	}
	return true
}

// noWriteBetween: conservative check that no store to cell and no call/defer
// run happens on any path from load y to load x.
func noWriteBetween(cell ssa.Value, y, x *ssa.UnOp) bool {
	fn := x.Parent()
	// blocks that can reach x's block
	canReach := map[*ssa.BasicBlock]bool{}
	var back func(b *ssa.BasicBlock)
	back = func(b *ssa.BasicBlock) {
		if canReach[b] {
			return
		}
		canReach[b] = true
		for _, p := range b.Preds {
			back(p)
		}
	}
	back(x.Block())
	// forward from y
	seen := map[*ssa.BasicBlock]bool{}
	bad := false
	var scan func(b *ssa.BasicBlock, from int)
	scan = func(b *ssa.BasicBlock, from int) {
		for i := from; i < len(b.Instrs); i++ {
			in := b.Instrs[i]
			if in == x {
				return
			}
			switch s := in.(type) {
			case *ssa.Store:
				if s.Addr == cell {
					bad = true
				}
			case *ssa.Call, *ssa.RunDefers:
				_ = s
				bad = true
			}
		}
		for _, s := range b.Succs {
			if canReach[s] && !seen[s] {
				seen[s] = true
				scan(s, 0)
			}
		}
	}
	yi := 0
	for i, in := range y.Block().Instrs {
		if in == y {
			yi = i + 1
		}
	}
	_ = fn
	scan(y.Block(), yi)
	return !bad
}

// KnownNil reports whether v is provably nil at instruction `at`: the nil
// constant, or a value whose use is dominated by the ==nil edge of a test of
// that value (or of the same local cell with no write in between).
func KnownNil(v ssa.Value, at ssa.Instruction) bool {
	return knownNil(v, at.Block(), 0)
}

func knownNil(v ssa.Value, at *ssa.BasicBlock, depth int) bool {
	if depth > 6 {
		return false
	}
	switch x := v.(type) {
	case *ssa.Const:
		return x.Value == nil
	case *ssa.ChangeInterface:
		return knownNil(x.X, at, depth+1)
	case *ssa.Phi:
		for i, e := range x.Edges {
			if !knownNil(e, x.Block().Preds[i], depth+1) {
				return false
			}
		}
		return true
	case *ssa.UnOp:
		if x.Op == token.MUL {
			if ri, ok := ReachingStores(x); ok {
				if !ri.unknown && len(ri.stores) > 0 || (!ri.unknown && ri.zero) {
					all := true
					for _, s := range ri.stores {
						if !knownNil(s.Val, s.Block(), depth+1) {
							all = false
							break
						}
					}
					if all {
						return true
					}
				}
				if cellTestedNil(x, at) {
					return true
				}
			}
		}
	}
	return dominatedByNilTest(v, at, true)
}

// dominatedByNilTest: some If on v ==/!= nil whose nil (wantNil) or non-nil
// successor edge dominates block at.
func dominatedByNilTest(v ssa.Value, at *ssa.BasicBlock, wantNil bool) bool {
	refs := v.Referrers()
	if refs == nil {
		return false
	}
	for _, r := range *refs {
		bo, ok := r.(*ssa.BinOp)
		if !ok || (bo.Op != token.EQL && bo.Op != token.NEQ) {
			continue
		}
		if !(IsNilConst(bo.X) || IsNilConst(bo.Y)) {
			continue
		}
		for _, r2 := range *bo.Referrers() {
			iff, ok := r2.(*ssa.If)
			if !ok {
				continue
			}
			a := AtomOf(iff)
			if a.Op != token.EQL && a.Op != token.NEQ {
				continue
			}
			s := a.TrueSucc() // atom true
			isNilWhenTrue := a.Op == token.EQL
			if isNilWhenTrue != wantNil {
				s = 1 - s
			}
			succ := iff.Block().Succs[s]
			if edgeDominates(iff.Block(), succ, at) {
				return true
			}
		}
	}
	return false
}

func cellTestedNil(x *ssa.UnOp, at *ssa.BasicBlock) bool {
	cell := cellOf(x.X)
	if cell == nil {
		return false
	}
	refs := cell.Referrers()
	if refs == nil {
		return false
	}
	mine, _ := ReachingStores(x)
	for _, r := range *refs {
		y, ok := r.(*ssa.UnOp)
		if !ok || y.Op != token.MUL || y == x {
			continue
		}
		if !dominatedByNilTest(y, x.Block(), true) {
			continue
		}
		other, _ := ReachingStores(y)
		if sameDefs(mine, other) && !mine.unknown {
			return true
		}
		if mine.unknown && noWriteBetween(cell, y, x) {
			return true
		}
	}
	return false
}

// MaybeErrorExit: ret has an error result that is not provably nil.
func MaybeErrorExit(ret *ssa.Return) bool {
	ei := ErrIndex(ret.Parent())
	if ei < 0 || ei >= len(ret.Results) {
		return false
	}
	return !KnownNil(ret.Results[ei], ret)
}

// ErrIndex returns the index of the last result of fn if it is of type error,
// else -1.
func ErrIndex(fn *ssa.Function) int {
	res := fn.Signature.Results()
	if res.Len() == 0 {
		return -1
	}
	if IsErrorType(res.At(res.Len() - 1).Type()) {
		return res.Len() - 1
	}
	return -1
}

// IsErrorExit reports whether ret returns a provably non-nil error.
func IsErrorExit(ret *ssa.Return) bool {
	fn := ret.Parent()
	ei := ErrIndex(fn)
	if ei < 0 || ei >= len(ret.Results) {
		return false
	}
	return NonNil(ret.Results[ei], ret)
}

// SuccessReturns lists the returns of fn that are not provable error exits.
func SuccessReturns(fn *ssa.Function) []ssa.Instruction {
	var out []ssa.Instruction
	Instrs(fn, func(in ssa.Instruction) {
		if r, ok := in.(*ssa.Return); ok {
			if !IsErrorExit(r) {
				out = append(out, r)
			}
		}
	})
	return out
}

// Returns lists all return instructions.
func Returns(fn *ssa.Function) []ssa.Instruction {
	var out []ssa.Instruction
	Instrs(fn, func(in ssa.Instruction) {
		if r, ok := in.(*ssa.Return); ok {
			out = append(out, r)
		}
	})
	return out
}

// ---------------------------------------------------------------------------
// The gate rule

// GateResult of checking sinks against one gate.
type GateResult struct {
	Gate      string
	Sites     int // Ifs recognised as testing the gate
	Bypassed  []ssa.Instruction
	Witness   map[ssa.Instruction]string
	SinkCount int
}

// CheckGate: every sink must be unreachable from entry once the pass edges of
// g are removed.
func CheckGate(p *Prog, fn *ssa.Function, g Gate, sinks []ssa.Instruction) GateResult {
	edges, sites := g.PassEdges(fn)
	// edges into a return block that carry a provably non-nil error through the
	// return's phi are error exits, whatever the other incoming edges carry
	for e := range ErrorExitEdges(fn) {
		edges[e] = true
	}
	via := g.PassEdgesVia(fn)
	r := Reach(fn, ReachOpts{Removed: edges, RemovedVia: via})
	res := GateResult{Gate: g.Name, Sites: len(sites) + len(via), Witness: map[ssa.Instruction]string{}, SinkCount: len(sinks)}
	for _, s := range sinks {
		if ret, ok := s.(*ssa.Return); ok && g.IsVerdict != nil {
			if ei := ErrIndex(fn); ei >= 0 && ei < len(ret.Results) && g.IsVerdict(ret.Results[ei]) {
				res.Sites++ // returning the check's own verdict counts as a test site
				continue
			}
		}
		if r.Reachable(s) {
			// the block holding check and sink was extracted into a new helper: decide it there
			if gatedInsideHelper(s, []Gate{g}, 0) {
				res.Sites++
				continue
			}
			res.Bypassed = append(res.Bypassed, s)
			res.Witness[s] = r.Path(p, s)
		}
	}
	return res
}

// ErrorExitEdges: for returns whose error operand is a phi in the return's own
// block, the incoming edges whose phi operand is provably non-nil.
func ErrorExitEdges(fn *ssa.Function) map[Edge]bool {
	out := map[Edge]bool{}
	ei := ErrIndex(fn)
	if ei < 0 {
		return out
	}
	Instrs(fn, func(in ssa.Instruction) {
		ret, ok := in.(*ssa.Return)
		if !ok || ei >= len(ret.Results) {
			return
		}
		phi, ok := ret.Results[ei].(*ssa.Phi)
		if !ok || phi.Block() != ret.Block() {
			return
		}
		for i, e := range phi.Edges {
			pred := phi.Block().Preds[i]
			if nonNil(e, pred, 0) {
				for si, s := range pred.Succs {
					if s == phi.Block() {
						out[Edge{pred, si}] = true
					}
				}
			}
		}
	})
	return out
}

// RequireGate records one obligation per (fn, gate): all sinks are gated.
func (c *Ctx) RequireGate(rule string, fn *ssa.Function, g Gate, sinks []ssa.Instruction, sinkDesc string) bool {
	c.Fn(FuncName(fn))
	construct := FuncName(fn) + "|" + g.Name + "|" + sinkDesc
	if len(sinks) == 0 {
		c.Violate(rule, construct, c.P.Pos(fn.Pos()), "no sink of kind '"+sinkDesc+"' found in function (rule table out of date or sink removed)")
		return false
	}
	res := CheckGate(c.P, fn, g, sinks)
	if res.Sites == 0 {
		c.Violate(rule, construct, c.P.Pos(fn.Pos()), fmt.Sprintf("no branch in %s tests %s: the %d sink(s) '%s' are reachable without the check", FuncName(fn), g.Name, len(sinks), sinkDesc))
		return false
	}
	if len(res.Bypassed) > 0 {
		s := res.Bypassed[0]
		c.Violate(rule, construct, c.P.Pos(instrPos(s)), fmt.Sprintf("%s '%s' at %s reachable from entry of %s without crossing the pass edge of %s; witness %s", sinkDesc, instrText(s), c.P.Pos(instrPos(s)), FuncName(fn), g.Name, res.Witness[s]))
		return false
	}
	c.Hold(rule, construct, c.P.Pos(fn.Pos()), fmt.Sprintf("%d sink(s) '%s' unreachable once the %d pass edge(s) of %s are removed", len(sinks), sinkDesc, res.Sites, g.Name))
	return true
}

func instrPos(in ssa.Instruction) token.Pos {
	if in.Pos().IsValid() {
		return in.Pos()
	}
	// fall back to nearest positioned instruction in block
	b := in.Block()
	idx := 0
	for i, x := range b.Instrs {
		if x == in {
			idx = i
		}
	}
	for i := idx; i >= 0; i-- {
		if b.Instrs[i].Pos().IsValid() {
			return b.Instrs[i].Pos()
		}
	}
	for i := idx; i < len(b.Instrs); i++ {
		if b.Instrs[i].Pos().IsValid() {
			return b.Instrs[i].Pos()
		}
	}
	return in.Parent().Pos()
}

func InstrPos(in ssa.Instruction) token.Pos { return instrPos(in) }

func instrText(in ssa.Instruction) string {
	s := in.String()
	s = strings.ReplaceAll(s, ModPath+"/", "")
	if len(s) > 100 {
		s = s[:100] + "…"
	}
	return s
}

// CallSinks: call instructions in fn matching m (plain calls, plus go/defer if
// all).
func CallSinks(fn *ssa.Function, m CallMatcher, all bool) []ssa.Instruction {
	var out []ssa.Instruction
	for _, c := range CallsIn(fn) {
		if _, ok := c.(*ssa.Call); !ok && !all {
			continue
		}
		if m(c.Common()) {
			out = append(out, c)
		}
	}
	return out
}

// CallSinksX is CallSinks for sinks handed to the gate / pairing engines: a call
// of a function that is new since the anchor snapshot and contains matching
// calls stands for them (the engines descend into it). Not for rules that
// inspect the arguments of the calls they enumerate.
func CallSinksX(fn *ssa.Function, m CallMatcher, all bool) []ssa.Instruction {
	return callSinks(fn, m, all, 0)
}

// IsNewFunc (set by the driver from the anchor snapshot) tells whether a
// function did not exist when the rule tables were written: called from an
// anchored function it is taken for a block that was extracted out of it.
var IsNewFunc = func(*ssa.Function) bool { return false }

// sinkExpansion: a call of a new helper that contains the sinks a rule looks
// for stands for those sinks in the caller; the gate engine descends into the
// helper when the call itself is not gated.
type expansion struct {
	h     *ssa.Function
	inner []ssa.Instruction
}

var sinkExpansion = map[ssa.Instruction]expansion{}

// ExpandSink: in is a call of a new helper standing for sinks inside it.
func ExpandSink(in ssa.Instruction) (*ssa.Function, []ssa.Instruction, bool) {
	e, ok := sinkExpansion[in]
	return e.h, e.inner, ok
}

func callSinks(fn *ssa.Function, m CallMatcher, all bool, depth int) []ssa.Instruction {
	var out []ssa.Instruction
	for _, c := range CallsIn(fn) {
		if _, ok := c.(*ssa.Call); !ok && !all {
			continue
		}
		if m(c.Common()) {
			out = append(out, c)
			continue
		}
		if depth >= 2 {
			continue
		}
		h := CalleeFunc(c.Common())
		if h == nil || h.Blocks == nil || h == fn || !IsRepoFunc(h) || !IsNewFunc(h) {
			continue
		}
		if inner := callSinks(h, m, all, depth+1); len(inner) > 0 {
			out = append(out, c)
			sinkExpansion[c] = expansion{h, inner}
		}
	}
	return out
}

// InstrSinksX: the instructions of fn satisfying pred, plus — standing for the
// matches inside them — the calls of functions new since the anchor snapshot
// that contain matches (see ExpandSink / gatedInsideHelper).
func InstrSinksX(fn *ssa.Function, pred func(ssa.Instruction) bool) []ssa.Instruction {
	return instrSinks(fn, pred, 0)
}

func instrSinks(fn *ssa.Function, pred func(ssa.Instruction) bool, depth int) []ssa.Instruction {
	var out []ssa.Instruction
	Instrs(fn, func(in ssa.Instruction) {
		if pred(in) {
			out = append(out, in)
			return
		}
		c, ok := in.(ssa.CallInstruction)
		if !ok || depth >= 2 {
			return
		}
		h := CalleeFunc(c.Common())
		if h == nil || h.Blocks == nil || h == fn || !IsRepoFunc(h) || !IsNewFunc(h) {
			return
		}
		if inner := instrSinks(h, pred, depth+1); len(inner) > 0 {
			out = append(out, in)
			sinkExpansion[in] = expansion{h, inner}
		}
	})
	return out
}

// gatedInsideHelper: sink s is a call of a new helper holding the real sinks;
// they are all behind the (re-instantiated) gates inside the helper.
func gatedInsideHelper(s ssa.Instruction, gates []Gate, depth int) bool {
	exp, ok := sinkExpansion[s]
	if !ok || depth > 2 {
		return false
	}
	call, isCall := s.(*ssa.Call)
	held := false
	run := func() {
		removed := map[Edge]bool{}
		sites := 0
		for _, g := range gates {
			e, st := g.in(exp.h).PassEdges(exp.h)
			sites += len(st)
			for k := range e {
				removed[k] = true
			}
		}
		if sites == 0 {
			// not tested at this level: every real sink may still sit one level deeper,
			// together with its check
			all := len(exp.inner) > 0
			for _, in := range exp.inner {
				if !gatedInsideHelper(in, gates, depth+1) {
					all = false
				}
			}
			held = all
			return
		}
		for e := range ErrorExitEdges(exp.h) {
			removed[e] = true
		}
		r := Reach(exp.h, ReachOpts{Removed: removed})
		for _, in := range exp.inner {
			if r.Reachable(in) && !gatedInsideHelper(in, gates, depth+1) {
				return
			}
		}
		held = true
	}
	if isCall {
		bindParams(exp.h, call, run)
	} else {
		run()
	}
	return held
}

// MustPass: every sink is unreachable from entry (or from `from`) when paths
// are cut at instructions matching cut. Returns the bypassing sinks.
func MustPass(fn *ssa.Function, from ssa.Instruction, cut func(ssa.Instruction) bool, sinks []ssa.Instruction, removed map[Edge]bool) (bypassed []ssa.Instruction, r *ReachResult) {
	r = Reach(fn, ReachOpts{Cut: cut, From: from, Removed: removed})
	for _, s := range sinks {
		if cut(s) {
			continue
		}
		if r.Reachable(s) {
			bypassed = append(bypassed, s)
		}
	}
	return
}

// CutAtCall builds a cut predicate for calls matching m; a `defer` of a
// matching call (or of a closure that contains a matching call) also cuts,
// because once registered the call runs at every exit.
func CutAtCall(m CallMatcher) func(ssa.Instruction) bool { return cutAtCallX(m, 0) }

func cutAtCallPlain(m CallMatcher) func(ssa.Instruction) bool {
	return func(in ssa.Instruction) bool {
		switch x := in.(type) {
		case *ssa.Call:
			return m(&x.Call)
		case *ssa.Defer:
			if m(&x.Call) {
				return true
			}
			if mc, ok := x.Call.Value.(*ssa.MakeClosure); ok {
				if f, ok := mc.Fn.(*ssa.Function); ok && containsCall(f, m, 0) {
					return true
				}
			}
		}
		return false
	}
}

// MustCall: every path through h from entry to a return passes a call matching
// m (directly or, to a bounded depth, inside further new helpers).
func MustCall(h *ssa.Function, m CallMatcher) bool { return mustCall(h, m, 0) }

func mustCall(h *ssa.Function, m CallMatcher, depth int) bool {
	if h == nil || h.Blocks == nil || depth > 2 {
		return false
	}
	cut := cutAtCallX(m, depth+1)
	r := Reach(h, ReachOpts{Cut: cut})
	n := 0
	for _, ri := range Returns(h) {
		if ri.Block() == h.Recover {
			continue
		}
		n++
		if r.Reachable(ri) {
			return false
		}
	}
	return n > 0
}

// CutAtCallX is CutAtCall that also cuts at the call of a function new since
// the anchor snapshot in which a matching call is made on every path.
func CutAtCallX(m CallMatcher) func(ssa.Instruction) bool { return cutAtCallX(m, 0) }

func cutAtCallX(m CallMatcher, depth int) func(ssa.Instruction) bool {
	plain := cutAtCallPlain(m)
	return func(in ssa.Instruction) bool {
		if plain(in) {
			return true
		}
		var cc *ssa.CallCommon
		switch x := in.(type) {
		case *ssa.Call:
			cc = &x.Call
		case *ssa.Defer:
			cc = &x.Call
		default:
			return false
		}
		h := CalleeFunc(cc)
		if h == nil || h.Blocks == nil || !IsRepoFunc(h) || !IsNewFunc(h) {
			return false
		}
		return mustCall(h, m, depth)
	}
}

func containsCall(fn *ssa.Function, m CallMatcher, depth int) bool {
	found := false
	Instrs(fn, func(in ssa.Instruction) {
		if c, ok := in.(ssa.CallInstruction); ok {
			if m(c.Common()) {
				found = true
			} else if depth < 2 {
				// a block moved into a function new since the anchor snapshot still belongs to fn
				if h := CalleeFunc(c.Common()); h != nil && h != fn && h.Blocks != nil && IsRepoFunc(h) && IsNewFunc(h) && containsCall(h, m, depth+1) {
					found = true
				}
			}
		}
	})
	return found
}

// BoundValue follows helper parameters to the arguments they stand for while a
// check is evaluated inside a helper (see BindParams).
func BoundValue(v ssa.Value) ssa.Value {
	for i := 0; i < 4; i++ {
		pm, ok := v.(*ssa.Parameter)
		if !ok {
			break
		}
		b, ok := ParamBinding[pm]
		if !ok || b == nil {
			break
		}
		v = b
	}
	return v
}

// ContainsCall reports whether fn contains a call matching m.
func ContainsCall(fn *ssa.Function, m CallMatcher) bool { return containsCall(fn, m, 0) }

// RequireAnyGate: every sink is unreachable from entry once the pass edges of
// ALL gates in the disjunction (plus base, e.g. infeasible edges) are removed;
// i.e. reaching a sink requires crossing the pass edge of at least one of the
// gates. Every gate must be tested at least minSites times. When loopAware and
// all recognised sites lie inside one loop, the sinks are replaced by that
// loop's back edges (an iteration completes only across a pass edge).
func (c *Ctx) RequireAnyGate(rule string, fn *ssa.Function, gates []Gate, minSites []int, sinks []ssa.Instruction, sinkDesc string, base map[Edge]bool, loopAware bool) bool {
	c.Fn(FuncName(fn))
	var names []string
	removed := map[Edge]bool{}
	for e := range base {
		removed[e] = true
	}
	for e := range ErrorExitEdges(fn) {
		removed[e] = true
	}
	var allSites []*ssa.If
	via := ViaEdges{}
	// a helper may enforce the DISJUNCTION (`if x != nil && !equal(x, y) { return err }` moved
	// into a function) without enforcing any single disjunct: summarise the disjunction too
	var orSites []*ssa.If
	if len(gates) > 1 {
		var ns []string
		for _, g := range gates {
			ns = append(ns, g.Name)
		}
		gs := gates
		var mk func(f func(*ssa.Function) []Gate) Gate
		mk = func(f func(*ssa.Function) []Gate) Gate {
			or := Gate{Name: "(" + strings.Join(ns, " ∨ ") + ")"}
			or.Match = func(a Atom) (bool, bool) { return false, false } // direct sites are counted per disjunct below
			or.For = func(h *ssa.Function) Gate {
				inner := f(h)
				o := Gate{Name: or.Name}
				o.Match = func(a Atom) (bool, bool) {
					for _, g := range inner {
						if m, pwt := g.Match(a); m {
							return true, pwt
						}
					}
					return false, false
				}
				o.For = func(h2 *ssa.Function) Gate { return mk(f).For(h2) }
				return o
			}
			return or
		}
		or := mk(func(h *ssa.Function) []Gate {
			var out []Gate
			for _, g := range gs {
				out = append(out, g.in(h))
			}
			return out
		})
		oe, os := or.PassEdges(fn)
		for e := range oe {
			removed[e] = true
		}
		orSites = os
	}
	for i, g := range gates {
		names = append(names, g.Name)
		edges, sites := g.PassEdges(fn)
		gv := g.PassEdgesVia(fn)
		via.add(gv)
		for e := range gv {
			if iff, ok := e.From.Instrs[len(e.From.Instrs)-1].(*ssa.If); ok {
				dup := false
				for _, s := range sites {
					if s == iff {
						dup = true
					}
				}
				if !dup {
					sites = append(sites, iff)
				}
			}
		}
		min := 1
		if i < len(minSites) && minSites[i] > 0 {
			min = minSites[i]
		}
		if len(sites) < min && len(orSites) > 0 {
			// the disjunct is tested inside the helper(s) that enforce the disjunction
			n := len(sites)
			for _, s := range orSites {
				a := AtomOf(s)
				var x ssa.Value = a.X
				idx := 0
				if ex, isEx := a.X.(*ssa.Extract); isEx {
					idx = ex.Index
				}
				if a.Op == token.EQL || a.Op == token.NEQ {
					idx = -1
					if IsNilConst(a.X) {
						x = a.Y
					}
				}
				if h, site := helperOf(x, idx, fn); h != nil {
					bindParams(h, site, func() {
						_, hs := g.in(h).PassEdges(h)
						n += len(hs)
					})
				}
			}
			if n >= min {
				sites = append(sites, orSites...)
			}
		}
		if len(sites) < min && len(sinks) > 0 {
			// check and sink were extracted together into a new helper
			all := true
			for _, s := range sinks {
				if !gatedInsideHelper(s, gates, 0) {
					all = false
				}
			}
			if all {
				sites = append(sites, make([]*ssa.If, min)...)[:0]
				edges = map[Edge]bool{}
				min = 0
			}
		}
		if len(sites) < min {
			construct := FuncName(fn) + "|" + strings.Join(names, " ∨ ") + "|" + sinkDesc
			c.Violate(rule, construct, c.P.Pos(fn.Pos()), fmt.Sprintf("%s tests '%s' %d time(s), expected at least %d: the check is missing", FuncName(fn), g.Name, len(sites), min))
			return false
		}
		for e := range edges {
			removed[e] = true
		}
		allSites = append(allSites, sites...)
	}
	construct := FuncName(fn) + "|" + strings.Join(names, " ∨ ") + "|" + sinkDesc
	useSinks := sinks
	desc := sinkDesc
	if loopAware {
		loops := Loops(fn)
		var common *Loop
		ok := true
		// the loop is the one holding the sites of the first (primary) gate
		_, primary := gates[0].PassEdges(fn)
		if len(primary) == 0 {
			primary = orSites // the disjunction is enforced by a helper called in the loop
		}
		for _, s := range primary {
			l := InnermostLoop(loops, s)
			if l == nil {
				ok = false
				break
			}
			if common == nil {
				common = l
			} else if common != l {
				// choose the outer one if nested
				if common.Blocks[l.Header] {
					// l nested in common: keep common
				} else if l.Blocks[common.Header] {
					common = l
				} else {
					ok = false
				}
			}
		}
		if ok && common != nil {
			// start at the loop body entry; the header must not be reachable again
			var starts []*ssa.BasicBlock
			for _, s := range common.Header.Succs {
				if common.Blocks[s] {
					starts = append(starts, s)
				}
			}
			r := Reach(fn, ReachOpts{Removed: removed, RemovedVia: via, Starts: starts})
			hdr := common.Header.Instrs[0]
			if r.Reachable(hdr) {
				c.Violate(rule, construct, c.P.Pos(instrPos(hdr)), fmt.Sprintf("in %s the loop at %s can proceed to its next iteration (element accepted) without crossing the pass edge of (%s); witness %s", FuncName(fn), c.P.Pos(instrPos(hdr)), strings.Join(names, " ∨ "), r.Path(c.P, hdr)))
				return false
			}
			// every element must be checked: the loop must not be left early (break / return
			// from the body) towards an accepting sink — only the header's own exit and error
			// exits leave it
			errEdges := map[Edge]bool{}
			for e := range base {
				errEdges[e] = true
			}
			for e := range ErrorExitEdges(fn) {
				errEdges[e] = true
			}
			for b := range common.Blocks {
				if b == common.Header {
					continue
				}
				for si, s := range b.Succs {
					if common.Blocks[s] || errEdges[Edge{b, si}] {
						continue
					}
					er := Reach(fn, ReachOpts{Removed: errEdges, Starts: []*ssa.BasicBlock{s}})
					for _, sk := range sinks {
						if er.Reachable(sk) {
							last := b.Instrs[len(b.Instrs)-1]
							c.Violate(rule, construct+"|every element", c.P.Pos(instrPos(last)), fmt.Sprintf("in %s the per-element loop at %s can be left from its body (%s) towards '%s' at %s before the remaining elements were checked", FuncName(fn), c.P.Pos(instrPos(hdr)), c.P.Pos(instrPos(last)), sinkDesc, c.P.Pos(instrPos(sk))))
							return false
						}
					}
				}
			}
			c.Hold(rule, construct, c.P.Pos(fn.Pos()), fmt.Sprintf("the per-element loop cannot reach its next iteration once the pass edges of (%s) are removed", strings.Join(names, " ∨ ")))
			return true
		}
	}
	if len(useSinks) == 0 {
		c.Violate(rule, construct, c.P.Pos(fn.Pos()), "no sink of kind '"+sinkDesc+"' found")
		return false
	}
	r := Reach(fn, ReachOpts{Removed: removed, RemovedVia: via})
	for _, s := range useSinks {
		if r.Reachable(s) {
			if gatedInsideHelper(s, gates, 0) {
				continue
			}
			c.Violate(rule, construct, c.P.Pos(instrPos(s)), fmt.Sprintf("%s at %s is reachable in %s without crossing the pass edge of (%s); witness %s", desc, c.P.Pos(instrPos(s)), FuncName(fn), strings.Join(names, " ∨ "), r.Path(c.P, s)))
			return false
		}
	}
	c.Hold(rule, construct, c.P.Pos(fn.Pos()), fmt.Sprintf("%d sink(s) '%s' unreachable once the pass edges of (%s) are removed", len(useSinks), desc, strings.Join(names, " ∨ ")))
	return true
}

// FailEdges returns the non-pass successor edges of the Ifs testing g.
func (g Gate) FailEdges(fn *ssa.Function) map[Edge]bool {
	pass, sites := g.PassEdges(fn)
	out := map[Edge]bool{}
	for _, s := range sites {
		for si := range s.Block().Succs {
			e := Edge{From: s.Block(), Succ: si}
			if !pass[e] {
				out[e] = true
			}
		}
	}
	return out
}

// ErrorExitsReachable explores fn forward from instruction `from` (exclusive),
// not crossing removed edges and stopping at instructions for which cut is
// true, and returns the returns that can be reached while the function's error
// result may be non-nil ON THAT PATH. When the error result lives in a local
// cell (named result) the exploration is path-sensitive in one bit: crossing
// the nil side of `if err != nil` (a test of a load of the cell) makes the
// error known nil until the next store to the cell; a store of the nil
// constant does the same. Otherwise MaybeErrorExit decides per return.
// nilOnEdge: v is known nil when control flows from block pr into block to:
// pr ends with a test of v against nil and `to` is the nil side, or v is
// known nil at the end of pr.
func nilOnEdge(v ssa.Value, pr, to *ssa.BasicBlock) bool {
	if IsNilConst(v) {
		return true
	}
	if len(pr.Instrs) == 0 {
		return false
	}
	last := pr.Instrs[len(pr.Instrs)-1]
	if iff, ok := last.(*ssa.If); ok {
		a := AtomOf(iff)
		if (a.Op == token.EQL || a.Op == token.NEQ) && a.Y != nil {
			var x ssa.Value
			if IsNilConst(a.Y) {
				x = a.X
			} else if IsNilConst(a.X) {
				x = a.Y
			}
			if x == v {
				nilSucc := a.TrueSucc()
				if a.Op == token.NEQ {
					nilSucc = 1 - nilSucc
				}
				if nilSucc < len(pr.Succs) && pr.Succs[nilSucc] == to && pr.Succs[1-nilSucc] != to {
					return true
				}
			}
		}
	}
	return KnownNil(v, last)
}

func ErrorExitsReachable(fn *ssa.Function, from ssa.Instruction, cut func(ssa.Instruction) bool, removed map[Edge]bool) []*ssa.Return {
	ei := ErrIndex(fn)
	var cell *ssa.Alloc
	cellMode := ei >= 0
	if cellMode {
		for _, r := range Returns(fn) {
			ret := r.(*ssa.Return)
			if ei >= len(ret.Results) {
				cellMode = false
				break
			}
			u, ok := ret.Results[ei].(*ssa.UnOp)
			if !ok {
				cellMode = false
				break
			}
			al, ok := u.X.(*ssa.Alloc)
			if !ok || (cell != nil && al != cell) {
				cellMode = false
				break
			}
			cell = al
		}
	}
	if !cellMode || cell == nil {
		r := Reach(fn, ReachOpts{From: from, Cut: cut, Removed: removed})
		var out []*ssa.Return
		for _, x := range Returns(fn) {
			ret := x.(*ssa.Return)
			if !r.Reachable(x) || !MaybeErrorExit(ret) {
				continue
			}
			// error result is a phi of the return's own block: the return is an error exit
			// only through a reachable predecessor whose operand may be non-nil on that edge
			if ei >= 0 && ei < len(ret.Results) {
				if phi, ok := ret.Results[ei].(*ssa.Phi); ok && phi.Block() == ret.Block() {
					viaErr := false
					for i, e := range phi.Edges {
						pr := phi.Block().Preds[i]
						if len(pr.Instrs) == 0 || !r.Reachable(pr.Instrs[len(pr.Instrs)-1]) {
							continue
						}
						edgeRemoved := false
						for si, s := range pr.Succs {
							if s == phi.Block() && removed[Edge{pr, si}] {
								edgeRemoved = true
							}
						}
						if edgeRemoved || nilOnEdge(e, pr, phi.Block()) {
							continue
						}
						viaErr = true
					}
					if !viaErr {
						continue
					}
				} else if v := ret.Results[ei]; len(ret.Block().Preds) > 0 {
					// same value on every incoming edge: an error exit only through a reachable
					// predecessor edge on which the value is not known nil
					def, isInstr := v.(ssa.Instruction)
					if !isInstr || def.Block() != ret.Block() {
						viaErr := false
						for _, pr := range ret.Block().Preds {
							if len(pr.Instrs) == 0 || !r.Reachable(pr.Instrs[len(pr.Instrs)-1]) {
								continue
							}
							edgeRemoved := false
							for si, s := range pr.Succs {
								if s == ret.Block() && removed[Edge{pr, si}] {
									edgeRemoved = true
								}
							}
							if edgeRemoved || nilOnEdge(v, pr, ret.Block()) {
								continue
							}
							viaErr = true
						}
						if !viaErr {
							continue
						}
					}
				}
			}
			out = append(out, ret)
		}
		return out
	}
	type st struct {
		b   *ssa.BasicBlock
		i   int
		nil bool
		nv  ssa.Value // a value tested nil on this path (stored into the cell later: `if err != nil {…}; return err`)
	}
	seen := map[st]bool{}
	var out []*ssa.Return
	outSeen := map[*ssa.Return]bool{}
	// start after `from`
	startB := from.Block()
	startI := 0
	for i, in := range startB.Instrs {
		if in == from {
			startI = i + 1
		}
	}
	work := []st{{startB, startI, false, nil}}
	for len(work) > 0 {
		s := work[len(work)-1]
		work = work[:len(work)-1]
		if seen[s] {
			continue
		}
		seen[s] = true
		known := s.nil
		nv := s.nv
		if def, ok := nv.(ssa.Instruction); ok && s.i == 0 && def.Block() == s.b {
			nv = nil // re-evaluated (loop): the earlier test says nothing about the new value
		}
		stopped := false
		for i := s.i; i < len(s.b.Instrs) && !stopped; i++ {
			in := s.b.Instrs[i]
			if cut != nil && cut(in) {
				stopped = true
				break
			}
			switch x := in.(type) {
			case *ssa.Store:
				if x.Addr == ssa.Value(cell) {
					known = IsNilConst(x.Val) || (nv != nil && x.Val == nv)
				}
			case *ssa.Return:
				if !known && !outSeen[x] {
					outSeen[x] = true
					out = append(out, x)
				}
				stopped = true
			case *ssa.If:
				a := AtomOf(x)
				testsCell := false
				nilWhenTrue := false
				var tested ssa.Value
				if (a.Op == token.EQL || a.Op == token.NEQ) && a.Y != nil {
					var v ssa.Value
					if IsNilConst(a.Y) {
						v = a.X
					} else if IsNilConst(a.X) {
						v = a.Y
					}
					if v != nil && IsErrorType(v.Type()) {
						tested = v
						nilWhenTrue = a.Op == token.EQL
					}
					if u, ok := v.(*ssa.UnOp); ok && u.X == ssa.Value(cell) {
						// the load must be of the current content: no store between load and test
						testsCell = true
						for j := i - 1; j >= 0; j-- {
							if s.b.Instrs[j] == ssa.Instruction(u) {
								break
							}
							if stx, ok := s.b.Instrs[j].(*ssa.Store); ok && stx.Addr == ssa.Value(cell) {
								testsCell = false
							}
						}
						if u.Block() != s.b {
							testsCell = false
						}
						nilWhenTrue = a.Op == token.EQL
					}
				}
				for si, succ := range s.b.Succs {
					if removed[Edge{s.b, si}] {
						continue
					}
					k := known
					n2 := nv
					atomTrue := si == a.TrueSucc()
					if testsCell {
						k = atomTrue == nilWhenTrue
					} else if tested != nil && atomTrue == nilWhenTrue && s.b.Succs[0] != s.b.Succs[1] {
						n2 = tested
					}
					work = append(work, st{succ, 0, k, n2})
				}
				stopped = true
			case *ssa.Jump:
				if !removed[Edge{s.b, 0}] {
					work = append(work, st{s.b.Succs[0], 0, known, nv})
				}
				stopped = true
			}
		}
	}
	return out
}
