package core

import (
	"go/constant"
	"go/token"
	"go/types"
	"strings"

	"golang.org/x/tools/go/ssa"
)

// CalleeObj returns the *types.Func statically named by a call: the static
// callee's object, or the interface method object for invoke-mode calls.
// For calls of closures / function values it returns nil.
func CalleeObj(c *ssa.CallCommon) *types.Func {
	if c.IsInvoke() {
		return c.Method
	}
	if f := c.StaticCallee(); f != nil {
		if o := f.Origin(); o != nil {
			f = o
		}
		if obj, ok := f.Object().(*types.Func); ok {
			return obj
		}
	}
	return nil
}

// CalleeFunc returns the SSA function of a static call (including closures
// bound to a local MakeClosure), or nil.
func CalleeFunc(c *ssa.CallCommon) *ssa.Function {
	if c.IsInvoke() {
		return nil
	}
	if f := c.StaticCallee(); f != nil {
		return f
	}
	return nil
}

// FuncName gives a stable display name "pkg.(*T).M" without module prefix.
func FuncName(fn *ssa.Function) string {
	if fn == nil {
		return "<nil>"
	}
	s := fn.String()
	s = strings.ReplaceAll(s, ModPath+"/", "")
	return s
}

func ObjName(o *types.Func) string {
	if o == nil {
		return "<nil>"
	}
	s := o.FullName()
	return strings.ReplaceAll(s, ModPath+"/", "")
}

// SameFunc reports whether the call's callee is obj (method objects compared
// by origin so that instantiated generics match).
func SameFunc(a, b *types.Func) bool {
	if a == nil || b == nil {
		return false
	}
	return a.Origin() == b.Origin()
}

// Instrs iterates all instructions of fn.
func Instrs(fn *ssa.Function, f func(ssa.Instruction)) {
	for _, b := range fn.Blocks {
		for _, in := range b.Instrs {
			f(in)
		}
	}
}

// CallsIn returns every call-like instruction (call, go, defer) in fn.
func CallsIn(fn *ssa.Function) []ssa.CallInstruction {
	var out []ssa.CallInstruction
	Instrs(fn, func(in ssa.Instruction) {
		if c, ok := in.(ssa.CallInstruction); ok {
			out = append(out, c)
		}
	})
	return out
}

// CallsTo returns the call instructions in fn whose callee object is obj
// (static or interface method). Only plain calls unless includeDeferGo.
func CallsTo(fn *ssa.Function, obj *types.Func, includeDeferGo bool) []ssa.CallInstruction {
	var out []ssa.CallInstruction
	for _, c := range CallsIn(fn) {
		if _, ok := c.(*ssa.Call); !ok && !includeDeferGo {
			continue
		}
		if SameFunc(CalleeObj(c.Common()), obj) {
			out = append(out, c)
		}
	}
	return out
}

// CallsToFn returns the calls in fn whose static callee is target.
func CallsToFn(fn *ssa.Function, target *ssa.Function) []ssa.CallInstruction {
	var out []ssa.CallInstruction
	for _, c := range CallsIn(fn) {
		if cf := CalleeFunc(c.Common()); cf != nil && (cf == target || cf.Origin() == target) {
			out = append(out, c)
		}
	}
	return out
}

// ---------------------------------------------------------------------------
// Reaching stores for Alloc cells (locals that go/ssa could not lift because
// they are captured by closures or address-taken).

// unknownStore marks a point where a cell may be written by code we do not
// follow (closure call, RunDefers, address escape).
type reachInfo struct {
	stores  []*ssa.Store // may-reaching stores
	unknown bool         // an unknown write may reach
	zero    bool         // the zero-initialisation may reach
}

func (r *reachInfo) Unknown() bool        { return r.unknown }
func (r *reachInfo) Zero() bool           { return r.zero }
func (r *reachInfo) Stores() []*ssa.Store { return r.stores }

type cellKey struct {
	cell ssa.Value
}

type reachCache struct {
	fn   *ssa.Function
	info map[ssa.Value]map[ssa.Instruction]*reachInfo // cell -> load -> info
}

var reachCaches = map[*ssa.Function]*reachCache{}

// cellOf returns the storage cell (Alloc or FreeVar) a load/store address
// denotes, or nil when it is not a simple local cell.
func cellOf(addr ssa.Value) ssa.Value {
	switch a := addr.(type) {
	case *ssa.Alloc:
		return a
	case *ssa.FreeVar:
		return a
	}
	return nil
}

// closureWrites reports whether fn (a closure) or closures nested in it store
// to the free variable with index idx.
func closureWrites(fn *ssa.Function, idx int, depth int) bool {
	if fn == nil || idx >= len(fn.FreeVars) || depth > 4 {
		return true
	}
	fv := fn.FreeVars[idx]
	w := false
	for _, ref := range *fv.Referrers() {
		switch r := ref.(type) {
		case *ssa.Store:
			if r.Addr == fv {
				w = true
			}
		case *ssa.MakeClosure:
			for bi, b := range r.Bindings {
				if b == fv {
					if closureWrites(r.Fn.(*ssa.Function), bi, depth+1) {
						w = true
					}
				}
			}
		case *ssa.UnOp:
			// load: fine
		default:
			// address passed elsewhere
			if _, ok := ref.(ssa.CallInstruction); ok {
				w = true
			}
		}
	}
	return w
}

// cellWriters returns, for a cell in fn, the closures (MakeClosure values) that
// capture the cell and may write it, and whether the address escapes otherwise.
func cellWriters(cell ssa.Value) (writers map[ssa.Value]bool, escapes bool) {
	writers = map[ssa.Value]bool{}
	refs := cell.Referrers()
	if refs == nil {
		return writers, true
	}
	for _, ref := range *refs {
		switch r := ref.(type) {
		case *ssa.Store:
			if r.Val == cell {
				escapes = true
			}
		case *ssa.UnOp:
		case *ssa.MakeClosure:
			for bi, b := range r.Bindings {
				if b == cell && closureWrites(r.Fn.(*ssa.Function), bi, 0) {
					writers[r] = true
				}
			}
		case *ssa.DebugRef:
		case *ssa.FieldAddr, *ssa.IndexAddr:
			// address of part of the cell: treat partial writes as escapes only for
			// whole-cell reasoning about pointers/interfaces; struct cells are not
			// what we track (we track error / pointer / bool cells).
		default:
			if _, ok := ref.(ssa.CallInstruction); ok {
				escapes = true
			} else if _, ok := ref.(*ssa.Phi); ok {
				escapes = true
			} else if _, ok := ref.(*ssa.MakeInterface); ok {
				escapes = true
			}
		}
	}
	return
}

// ReachingStores computes the may-reaching definitions of the cell read by
// load (an *ssa.UnOp MUL on an Alloc/FreeVar). ok=false if the address is not
// a simple cell.
func ReachingStores(load *ssa.UnOp) (*reachInfo, bool) {
	if load.Op != token.MUL {
		return nil, false
	}
	cell := cellOf(load.X)
	if cell == nil {
		return nil, false
	}
	fn := load.Parent()
	rc := reachCaches[fn]
	if rc == nil {
		rc = &reachCache{fn: fn, info: map[ssa.Value]map[ssa.Instruction]*reachInfo{}}
		reachCaches[fn] = rc
	}
	m := rc.info[cell]
	if m == nil {
		m = computeReach(fn, cell)
		rc.info[cell] = m
	}
	ri := m[load]
	if ri == nil {
		return &reachInfo{unknown: true}, true
	}
	return ri, true
}

type defset struct {
	stores  map[*ssa.Store]bool
	unknown bool
	zero    bool
}

func (d *defset) clone() *defset {
	n := &defset{stores: map[*ssa.Store]bool{}, unknown: d.unknown, zero: d.zero}
	for s := range d.stores {
		n.stores[s] = true
	}
	return n
}

func (d *defset) union(o *defset) bool {
	ch := false
	for s := range o.stores {
		if !d.stores[s] {
			d.stores[s] = true
			ch = true
		}
	}
	if o.unknown && !d.unknown {
		d.unknown = true
		ch = true
	}
	if o.zero && !d.zero {
		d.zero = true
		ch = true
	}
	return ch
}

func computeReach(fn *ssa.Function, cell ssa.Value) map[ssa.Instruction]*reachInfo {
	writers, escapes := cellWriters(cell)
	_, isFree := cell.(*ssa.FreeVar)
	// closures deferred in this function that write the cell
	deferredWriter := false
	Instrs(fn, func(in ssa.Instruction) {
		if d, ok := in.(*ssa.Defer); ok {
			if writers[d.Call.Value] {
				deferredWriter = true
			}
			for _, a := range d.Call.Args {
				if writers[a] {
					deferredWriter = true
				}
			}
		}
	})
	in := map[*ssa.BasicBlock]*defset{}
	out := map[*ssa.BasicBlock]*defset{}
	for _, b := range fn.Blocks {
		in[b] = &defset{stores: map[*ssa.Store]bool{}}
		out[b] = &defset{stores: map[*ssa.Store]bool{}}
	}
	if len(fn.Blocks) == 0 {
		return nil
	}
	entry := fn.Blocks[0]
	if isFree || escapes {
		in[entry].unknown = true
	} else {
		in[entry].zero = true
	}
	res := map[ssa.Instruction]*reachInfo{}
	transfer := func(b *ssa.BasicBlock, record bool) *defset {
		cur := in[b].clone()
		for _, ins := range b.Instrs {
			switch x := ins.(type) {
			case *ssa.Alloc:
				if x == cell {
					// (re)allocation in a loop: fresh zero cell
					cur = &defset{stores: map[*ssa.Store]bool{}, zero: true}
					if escapes {
						cur.unknown = true
					}
				}
			case *ssa.Store:
				if x.Addr == cell {
					cur = &defset{stores: map[*ssa.Store]bool{x: true}}
				}
			case *ssa.UnOp:
				if record && x.Op == token.MUL && x.X == cell {
					ri := &reachInfo{unknown: cur.unknown, zero: cur.zero}
					for s := range cur.stores {
						ri.stores = append(ri.stores, s)
					}
					res[x] = ri
				}
			case *ssa.RunDefers:
				if deferredWriter {
					cur.unknown = true
				}
			case *ssa.Call:
				// inline call of a closure that writes the cell
				if writers[x.Call.Value] {
					cur.unknown = true
				} else if escapes || isFree {
					// any call may write an escaped cell
					cur.unknown = true
				} else {
					for _, a := range x.Call.Args {
						if writers[a] {
							cur.unknown = true
						}
					}
				}
			}
		}
		return cur
	}
	changed := true
	for changed {
		changed = false
		for _, b := range fn.Blocks {
			for _, p := range b.Preds {
				if in[b].union(out[p]) {
					changed = true
				}
			}
			o := transfer(b, false)
			if out[b].union(o) {
				changed = true
			}
		}
	}
	for _, b := range fn.Blocks {
		transfer(b, true)
	}
	return res
}

// ---------------------------------------------------------------------------
// Value origins

// Origins strips value-preserving wrappers (ChangeType, ChangeInterface,
// MakeInterface, Convert between identical underlying kinds) and resolves
// loads of local cells through their reaching stores and phis through their
// edges. It returns the set of origin values and whether an unknown definition
// (escaped cell, zero value, external write) may also reach.
func Origins(v ssa.Value) (vals []ssa.Value, unknown bool) { return origins(v, true) }

// OriginsNoExpand is Origins that stops at the call of a new helper (the
// caller wants the helper itself).
func OriginsNoExpand(v ssa.Value) (vals []ssa.Value, unknown bool) { return origins(v, false) }

func origins(v ssa.Value, expand bool) (vals []ssa.Value, unknown bool) {
	seen := map[ssa.Value]bool{}
	var walk func(v ssa.Value)
	walk = func(v ssa.Value) {
		if v == nil || seen[v] {
			return
		}
		seen[v] = true
		switch x := v.(type) {
		case *ssa.ChangeType:
			walk(x.X)
		case *ssa.ChangeInterface:
			walk(x.X)
		case *ssa.MakeInterface:
			walk(x.X)
		case *ssa.Phi:
			for _, e := range x.Edges {
				walk(e)
			}
		case *ssa.UnOp:
			if x.Op == token.MUL {
				if ri, ok := ReachingStores(x); ok {
					if ri.unknown {
						unknown = true
					}
					if ri.zero {
						vals = append(vals, zeroMarker{x.Type()})
					}
					for _, s := range ri.stores {
						walk(s.Val)
					}
					return
				}
			}
			vals = append(vals, v)
		case *ssa.Parameter:
			// while a check is evaluated inside a helper (gate summaries), the helper's
			// parameters stand for the arguments of the call being summarised
			if b, ok := ParamBinding[x]; ok && b != nil {
				walk(b)
				return
			}
			vals = append(vals, v)
		default:
			// the producing expression was extracted into a function that is new since the
			// anchor snapshot: the origins are those of what the helper returns
			if _, isTuple := v.Type().(*types.Tuple); isTuple {
				vals = append(vals, v)
				return
			}
			if call, idx, ok := CallResult(v); ok && expand && IsNewFunc != nil && len(seen) < 400 {
				if h := CalleeFunc(&call.Call); h != nil && h.Blocks != nil && IsNewFunc(h) && idx < h.Signature.Results().Len() {
					n := 0
					bindParams(h, call, func() {
						for _, b := range h.Blocks {
							if b == h.Recover || len(b.Instrs) == 0 {
								continue
							}
							if ret, isRet := b.Instrs[len(b.Instrs)-1].(*ssa.Return); isRet && idx < len(ret.Results) {
								walk(ret.Results[idx])
								n++
							}
						}
					})
					if n > 0 {
						return
					}
				}
			}
			vals = append(vals, v)
		}
	}
	walk(v)
	return
}

// ParamBinding maps parameters of a helper under summarisation to the
// arguments of the summarised call site (set and restored by the gate engine).
var ParamBinding = map[*ssa.Parameter]ssa.Value{}

// zeroMarker stands for "the zero value of the cell" in an origin set.
type zeroMarker struct{ t types.Type }

func (z zeroMarker) Name() string                  { return "zero" }
func (z zeroMarker) String() string                { return "zero" }
func (z zeroMarker) Type() types.Type              { return z.t }
func (z zeroMarker) Parent() *ssa.Function         { return nil }
func (z zeroMarker) Referrers() *[]ssa.Instruction { return nil }
func (z zeroMarker) Pos() token.Pos                { return token.NoPos }

func IsZeroMarker(v ssa.Value) bool { _, ok := v.(zeroMarker); return ok }

// CallResult describes v as "result #idx of call".
func CallResult(v ssa.Value) (call *ssa.Call, idx int, ok bool) {
	switch x := v.(type) {
	case *ssa.Call:
		return x, 0, true
	case *ssa.Extract:
		if c, ok := x.Tuple.(*ssa.Call); ok {
			return c, x.Index, true
		}
	}
	return nil, 0, false
}

// IsNilConst reports whether v is the nil constant.
func IsNilConst(v ssa.Value) bool {
	c, ok := v.(*ssa.Const)
	return ok && c.Value == nil
}

// BoolConst returns the value of a boolean constant.
func BoolConst(v ssa.Value) (val, ok bool) {
	c, isC := v.(*ssa.Const)
	if !isC || c.Value == nil || c.Value.Kind() != constant.Bool {
		return false, false
	}
	return constant.BoolVal(c.Value), true
}

// IntConst returns the value of an integer constant.
func IntConst(v ssa.Value) (int64, bool) {
	c, isC := v.(*ssa.Const)
	if !isC || c.Value == nil || c.Value.Kind() != constant.Int {
		return 0, false
	}
	i, ok := constant.Int64Val(c.Value)
	return i, ok
}

// FieldOf reports the struct field a FieldAddr/Field instruction selects.
func FieldOf(v ssa.Value) *types.Var {
	switch x := v.(type) {
	case *ssa.FieldAddr:
		st := x.X.Type().Underlying().(*types.Pointer).Elem().Underlying().(*types.Struct)
		return st.Field(x.Field)
	case *ssa.Field:
		st := x.X.Type().Underlying().(*types.Struct)
		return st.Field(x.Field)
	}
	return nil
}

// LoadedField: v is a load (*FieldAddr) or Field extraction; returns the field
// and the base object value.
func LoadedField(v ssa.Value) (*types.Var, ssa.Value) {
	switch x := v.(type) {
	case *ssa.UnOp:
		if x.Op == token.MUL {
			if fa, ok := x.X.(*ssa.FieldAddr); ok {
				return FieldOf(fa), fa.X
			}
		}
	case *ssa.Field:
		return FieldOf(x), x.X
	}
	return nil, nil
}

// IsErrorType reports whether t is the built-in error interface.
func IsErrorType(t types.Type) bool {
	return types.Identical(t, types.Universe.Lookup("error").Type())
}
