package core

import (
	"fmt"
	"sort"
	"strings"
)

// Obligation is one instance of a rule on one construct.
type Obligation struct {
	Rule   string `json:"rule"`
	Key    string `json:"key"` // rule + construct, stable across line moves
	Pos    string `json:"pos"`
	Held   bool   `json:"held"`
	Detail string `json:"detail,omitempty"`
}

// Ctx collects the obligations of one property run.
type Ctx struct {
	P     *Prog
	Prop  string
	Tier  string
	Obls  []Obligation
	Notes []string
	mins  map[string]int
	count map[string]int
	Funcs map[string]bool // functions analysed (for evidence)
	Undecided []string
}

func NewCtx(p *Prog, prop, tier string) *Ctx {
	return &Ctx{P: p, Prop: prop, Tier: tier, mins: map[string]int{}, count: map[string]int{}, Funcs: map[string]bool{}}
}

func (c *Ctx) add(rule, construct, pos string, held bool, detail string) {
	key := rule + "|" + construct
	// ordinal for duplicates of the same rule+construct
	n := 0
	for _, o := range c.Obls {
		if o.Key == key || strings.HasPrefix(o.Key, key+"#") {
			n++
		}
	}
	if n > 0 {
		key = fmt.Sprintf("%s#%d", key, n+1)
	}
	c.Obls = append(c.Obls, Obligation{Rule: rule, Key: key, Pos: pos, Held: held, Detail: detail})
	c.count[rule]++
}

// Hold records a discharged obligation.
func (c *Ctx) Hold(rule, construct, pos, detail string) { c.add(rule, construct, pos, true, detail) }

// Violate records a violated obligation.
func (c *Ctx) Violate(rule, construct, pos, detail string) { c.add(rule, construct, pos, false, detail) }

// Check records held or violated according to ok.
func (c *Ctx) Check(ok bool, rule, construct, pos, detail string) {
	c.add(rule, construct, pos, ok, detail)
}

// Min declares the minimum number of instances rule must have matched; fewer
// means the rule table no longer matches the code (checker broken, exit 2).
func (c *Ctx) Min(rule string, n int) { c.mins[rule] = n }

// Note records a cross-reference note (never a violation).
func (c *Ctx) Note(format string, args ...any) { c.Notes = append(c.Notes, fmt.Sprintf(format, args...)) }

// Undecide records that an obligation could not be decided (exit 2).
func (c *Ctx) Undecide(format string, args ...any) {
	c.Undecided = append(c.Undecided, fmt.Sprintf(format, args...))
}

func (c *Ctx) Fn(name string) { c.Funcs[name] = true }

// VacuityFailures lists rules whose instance count fell below the minimum.
func (c *Ctx) VacuityFailures() []string {
	var out []string
	for r, m := range c.mins {
		if c.count[r] < m {
			out = append(out, fmt.Sprintf("rule %s matched %d instances, expected at least %d", r, c.count[r], m))
		}
	}
	sort.Strings(out)
	return out
}

func (c *Ctx) RuleCounts() map[string]int { return c.count }
