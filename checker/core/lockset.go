package core

import (
	"go/types"
	"sort"
	"strings"

	"golang.org/x/tools/go/ssa"
)

// LockKey identifies a mutex statically: the struct field (or global) that
// holds it. Field-based: two instances of the same type share a key.
type LockKey struct {
	Obj types.Object
}

func (k LockKey) String() string {
	if k.Obj == nil {
		return "?"
	}
	if v, ok := k.Obj.(*types.Var); ok && v.IsField() {
		return "." + v.Name()
	}
	return k.Obj.Name()
}

type lockOp struct {
	key  LockKey
	kind string // "lock" | "rlock" | "unlock" | "runlock"
}

// lockOpOf recognises sync.(RW)Mutex operations.
func lockOpOf(c *ssa.CallCommon) (lockOp, bool) {
	o := CalleeObj(c)
	if o == nil || o.Pkg() == nil || o.Pkg().Path() != "sync" || len(c.Args) == 0 {
		return lockOp{}, false
	}
	var kind string
	switch o.Name() {
	case "Lock":
		kind = "lock"
	case "RLock":
		kind = "rlock"
	case "Unlock":
		kind = "unlock"
	case "RUnlock":
		kind = "runlock"
	default:
		return lockOp{}, false
	}
	recv := o.Type().(*types.Signature).Recv()
	if recv == nil {
		return lockOp{}, false
	}
	rt := recv.Type().String()
	if !strings.Contains(rt, "sync.Mutex") && !strings.Contains(rt, "sync.RWMutex") {
		return lockOp{}, false
	}
	k, ok := lockKeyOf(c.Args[0])
	if !ok {
		return lockOp{}, false
	}
	return lockOp{k, kind}, true
}

func lockKeyOf(v ssa.Value) (LockKey, bool) {
	switch x := v.(type) {
	case *ssa.FieldAddr:
		f := FieldOf(x)
		// embedded mutex inside an embedded struct: use the outermost named field
		return LockKey{f}, true
	case *ssa.Global:
		return LockKey{x.Object()}, true
	case *ssa.UnOp:
		// pointer to mutex loaded from a field: key = that field
		if f, _ := LoadedField(x); f != nil {
			return LockKey{f}, true
		}
	}
	return LockKey{}, false
}

type lockState struct {
	must map[LockKey]bool
	may  map[LockKey]bool
	top  bool // unreached (⊤ for must)
}

func newTop() *lockState { return &lockState{must: map[LockKey]bool{}, may: map[LockKey]bool{}, top: true} }

func (s *lockState) clone() *lockState {
	n := &lockState{must: map[LockKey]bool{}, may: map[LockKey]bool{}, top: s.top}
	for k := range s.must {
		n.must[k] = true
	}
	for k := range s.may {
		n.may[k] = true
	}
	return n
}

// join other into s; returns changed
func (s *lockState) join(o *lockState) bool {
	if o.top {
		return false
	}
	if s.top {
		s.top = false
		for k := range o.must {
			s.must[k] = true
		}
		for k := range o.may {
			s.may[k] = true
		}
		return true
	}
	ch := false
	for k := range s.must {
		if !o.must[k] {
			delete(s.must, k)
			ch = true
		}
	}
	for k := range o.may {
		if !s.may[k] {
			s.may[k] = true
			ch = true
		}
	}
	return ch
}

// LockSummary is the net effect of calling a function.
type LockSummary struct {
	Holds    map[LockKey]bool // held at every return, not held at entry
	MayHold  map[LockKey]bool // held at some return
	Releases map[LockKey]bool // unlocks a lock it did not acquire
}

// LockAnalysis holds per-instruction locksets for a set of functions.
type LockAnalysis struct {
	before    map[ssa.Instruction]*lockState
	summaries map[*ssa.Function]*LockSummary
	inprog    map[*ssa.Function]bool
	entry     map[*ssa.Function]map[LockKey]bool
	// exit problems: function -> description
	Leaks map[*ssa.Function][]string
}

func NewLockAnalysis() *LockAnalysis {
	return &LockAnalysis{before: map[ssa.Instruction]*lockState{}, summaries: map[*ssa.Function]*LockSummary{}, inprog: map[*ssa.Function]bool{}, entry: map[*ssa.Function]map[LockKey]bool{}, Leaks: map[*ssa.Function][]string{}}
}

// SetEntry declares locks held on entry of fn (callers hold them).
func (la *LockAnalysis) SetEntry(fn *ssa.Function, keys ...LockKey) {
	m := map[LockKey]bool{}
	for _, k := range keys {
		m[k] = true
	}
	la.entry[fn] = m
	delete(la.summaries, fn)
}

func (la *LockAnalysis) summary(fn *ssa.Function) *LockSummary {
	if s, ok := la.summaries[fn]; ok {
		return s
	}
	if la.inprog[fn] || fn.Blocks == nil {
		return &LockSummary{}
	}
	return la.Analyze(fn)
}

// calleeForLocks resolves the function whose lock effect applies at a call:
// static callees and closures bound to locals, repo functions only.
func calleeForLocks(c *ssa.CallCommon) *ssa.Function {
	f := CalleeFunc(c)
	if f == nil {
		if mc, ok := c.Value.(*ssa.MakeClosure); ok {
			f, _ = mc.Fn.(*ssa.Function)
		}
	}
	if f == nil || f.Blocks == nil || !IsRepoFunc(f) {
		return nil
	}
	return f
}

// AllRepoFuncs (set by the driver) enumerates the repository's functions; used
// to find the callers of a helper.
var AllRepoFuncs func() []*ssa.Function

var autoEntryDone = map[*LockAnalysis]map[*ssa.Function]bool{}

// autoEntry: a top-level function that is new since the anchor snapshot (a block
// moved out of a critical section into a "…Locked" helper) is entered with the
// locks that EVERY one of its callers holds at the call — the intersection of
// the callers' must-sets; `go` calls hold nothing. An explicit SetEntry wins.
func (la *LockAnalysis) autoEntry(fn *ssa.Function) {
	if _, has := la.entry[fn]; has || fn.Parent() != nil || AllRepoFuncs == nil || IsNewFunc == nil || !IsNewFunc(fn) || fn.Pkg == nil {
		return
	}
	if autoEntryDone[la] == nil {
		autoEntryDone[la] = map[*ssa.Function]bool{}
	}
	if autoEntryDone[la][fn] {
		return
	}
	var inter map[LockKey]bool
	n := 0
	for _, f := range AllRepoFuncs() {
		if f == fn || f.Blocks == nil || TopFunc(f).Pkg != fn.Pkg {
			continue
		}
		for _, ci := range CallsIn(f) {
			if CalleeFunc(ci.Common()) != fn {
				continue
			}
			if la.inprog[f] && la.before[ci] == nil {
				// reached from inside the caller's own analysis: decide at the next
				// (explicit) analysis of fn, when the caller's states exist
				return
			}
			n++
			if _, isGo := ci.(*ssa.Go); isGo {
				inter = map[LockKey]bool{}
				continue
			}
			if la.before[ci] == nil && !la.inprog[f] {
				la.Analyze(f)
			}
			must := la.Must(ci)
			if inter == nil {
				inter = map[LockKey]bool{}
				for k := range must {
					inter[k] = true
				}
			} else {
				for k := range inter {
					if !must[k] {
						delete(inter, k)
					}
				}
			}
		}
	}
	autoEntryDone[la][fn] = true
	if n > 0 && len(inter) > 0 {
		la.entry[fn] = inter
	}
}

// Analyze runs the forward lockset analysis on fn.
func (la *LockAnalysis) Analyze(fn *ssa.Function) *LockSummary {
	la.inprog[fn] = true
	defer delete(la.inprog, fn)
	la.autoEntry(fn)
	in := map[*ssa.BasicBlock]*lockState{}
	for _, b := range fn.Blocks {
		in[b] = newTop()
	}
	sum := &LockSummary{Holds: map[LockKey]bool{}, MayHold: map[LockKey]bool{}, Releases: map[LockKey]bool{}}
	if len(fn.Blocks) == 0 {
		la.summaries[fn] = sum
		return sum
	}
	e := in[fn.Blocks[0]]
	e.top = false
	for k := range la.entry[fn] {
		e.must[k] = true
		e.may[k] = true
	}
	deferred := map[*ssa.BasicBlock]map[LockKey]bool{} // not needed per block; collect globally
	_ = deferred
	var deferredUnlocks []lockOp
	var deferredFns []*ssa.Function
	Instrs(fn, func(i ssa.Instruction) {
		if d, ok := i.(*ssa.Defer); ok {
			if op, ok := lockOpOf(&d.Call); ok {
				deferredUnlocks = append(deferredUnlocks, op)
			} else if f := calleeForLocks(&d.Call); f != nil {
				deferredFns = append(deferredFns, f)
			}
		}
	})
	apply := func(st *lockState, i ssa.Instruction, record bool) {
		if record {
			la.before[i] = st.clone()
		}
		call, ok := i.(*ssa.Call)
		if !ok {
			return
		}
		if op, ok := lockOpOf(&call.Call); ok {
			switch op.kind {
			case "lock", "rlock":
				st.must[op.key] = true
				st.may[op.key] = true
			case "unlock", "runlock":
				if !st.may[op.key] && record {
					sum.Releases[op.key] = true
				}
				delete(st.must, op.key)
				delete(st.may, op.key)
			}
			return
		}
		if f := calleeForLocks(&call.Call); f != nil {
			s := la.summary(f)
			for k := range s.Releases {
				if !st.may[k] && record {
					sum.Releases[k] = true
				}
				delete(st.must, k)
				delete(st.may, k)
			}
			for k := range s.Holds {
				st.must[k] = true
				st.may[k] = true
			}
			for k := range s.MayHold {
				st.may[k] = true
			}
		}
	}
	changed := true
	for iter := 0; changed && iter < 100; iter++ {
		changed = false
		for _, b := range fn.Blocks {
			st := in[b]
			if st.top {
				continue
			}
			cur := st.clone()
			for _, i := range b.Instrs {
				apply(cur, i, false)
			}
			for _, s := range b.Succs {
				if in[s].join(cur) {
					changed = true
				}
			}
		}
	}
	first := true
	for _, b := range fn.Blocks {
		st := in[b]
		if st.top {
			continue
		}
		cur := st.clone()
		for _, i := range b.Instrs {
			apply(cur, i, true)
			if _, isRet := i.(*ssa.Return); isRet {
				exit := cur.clone()
				for _, op := range deferredUnlocks {
					delete(exit.must, op.key)
					delete(exit.may, op.key)
				}
				for _, f := range deferredFns {
					s := la.summary(f)
					for k := range s.Releases {
						delete(exit.must, k)
						delete(exit.may, k)
					}
				}
				for k := range exit.may {
					if !la.entry[fn][k] {
						sum.MayHold[k] = true
					}
				}
				if first {
					for k := range exit.must {
						if !la.entry[fn][k] {
							sum.Holds[k] = true
						}
					}
					first = false
				} else {
					for k := range sum.Holds {
						if !exit.must[k] {
							delete(sum.Holds, k)
						}
					}
				}
			}
		}
	}
	la.summaries[fn] = sum
	return sum
}

// Must returns the locks definitely held just before in.
func (la *LockAnalysis) Must(in ssa.Instruction) map[LockKey]bool {
	if s := la.before[in]; s != nil {
		return s.must
	}
	return nil
}

// May returns the locks possibly held just before in.
func (la *LockAnalysis) May(in ssa.Instruction) map[LockKey]bool {
	if s := la.before[in]; s != nil {
		return s.may
	}
	return nil
}

// Reached reports whether in was reached by the analysis.
func (la *LockAnalysis) Reached(in ssa.Instruction) bool { return la.before[in] != nil }

// Summary returns the (computed) summary of fn.
func (la *LockAnalysis) Summary(fn *ssa.Function) *LockSummary { return la.summary(fn) }

func KeysString(m map[LockKey]bool) string {
	var s []string
	for k := range m {
		s = append(s, k.String())
	}
	sort.Strings(s)
	return "{" + strings.Join(s, ",") + "}"
}
