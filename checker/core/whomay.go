package core

import (
	"go/token"
	"go/types"
	"sort"

	"golang.org/x/tools/go/ssa"
)

// Write is one instruction that mutates a struct field (or the map/slice it
// holds).
type Write struct {
	Fn    *ssa.Function
	Instr ssa.Instruction
	Kind  string // "store" | "mapupdate" | "mapdelete" | "elemstore" | "init"
	Val   ssa.Value
}

// fieldAddrOf: addr is &x.f for the given field.
func fieldAddrOf(addr ssa.Value, field *types.Var) (*ssa.FieldAddr, bool) {
	fa, ok := addr.(*ssa.FieldAddr)
	if !ok {
		return nil, false
	}
	if FieldOf(fa) != field {
		return nil, false
	}
	return fa, true
}

// loadsField: v is (through local cells/phis) a load of the field.
func loadsField(v ssa.Value, field *types.Var) bool {
	vals, _ := Origins(v)
	for _, o := range vals {
		if f, _ := LoadedField(o); f == field {
			return true
		}
	}
	return false
}

// FieldWrites enumerates every write to the field in the given functions.
func FieldWrites(fns []*ssa.Function, field *types.Var) []Write {
	var out []Write
	for _, fn := range fns {
		Instrs(fn, func(in ssa.Instruction) {
			switch x := in.(type) {
			case *ssa.Store:
				if fa, ok := fieldAddrOf(x.Addr, field); ok {
					kind := "store"
					if _, isAlloc := fa.X.(*ssa.Alloc); isAlloc {
						kind = "init"
					}
					out = append(out, Write{fn, in, kind, x.Val})
				} else if ia, ok := x.Addr.(*ssa.IndexAddr); ok && loadsField(ia.X, field) {
					out = append(out, Write{fn, in, "elemstore", x.Val})
				}
			case *ssa.MapUpdate:
				if loadsField(x.Map, field) {
					out = append(out, Write{fn, in, "mapupdate", x.Value})
				}
			case *ssa.Call:
				if b, ok := x.Call.Value.(*ssa.Builtin); ok && len(x.Call.Args) >= 1 {
					switch b.Name() {
					case "delete":
						if loadsField(x.Call.Args[0], field) {
							out = append(out, Write{fn, in, "mapdelete", nil})
						}
					case "clear":
						if loadsField(x.Call.Args[0], field) {
							out = append(out, Write{fn, in, "mapdelete", nil})
						}
					}
				}
			}
		})
	}
	sort.SliceStable(out, func(i, j int) bool { return out[i].Instr.Pos() < out[j].Instr.Pos() })
	return out
}

// FieldReads enumerates loads of the field.
func FieldReads(fns []*ssa.Function, field *types.Var) []ssa.Instruction {
	var out []ssa.Instruction
	for _, fn := range fns {
		Instrs(fn, func(in ssa.Instruction) {
			switch x := in.(type) {
			case *ssa.UnOp:
				if x.Op == token.MUL {
					if _, ok := fieldAddrOf(x.X, field); ok {
						out = append(out, in)
					}
				}
			case *ssa.Field:
				if FieldOf(x) == field {
					out = append(out, in)
				}
			}
		})
	}
	return out
}

// Callers enumerates call sites (call, go, defer) of obj in fns, also counting
// method values / function values taken (MakeClosure of bound method, or the
// function used as a value).
type CallSite struct {
	Fn    *ssa.Function
	Instr ssa.Instruction
	Kind  string // "call" | "go" | "defer" | "value"
}

func Callers(fns []*ssa.Function, m CallMatcher) []CallSite {
	var out []CallSite
	for _, fn := range fns {
		Instrs(fn, func(in ssa.Instruction) {
			switch x := in.(type) {
			case *ssa.Call:
				if m(&x.Call) {
					out = append(out, CallSite{fn, in, "call"})
				}
			case *ssa.Go:
				if m(&x.Call) {
					out = append(out, CallSite{fn, in, "go"})
				}
			case *ssa.Defer:
				if m(&x.Call) {
					out = append(out, CallSite{fn, in, "defer"})
				}
			}
		})
	}
	return out
}

// FuncValueUses finds places where target is used as a value (not called):
// passed, stored, bound. Includes bound-method closures (target$bound).
func FuncValueUses(fns []*ssa.Function, target *ssa.Function) []CallSite {
	var out []CallSite
	isT := func(v ssa.Value) bool {
		f, ok := v.(*ssa.Function)
		if !ok {
			return false
		}
		if f == target || f.Origin() == target {
			return true
		}
		// bound method wrapper / thunk
		if f.Synthetic != "" && f.Object() != nil && target.Object() != nil && f.Object() == target.Object() {
			return true
		}
		return false
	}
	for _, fn := range fns {
		Instrs(fn, func(in ssa.Instruction) {
			if c, ok := in.(ssa.CallInstruction); ok {
				for _, a := range c.Common().Args {
					if isT(a) {
						out = append(out, CallSite{fn, in, "value"})
					}
				}
				return
			}
			if mc, ok := in.(*ssa.MakeClosure); ok {
				if isT(mc.Fn) {
					out = append(out, CallSite{fn, in, "value"})
				}
				return
			}
			var ops []*ssa.Value
			for _, op := range in.Operands(ops) {
				if op != nil && *op != nil && isT(*op) {
					out = append(out, CallSite{fn, in, "value"})
				}
			}
		})
	}
	return out
}

// TopFunc returns the outermost declared function enclosing fn.
func TopFunc(fn *ssa.Function) *ssa.Function {
	for fn.Parent() != nil {
		fn = fn.Parent()
	}
	return fn
}

// InSet reports whether fn (or its enclosing declared function) is in set.
func InSet(fn *ssa.Function, set map[*ssa.Function]bool) bool {
	if set[fn] {
		return true
	}
	return set[TopFunc(fn)]
}

// Implementers returns the SSA functions implementing interface method m for
// every named (non-interface) type declared in the repository.
func (p *Prog) Implementers(m *types.Func) []*ssa.Function {
	recv := m.Type().(*types.Signature).Recv()
	if recv == nil {
		return nil
	}
	iface, ok := recv.Type().Underlying().(*types.Interface)
	if !ok {
		return nil
	}
	var out []*ssa.Function
	for _, pk := range p.Pkgs {
		scope := pk.Types.Scope()
		for _, name := range scope.Names() {
			tn, ok := scope.Lookup(name).(*types.TypeName)
			if !ok || tn.IsAlias() {
				continue
			}
			t := tn.Type()
			if _, isI := t.Underlying().(*types.Interface); isI {
				continue
			}
			if nt, ok := t.(*types.Named); ok && nt.TypeParams().Len() > 0 {
				continue
			}
			for _, rt := range []types.Type{t, types.NewPointer(t)} {
				if !types.Implements(rt, iface) {
					continue
				}
				sel := p.SSA.MethodSets.MethodSet(rt).Lookup(m.Pkg(), m.Name())
				if sel == nil {
					continue
				}
				if f := p.SSA.MethodValue(sel); f != nil {
					if f.Synthetic != "" {
						if mo, ok := sel.Obj().(*types.Func); ok {
							if d := p.SSA.FuncValue(mo); d != nil {
								f = d
							}
						}
					}
					out = append(out, f)
				}
				break
			}
		}
	}
	return out
}

// AlwaysNilError reports whether the call can only return a nil error: its
// static callee, or every repository implementation of the invoked interface
// method (at least one, none in test-support packages excluded), returns the
// constant nil on every path.
func (p *Prog) AlwaysNilError(c *ssa.CallCommon) bool {
	var fns []*ssa.Function
	if c.IsInvoke() {
		fns = p.Implementers(c.Method)
	} else if f := c.StaticCallee(); f != nil {
		fns = []*ssa.Function{f}
	}
	if len(fns) == 0 {
		return false
	}
	for _, f := range fns {
		if f.Blocks == nil {
			return false
		}
		ei := ErrIndex(f)
		if ei < 0 {
			return false
		}
		ok := true
		Instrs(f, func(in ssa.Instruction) {
			if r, isR := in.(*ssa.Return); isR {
				if ei >= len(r.Results) || !IsNilConst(r.Results[ei]) {
					ok = false
				}
			}
		})
		if !ok {
			return false
		}
	}
	return true
}

// InfeasibleErrorEdges returns the non-nil edges of error tests in fn whose
// tested value comes from a call that can only return nil (AlwaysNilError).
func (p *Prog) InfeasibleErrorEdges(fn *ssa.Function) map[Edge]bool {
	g := GErrNil("always-nil", func(c *ssa.CallCommon) bool { return p.AlwaysNilError(c) })
	pass, sites := g.PassEdges(fn)
	out := map[Edge]bool{}
	for _, s := range sites {
		for si := range s.Block().Succs {
			e := Edge{From: s.Block(), Succ: si}
			if !pass[e] {
				out[e] = true
			}
		}
	}
	return out
}
