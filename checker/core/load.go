// Package core holds the loader and the shared analysis engines used by the
// property rule packs.
package core

import (
	"encoding/json"
	"fmt"
	"go/ast"
	"go/token"
	"go/types"
	"os"
	"path/filepath"
	"sort"
	"strings"
	"time"

	"golang.org/x/tools/go/packages"
	"golang.org/x/tools/go/ssa"
	"golang.org/x/tools/go/ssa/ssautil"
)

// ModPath is the module path of the analysed repository.
const ModPath = "github.com/anyproto/any-sync"

// Prog is the loaded, type-checked and SSA-built view of the repository's
// current working tree.
type Prog struct {
	Root      string
	Fset      *token.FileSet
	Pkgs      []*packages.Package          // root (repo) packages, non-test
	ByPath    map[string]*packages.Package // import path -> package (repo + deps with syntax)
	SSA       *ssa.Program
	SSAPkgs   map[string]*ssa.Package
	LoadS     float64
	SSAS      float64
	Tolerated []string               // load errors tolerated (outside anchor packages)
	Renamed   []string               // anchors resolved through the rename fallback
	AllFuncs  map[*ssa.Function]bool // every function with a body in repo packages (incl. anonymous)
	fileOf    map[*ast.File]*packages.Package
}

// Broken is returned (as panic payload or error) when the checker itself cannot
// decide: unresolved anchors, type errors in anchor packages, engine panic.
type Broken struct{ Msg string }

func (b *Broken) Error() string { return b.Msg }

func Brokenf(format string, args ...any) *Broken {
	return &Broken{Msg: fmt.Sprintf(format, args...)}
}

// ExtraDeps are dependency packages whose bodies participate in rules.
var ExtraDeps = []string{
	"github.com/cheggaaa/mb/v3",
	"github.com/anyproto/go-chash",
}

// Overlay, when set, replaces the content of the named files (absolute paths)
// for the analysis: a source variant is analysed without touching the disk.
var Overlay map[string][]byte

// Load loads ./... of root plus ExtraDeps, builds SSA for them.
func Load(root string, extraEnv ...string) (*Prog, error) {
	t0 := time.Now()
	env := []string{}
	for _, e := range os.Environ() {
		k := strings.SplitN(e, "=", 2)[0]
		switch k {
		case "GOFLAGS", "GOPROXY", "GOWORK", "GOTOOLCHAIN", "GOSUMDB", "GOOS", "GOARCH":
			continue
		}
		env = append(env, e)
	}
	env = append(env, "GOFLAGS=-mod=mod", "GOPROXY=off", "GOWORK=off", "GOTOOLCHAIN=go1.25.7")
	env = append(env, extraEnv...)
	mode := packages.LoadAllSyntax
	if os.Getenv("VERIF_LOAD") == "export" {
		mode = packages.LoadSyntax
	}
	cfg := &packages.Config{
		Mode:    mode,
		Dir:     root,
		Env:     env,
		Tests:   false,
		Overlay: Overlay,
	}
	patterns := append([]string{"./..."}, ExtraDeps...)
	pkgs, err := packages.Load(cfg, patterns...)
	if err != nil {
		return nil, Brokenf("packages.Load: %v", err)
	}
	p := &Prog{Root: root, ByPath: map[string]*packages.Package{}, SSAPkgs: map[string]*ssa.Package{}, fileOf: map[*ast.File]*packages.Package{}}
	var initial []*packages.Package
	for _, pk := range pkgs {
		if len(pk.Errors) > 0 {
			for _, e := range pk.Errors {
				p.Tolerated = append(p.Tolerated, pk.PkgPath+": "+e.Error())
			}
		}
		if pk.Types == nil || len(pk.Syntax) == 0 {
			continue
		}
		initial = append(initial, pk)
		if strings.HasPrefix(pk.PkgPath, ModPath) {
			p.Pkgs = append(p.Pkgs, pk)
		}
	}
	packages.Visit(pkgs, nil, func(pk *packages.Package) {
		p.ByPath[pk.PkgPath] = pk
		for _, f := range pk.Syntax {
			p.fileOf[f] = pk
		}
	})
	if len(p.Pkgs) == 0 {
		return nil, Brokenf("no repository packages loaded from %s", root)
	}
	// type errors in repository packages are fatal for the checker: every repo
	// package is potentially an anchor.
	for _, pk := range p.Pkgs {
		if pk.IllTyped || len(pk.Errors) > 0 {
			return nil, Brokenf("package %s does not type-check: %v", pk.PkgPath, pk.Errors)
		}
	}
	if len(pkgs) > 0 {
		p.Fset = pkgs[0].Fset
	}
	p.LoadS = time.Since(t0).Seconds()
	t1 := time.Now()
	prog, spkgs := ssautil.Packages(initial, ssa.InstantiateGenerics)
	for i, sp := range spkgs {
		if sp != nil {
			p.SSAPkgs[initial[i].PkgPath] = sp
		}
	}
	prog.Build()
	p.SSA = prog
	p.AllFuncs = map[*ssa.Function]bool{}
	for fn := range ssautil.AllFunctions(prog) {
		if fn.Blocks == nil || fn.Pkg == nil && fn.Origin() == nil && fn.Parent() == nil {
			continue
		}
		p.AllFuncs[fn] = true
	}
	p.SSAS = time.Since(t1).Seconds()
	sort.Slice(p.Pkgs, func(i, j int) bool { return p.Pkgs[i].PkgPath < p.Pkgs[j].PkgPath })
	return p, nil
}

// Pos renders a position relative to the repository root.
func (p *Prog) Pos(pos token.Pos) string {
	if !pos.IsValid() {
		return "?"
	}
	ps := p.Fset.Position(pos)
	f := strings.TrimPrefix(ps.Filename, p.Root+"/")
	return fmt.Sprintf("%s:%d", f, ps.Line)
}

// PkgOf returns the packages.Package by path suffix relative to the module
// ("" for the root package), or a dependency by its full path.
func (p *Prog) Pkg(rel string) *packages.Package {
	full := rel
	if !strings.Contains(rel, ".") || strings.HasPrefix(rel, "./") {
		rel = strings.TrimPrefix(rel, "./")
		full = ModPath
		if rel != "" {
			full = ModPath + "/" + rel
		}
	}
	pk := p.ByPath[full]
	if pk == nil {
		panic(Brokenf("anchor package %q not loaded", full))
	}
	return pk
}

func (p *Prog) SSAPkg(rel string) *ssa.Package {
	pk := p.Pkg(rel)
	sp := p.SSAPkgs[pk.PkgPath]
	if sp == nil {
		sp = p.SSA.Package(pk.Types)
	}
	if sp == nil {
		panic(Brokenf("no SSA for package %q", rel))
	}
	return sp
}

// Func resolves "pkgrel:Name", "pkgrel:(*T).M", "pkgrel:T.M" or, for closures,
// "pkgrel:(*T).M$1" to an SSA function with a body.
func (p *Prog) Func(spec string) *ssa.Function {
	fn := p.FuncOpt(spec)
	if fn == nil {
		fn = p.renamedFunc(spec)
	}
	if fn == nil {
		panic(Brokenf("anchor function %q does not resolve", spec))
	}
	return fn
}

// ---------------------------------------------------------------------------
// Anchor snapshot: names, signatures and field types of the repository as of
// the tree the rule tables were written against (/verif/anchors.json, written
// by `verifcheck -snapshot-anchors`). It is consulted only when a named anchor
// does not resolve: a function (field) that is NEW since the snapshot, sits on
// the same receiver (struct) and has exactly the snapshot's signature (type)
// is taken to be the renamed anchor when it is the only such candidate. The
// substitution is recorded in the evidence notes.

type anchorSnapshot struct {
	Funcs  map[string]map[string]string `json:"funcs"`  // pkgrel → name spec → signature
	Fields map[string]map[string]string `json:"fields"` // pkgrel:Type → field → type
}

var (
	SnapshotPath = ""
	snapLoaded   bool
	snap         *anchorSnapshot
)

func loadSnapshot() *anchorSnapshot {
	if snapLoaded {
		return snap
	}
	snapLoaded = true
	path := SnapshotPath
	if path == "" {
		if exe, err := os.Executable(); err == nil {
			path = filepath.Join(filepath.Dir(filepath.Dir(exe)), "anchors.json")
		}
	}
	b, err := os.ReadFile(path)
	if err != nil {
		return nil
	}
	s := &anchorSnapshot{}
	if json.Unmarshal(b, s) != nil {
		return nil
	}
	snap = s
	return snap
}

// funcSpecName renders fn the way rule tables name it: F, T.M or (*T).M.
func funcSpecName(fn *ssa.Function) string {
	if fn.Signature.Recv() == nil {
		return fn.Name()
	}
	t := fn.Signature.Recv().Type()
	ptr := false
	if pt, ok := t.(*types.Pointer); ok {
		t, ptr = pt.Elem(), true
	}
	n, ok := t.(*types.Named)
	if !ok {
		return fn.Name()
	}
	if ptr {
		return "(*" + n.Obj().Name() + ")." + fn.Name()
	}
	return n.Obj().Name() + "." + fn.Name()
}

func sigString(fn *ssa.Function) string {
	return types.TypeString(fn.Signature, func(pk *types.Package) string { return pk.Path() })
}

func (p *Prog) relOf(pk *types.Package) string {
	return strings.TrimPrefix(strings.TrimPrefix(pk.Path(), ModPath), "/")
}

// WriteAnchorSnapshot records today's names.
func (p *Prog) WriteAnchorSnapshot(path string) error {
	s := anchorSnapshot{Funcs: map[string]map[string]string{}, Fields: map[string]map[string]string{}}
	for fn := range p.AllFuncs {
		if fn.Parent() != nil || fn.Pkg == nil || !IsRepoFunc(fn) || fn.Synthetic != "" {
			continue
		}
		rel := p.relOf(fn.Pkg.Pkg)
		if s.Funcs[rel] == nil {
			s.Funcs[rel] = map[string]string{}
		}
		s.Funcs[rel][funcSpecName(fn)] = sigString(fn)
	}
	for _, pk := range p.Pkgs {
		rel := p.relOf(pk.Types)
		sc := pk.Types.Scope()
		for _, name := range sc.Names() {
			tn, ok := sc.Lookup(name).(*types.TypeName)
			if !ok {
				continue
			}
			st, ok := tn.Type().Underlying().(*types.Struct)
			if !ok {
				continue
			}
			m := map[string]string{}
			for k := 0; k < st.NumFields(); k++ {
				m[st.Field(k).Name()] = types.TypeString(st.Field(k).Type(), func(pk *types.Package) string { return pk.Path() })
			}
			s.Fields[rel+":"+name] = m
		}
	}
	b, err := json.MarshalIndent(s, "", " ")
	if err != nil {
		return err
	}
	return os.WriteFile(path, b, 0o644)
}

// IsNewSinceSnapshot: fn (a top-level function or method of the repository)
// does not occur in the anchor snapshot.
func (p *Prog) IsNewSinceSnapshot(fn *ssa.Function) bool {
	s := loadSnapshot()
	if s == nil || fn == nil || fn.Parent() != nil || fn.Pkg == nil || fn.Synthetic != "" || !IsRepoFunc(fn) {
		return false
	}
	if o := fn.Origin(); o != nil {
		fn = o
	}
	m, ok := s.Funcs[p.relOf(fn.Pkg.Pkg)]
	if !ok {
		return false // a whole new package: not an extracted block
	}
	_, existed := m[funcSpecName(fn)]
	return !existed
}

func (p *Prog) renamedFunc(spec string) *ssa.Function {
	s := loadSnapshot()
	if s == nil {
		return nil
	}
	i := strings.LastIndex(spec, ":")
	rel, name := spec[:i], spec[i+1:]
	anon := ""
	if j := strings.Index(name, "$"); j >= 0 {
		anon, name = name[j:], name[:j]
	}
	want, ok := s.Funcs[rel][name]
	if !ok {
		return nil
	}
	recvPrefix := ""
	if k := strings.LastIndex(name, "."); k >= 0 {
		recvPrefix = name[:k+1]
	}
	var cands []*ssa.Function
	for fn := range p.AllFuncs {
		if fn.Parent() != nil || fn.Pkg == nil || fn.Synthetic != "" || p.relOf(fn.Pkg.Pkg) != rel {
			continue
		}
		sn := funcSpecName(fn)
		if _, existed := s.Funcs[rel][sn]; existed {
			continue
		}
		if recvPrefix != "" && !strings.HasPrefix(sn, recvPrefix) || recvPrefix == "" && strings.Contains(sn, ".") {
			continue
		}
		if sigString(fn) == want {
			cands = append(cands, fn)
		}
	}
	if len(cands) != 1 {
		return nil
	}
	fn := cands[0]
	p.Renamed = append(p.Renamed, fmt.Sprintf("anchor function %s not found; using %s (new since the anchor snapshot, same receiver and signature)", spec, funcSpecName(fn)))
	if anon != "" {
		for _, a := range fn.AnonFuncs {
			if a.Name() == fn.Name()+anon {
				return a
			}
		}
		return nil
	}
	return fn
}

func (p *Prog) renamedField(typeSpec, field string, st *types.Struct) *types.Var {
	s := loadSnapshot()
	if s == nil {
		return nil
	}
	old, ok := s.Fields[typeSpec]
	if !ok {
		return nil
	}
	want, ok := old[field]
	if !ok {
		return nil
	}
	var cands []*types.Var
	for k := 0; k < st.NumFields(); k++ {
		f := st.Field(k)
		if _, existed := old[f.Name()]; existed {
			continue
		}
		if types.TypeString(f.Type(), func(pk *types.Package) string { return pk.Path() }) == want {
			cands = append(cands, f)
		}
	}
	if len(cands) != 1 {
		return nil
	}
	p.Renamed = append(p.Renamed, fmt.Sprintf("anchor field %s.%s not found; using %s (new since the anchor snapshot, same type)", typeSpec, field, cands[0].Name()))
	return cands[0]
}

func (p *Prog) FuncOpt(spec string) *ssa.Function {
	i := strings.LastIndex(spec, ":")
	if i < 0 {
		panic(Brokenf("bad function spec %q", spec))
	}
	rel, name := spec[:i], spec[i+1:]
	sp := p.SSAPkg(rel)
	anon := ""
	if j := strings.Index(name, "$"); j >= 0 {
		anon = name[j:]
		name = name[:j]
	}
	var fn *ssa.Function
	if strings.HasPrefix(name, "(") || strings.Contains(name, ".") {
		ptr := false
		s := name
		if strings.HasPrefix(s, "(*") {
			ptr = true
			s = strings.TrimPrefix(s, "(*")
			s = strings.Replace(s, ")", "", 1)
		} else if strings.HasPrefix(s, "(") {
			s = strings.TrimPrefix(s, "(")
			s = strings.Replace(s, ")", "", 1)
		}
		parts := strings.SplitN(s, ".", 2)
		if len(parts) != 2 {
			panic(Brokenf("bad method spec %q", spec))
		}
		obj := sp.Pkg.Scope().Lookup(parts[0])
		tn, ok := obj.(*types.TypeName)
		if !ok {
			return nil
		}
		var recv types.Type = tn.Type()
		if ptr {
			recv = types.NewPointer(recv)
		}
		sel := p.SSA.MethodSets.MethodSet(recv).Lookup(sp.Pkg, parts[1])
		if sel == nil {
			// try the other receiver kind
			if !ptr {
				sel = p.SSA.MethodSets.MethodSet(types.NewPointer(recv)).Lookup(sp.Pkg, parts[1])
			}
			if sel == nil {
				return nil
			}
		}
		fn = p.SSA.MethodValue(sel)
		// unwrap synthetic wrappers to the declared method
		if fn != nil && fn.Synthetic != "" {
			if m, ok := sel.Obj().(*types.Func); ok {
				if d := p.SSA.FuncValue(m); d != nil {
					fn = d
				}
			}
		}
	} else {
		fn = sp.Func(name)
	}
	if fn == nil {
		return nil
	}
	if anon != "" {
		for _, a := range fn.AnonFuncs {
			if a.Name() == fn.Name()+anon {
				return a
			}
		}
		return nil
	}
	return fn
}

// Type resolves "pkgrel:Name" to a named type.
func (p *Prog) Type(spec string) *types.Named {
	i := strings.LastIndex(spec, ":")
	pk := p.Pkg(spec[:i])
	obj := pk.Types.Scope().Lookup(spec[i+1:])
	tn, ok := obj.(*types.TypeName)
	if !ok {
		panic(Brokenf("anchor type %q does not resolve", spec))
	}
	n, ok := tn.Type().(*types.Named)
	if !ok {
		if a, ok2 := types.Unalias(tn.Type()).(*types.Named); ok2 {
			return a
		}
		panic(Brokenf("anchor %q is not a named type", spec))
	}
	return n
}

// Field resolves "pkgrel:Type.field" to the field's *types.Var.
func (p *Prog) Field(spec string) *types.Var {
	i := strings.LastIndex(spec, ".")
	n := p.Type(spec[:i])
	st, ok := n.Underlying().(*types.Struct)
	if !ok {
		panic(Brokenf("anchor %q: not a struct", spec))
	}
	for k := 0; k < st.NumFields(); k++ {
		if st.Field(k).Name() == spec[i+1:] {
			return st.Field(k)
		}
	}
	if f := p.renamedField(spec[:i], spec[i+1:], st); f != nil {
		return f
	}
	panic(Brokenf("anchor field %q does not resolve", spec))
}

// Method resolves "pkgrel:Type.Method" for interface or concrete types to the
// *types.Func object (the interface method object for interfaces).
func (p *Prog) Method(spec string) *types.Func {
	i := strings.LastIndex(spec, ".")
	n := p.Type(spec[:i])
	name := spec[i+1:]
	if it, ok := n.Underlying().(*types.Interface); ok {
		for k := 0; k < it.NumMethods(); k++ {
			if it.Method(k).Name() == name {
				return it.Method(k)
			}
		}
		panic(Brokenf("anchor interface method %q does not resolve", spec))
	}
	obj, _, _ := types.LookupFieldOrMethod(types.NewPointer(n), true, n.Obj().Pkg(), name)
	f, ok := obj.(*types.Func)
	if !ok {
		panic(Brokenf("anchor method %q does not resolve", spec))
	}
	return f
}

// PkgFunc resolves a package-level function object "pkgrel:Name" (also for
// dependencies given by full import path, e.g. "bytes:Equal").
func (p *Prog) PkgFunc(spec string) *types.Func {
	i := strings.LastIndex(spec, ":")
	path, name := spec[:i], spec[i+1:]
	var tp *types.Package
	if pk, ok := p.ByPath[path]; ok {
		tp = pk.Types
	} else if pk, ok := p.ByPath[ModPath+"/"+path]; ok {
		tp = pk.Types
	}
	if tp == nil {
		panic(Brokenf("anchor package %q not loaded", path))
	}
	f, ok := tp.Scope().Lookup(name).(*types.Func)
	if !ok {
		panic(Brokenf("anchor function %q does not resolve", spec))
	}
	return f
}

// IsRepoFunc reports whether fn belongs to the analysed module (not a dependency).
func IsRepoFunc(fn *ssa.Function) bool {
	for fn.Parent() != nil {
		fn = fn.Parent()
	}
	if o := fn.Origin(); o != nil {
		fn = o
	}
	return fn.Pkg != nil && strings.HasPrefix(fn.Pkg.Pkg.Path(), ModPath)
}

// FuncsOfPkg returns all functions with bodies (incl. methods and anonymous
// functions) whose package is the given one.
func (p *Prog) FuncsOfPkg(rel string) []*ssa.Function {
	sp := p.SSAPkg(rel)
	var out []*ssa.Function
	for fn := range p.AllFuncs {
		top := fn
		for top.Parent() != nil {
			top = top.Parent()
		}
		if o := top.Origin(); o != nil {
			top = o
		}
		if top.Pkg == sp {
			out = append(out, fn)
		}
	}
	sort.Slice(out, func(i, j int) bool {
		if out[i].Pos() != out[j].Pos() {
			return out[i].Pos() < out[j].Pos()
		}
		return out[i].String() < out[j].String()
	})
	return out
}

// RepoFuncs returns all functions with bodies in the repository, sorted.
func (p *Prog) RepoFuncs() []*ssa.Function {
	var out []*ssa.Function
	for fn := range p.AllFuncs {
		if IsRepoFunc(fn) {
			out = append(out, fn)
		}
	}
	sort.Slice(out, func(i, j int) bool {
		if out[i].Pos() != out[j].Pos() {
			return out[i].Pos() < out[j].Pos()
		}
		return out[i].String() < out[j].String()
	})
	return out
}

// IsGenerated reports whether fn is declared in a generated protobuf file.
func (p *Prog) IsGenerated(fn *ssa.Function) bool {
	pos := fn.Pos()
	if !pos.IsValid() {
		return false
	}
	name := p.Fset.Position(pos).Filename
	return strings.HasSuffix(name, ".pb.go") || strings.HasSuffix(name, "_drpc.pb.go") || strings.Contains(name, "/mock_") || strings.HasSuffix(name, "_mock.go")
}
