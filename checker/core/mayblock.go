package core

import (
	"go/token"
	"go/types"
	"strings"

	"golang.org/x/tools/go/ssa"
)

// BlockSite is an instruction that may block the calling goroutine.
type BlockSite struct {
	Fn    *ssa.Function
	Instr ssa.Instruction
	What  string
}

// blockingCall names library calls that may block indefinitely.
func blockingCall(c *ssa.CallCommon) (string, bool) {
	o := CalleeObj(c)
	if o == nil || o.Pkg() == nil {
		return "", false
	}
	pk, n := o.Pkg().Path(), o.Name()
	recv := ""
	if r := o.Type().(*types.Signature).Recv(); r != nil {
		recv = r.Type().String()
	}
	switch {
	case strings.HasSuffix(pk, "cheggaaa/mb/v3") && (n == "Add" || n == "Wait" || n == "WaitOne" || n == "WaitMinMax" || n == "WaitMin" || n == "WaitMax" || n == "WaitCond" || n == "NewCond"):
		return "mb." + n, true
	case pk == "storj.io/drpc" && (n == "MsgSend" || n == "MsgRecv" || n == "Close" || n == "CloseSend" || n == "Invoke" || n == "NewStream"):
		return "drpc." + n, true
	case pk == "sync" && n == "Wait":
		return "sync." + recv + ".Wait", true
	case pk == "time" && n == "Sleep":
		return "time.Sleep", true
	case pk == "net" && (n == "Read" || n == "Write" || n == "Accept" || n == "Dial"):
		return "net." + n, true
	case pk == "io" && (n == "ReadFull" || n == "Copy" || n == "ReadAll"):
		return "io." + n, true
	case strings.HasSuffix(pk, "net/peer") && (n == "DoDrpc" || n == "AcquireDrpcConn"):
		return "peer." + n, true
	case strings.HasSuffix(pk, "streampool/streamhandler") && n == "OpenStream":
		return "StreamHandler.OpenStream", true
	case strings.HasSuffix(pk, "net/pool") && (n == "Get" || n == "GetOneOf" || n == "Dial" || n == "DialOneOf"):
		return "pool." + n, true
	}
	return "", false
}

// MayBlock finds the blocking operations reachable synchronously from roots:
// static callees (in followed packages) and closures that are called directly
// are followed; `go` statements and closures merely passed as arguments are
// asynchronous cuts. extra lets a pack add its own blocking calls (e.g. user
// callbacks held in struct fields).
func MayBlock(roots []*ssa.Function, follow func(*ssa.Function) bool, extra func(fn *ssa.Function, in ssa.Instruction) (string, bool)) (sites []BlockSite, visited []*ssa.Function) {
	seen := map[*ssa.Function]bool{}
	var visit func(fn *ssa.Function)
	visit = func(fn *ssa.Function) {
		if fn == nil || seen[fn] || fn.Blocks == nil {
			return
		}
		if follow != nil && !follow(fn) {
			return
		}
		seen[fn] = true
		visited = append(visited, fn)
		Instrs(fn, func(in ssa.Instruction) {
			if extra != nil {
				if w, ok := extra(fn, in); ok {
					sites = append(sites, BlockSite{fn, in, w})
					return
				}
			}
			switch x := in.(type) {
			case *ssa.Select:
				if x.Blocking {
					sites = append(sites, BlockSite{fn, in, "blocking select"})
				}
			case *ssa.Send:
				sites = append(sites, BlockSite{fn, in, "channel send"})
			case *ssa.UnOp:
				if x.Op == token.ARROW {
					sites = append(sites, BlockSite{fn, in, "channel receive"})
				}
			case *ssa.Call:
				if w, ok := blockingCall(&x.Call); ok {
					sites = append(sites, BlockSite{fn, in, w})
					return
				}
				if f := CalleeFunc(&x.Call); f != nil {
					visit(f)
				} else if mc, ok := x.Call.Value.(*ssa.MakeClosure); ok {
					visit(mc.Fn.(*ssa.Function))
				}
			case *ssa.Defer:
				if w, ok := blockingCall(&x.Call); ok {
					sites = append(sites, BlockSite{fn, in, w + " (deferred)"})
					return
				}
				if f := CalleeFunc(&x.Call); f != nil {
					visit(f)
				} else if mc, ok := x.Call.Value.(*ssa.MakeClosure); ok {
					visit(mc.Fn.(*ssa.Function))
				}
			}
		})
	}
	for _, r := range roots {
		visit(r)
	}
	return
}

// BlockingCall exposes the blocking-call table.
func BlockingCall(c *ssa.CallCommon) (string, bool) { return blockingCall(c) }
