package main

import (
	"fmt"
	"os"
	"strings"

	"verif/checker/core"
)

// dumpFuncs prints the SSA of the given function specs (debug aid).
func dumpFuncs(root string, specs string) {
	p, err := core.Load(root)
	if err != nil {
		fmt.Fprintln(os.Stderr, err)
		os.Exit(2)
	}
	fmt.Fprintf(os.Stderr, "load %.1fs ssa %.1fs pkgs %d funcs %d tolerated %d\n", p.LoadS, p.SSAS, len(p.Pkgs), len(p.AllFuncs), len(p.Tolerated))
	for _, s := range strings.Split(specs, ",") {
		fn := p.Func(s)
		fn.WriteTo(os.Stdout)
		for _, a := range fn.AnonFuncs {
			a.WriteTo(os.Stdout)
		}
	}
}
