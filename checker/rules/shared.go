package rules

import (
	"fmt"

	. "verif/checker/core"
)

// runShared runs another property's rule pack on a sub-context (to reuse its
// obligations under this property's rule ids). If that pack cannot run on the
// current tree — one of ITS anchors does not resolve — the shared obligations
// are not decided for this property (noted in the evidence) instead of taking
// this property's own check down with it.
func runShared(c *Ctx, from string, f func()) (ok bool) {
	defer func() {
		if r := recover(); r != nil {
			msg := fmt.Sprint(r)
			if b, isB := r.(*Broken); isB {
				msg = b.Msg
			}
			c.Note("obligations shared from %s not decided: %s", from, msg)
			ok = false
		}
	}()
	f()
	return true
}
