package rules

import (
	"fmt"
	"strings"

	. "verif/checker/core"
)

// runShared runs another property's rule pack on a sub-context (to reuse its
// obligations under this property's rule ids). If that pack cannot run on the
// current tree — one of ITS anchors does not resolve — the shared obligations
// are not decided for this property (noted in the evidence) instead of taking
// this property's own check down with it.
func runShared(c *Ctx, from string, f func()) (ok bool) {
	defer func() {
		if r := recover(); r != nil {
			msg := fmt.Sprint(r)
			if b, isB := r.(*Broken); isB {
				msg = b.Msg
			}
			c.Note("obligations shared from %s not decided: %s", from, msg)
			ok = false
		}
	}()
	f()
	return true
}

// importShared evaluates pack `from` on a sub-context and re-states those of its
// obligations whose rule id is `rule` and whose key contains `keyPart` under this
// property's rule id `as` (same code, same constructs, same verdicts). Used where a
// clause of this property IS the other property's rule on a construct they share.
func importShared(c *Ctx, from string, run func(*Ctx), rule, keyPart, as string, min int) {
	sub := NewCtx(c.P, from, c.Tier)
	if !runShared(c, from, func() { run(sub) }) {
		return
	}
	for _, o := range sub.Obls {
		if o.Rule != rule || !strings.Contains(o.Key, keyPart) {
			continue
		}
		c.Check(o.Held, as, strings.TrimPrefix(o.Key, o.Rule+"|"), o.Pos, o.Detail)
	}
	c.Min(as, min)
}
