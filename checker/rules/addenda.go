package rules

// addenda: clauses added to a pack after its Explanation was written (most of
// them prompted by seeded changes the first version of the pack missed, see
// DESIGN.md 10.4). They are part of what the check decides and are appended to
// coverage.explanation in the evidence.
var addenda = map[string]string{
	"C01": "Added: (5) Tree.makeRootAndRemove is only handed a node of the tree it is called on (looked up in its attached index or its root; a load of ot.tree before a store to ot.tree is a different tree); (6) reduceTree's new-root index is a max-accumulator over the heads (replaced only across `new > current` or by the max builtin); (3b) the objecttree rows of C10's rule M are also obligations here (after an in-memory mutation of the live tree — Tree.Add, a rebuild with the sender's heads — every error exit passes the rollback closure or rebuildFromStorage(nil,nil,nil)); error exits are decided path-sensitively.",
	"C02": "Added: every per-element gate evaluated in loop-aware mode also requires that the loop cannot be left from its body towards an accepting return before the remaining elements were checked (break / early return).",
	"C03": "Added: (7) aclRecordBuilder.isOurIdentity (the identity test of the memory-saving partial decode) answers false only through a failed PubKeyFromProto, a missing own key or Equals — the same semantic test the full decode path applies; loop-aware gates also forbid leaving the per-element loop early.",
	"C04": "Added: (6) pendingRequests and requestRecords, the two indexes of the open-request set, are inserted into / deleted from together on every success path of every AclState method that changes one of them on its own state; loop-aware gates also forbid leaving a per-element validation loop early towards acceptance.",
	"C07": "Added: (5) compareResults returns without comparing or descending only across a test that a RangeResult.Hash is present: two absent hashes (empty range vs. a range that is not in the index) prove nothing (finding F18, repaired); the dirty-mark rule follows callees that delete from the dirty set.",
	"C08": "Added: (6) removeElement compares every range it decrements with compareThreshold inside the descent loop, so that the highest divided range that falls to the threshold is collapsed (finding F19, repaired); the collapse may delete the sub-ranges through a helper that deletes every genTupleRanges child unconditionally and descends into divided children.",
	"C09": "Added: (5) in the batch-building callback batch.Heads is updated only after the change was appended to the batch or for an entry the requester already has (entry.removed); the snapshot-path-cache obligations of C01.4 are also obligations here (the common snapshot is computed from the current path).",
	"C11": "R-alloc bound criterion: the message-derived value must be on the SMALL side of a dominating comparison at the point where it enters the allocation size (per phi edge); a comparison whose large side leads to the allocation is not a bound.",
	"C14": "Added: (4b) the byte slice stored into handshake.Result.Identity is not a field of an object taken from a sync.Pool nor of the pooled *Credentials parameter.",
	"C15": "Added: (4b) stateBuilder.processChange replaces the derived state by a snapshot's content (NewStateFromSnapshot) only across change.Id == rootId; every other record is merged.",
	"C17": "Added: (6) patternTrie.remove deletes a trie node only across node.refs == 0: an interior node that still terminates a subscribed pattern survives the withdrawal of a longer pattern.",
	"C18": "Added: every value returned by the service wrappers NodeIds / IsResponsible / Partition is the result of the delegated nodeConf query (no verdict of their own).",
	"C19": "Added: in writeLoop the failing edge of stream.MsgSend leads only to streamClose (no further WaitOne, no return without it).",
	"C20": "Added: every component returned by App.Component / GetComponent is an element read from a components slice during the lookup walk (no cached answers).",
}

// Addendum returns the clauses added to pack id after its Explanation was written.
func Addendum(id string) string {
	if a, ok := addenda[id]; ok {
		return " " + a
	}
	return ""
}
