package rules

import (
	"fmt"
	"go/token"
	"go/types"
	"sort"
	"strings"

	"golang.org/x/tools/go/ssa"

	. "verif/checker/core"
)

func init() {
	register(&Pack{
		ID: "C05",
		Explanation: "Structural necessary conditions of the read-key clauses, for every history at once: (1) no plaintext by accident — in changeBuilder.Build the ChangesData of a change is the result of payload.ReadKey.Encrypt unless the Unencrypted==true edge was crossed, and a nil ReadKey ends in an error; " +
			"objectTree.prepareBuilderContent sets Unencrypted to !ShouldBeEncrypted, takes the key only from ot.currentReadKey loaded after an unconditional refresh (readKeysFromAclState) from the same ACL state whose CurrentReadKeyId names the key, and fails on a nil key; readers decrypt with ot.keys[change.ReadKeyId]; " +
			"(2) key material leaves the record builder only wrapped — every Marshall()/Raw() of a SymKey or PrivKey in aclRecordBuilder is consumed only as the argument of an Encrypt call; the previous key is wrapped under the NEW key (never the reverse); each recipient entry pairs Identity and ciphertext of the same public key; " +
			"(3) rotation recipients — the loops that pick recipients in buildReadKeyChange and the expected sets in validateReadKeyChange skip an account/invite only for the frozen reasons (removed in this record, NoPermissions, not an open invite, revoked in this batch) and a rotation is accepted only across slices.Equal on both the account and the invite sets; ValidateAccountRemove passes the set built from the removed identities; " +
			"(4) admission paths — the writers of accountStates are the frozen set; the three admitting ones unpack the whole key chain under the st.pubKey.Equals(<admitted identity>) guard and propagate its error; unpackAllKeys walks readKeyChanges from last to first and fails on a missing link; applyReadKeyChange registers the key generation (readKeyChanges and keys under the same record id) on every success path; " +
			"(5) per-tree derivation — objectTree.keys / currentReadKey are written only by readKeysFromAclState, from KeyDeriver.DeriveKey / deriveTreeKey keyed by the tree id.",
		NotDecided: "The cryptographic clauses themselves (every member can derive every generation; a removed account cannot derive a later one): these are values of decryptions over histories. The checks above are necessary conditions visible in code shape; they do not bound what a colluding member re-shares, nor the contents of keys built by callers (e.g. that a rotation payload holds a fresh key).",
		Run:        runC05,
	})
}

// usesValue: v's computation (operands, transitively, through loads of local
// cells, calls' arguments, tuples, range iterators) involves a value
// satisfying pred. Bounded backward slice inside one function.
func usesValue(v ssa.Value, pred func(ssa.Value) bool) bool {
	seen := map[ssa.Value]bool{}
	var walk func(v ssa.Value, d int) bool
	walk = func(v ssa.Value, d int) bool {
		if v == nil || seen[v] || d > 40 {
			return false
		}
		seen[v] = true
		if pred(v) {
			return true
		}
		if u, ok := v.(*ssa.UnOp); ok && u.Op == token.MUL {
			vals, _ := Origins(u)
			for _, o := range vals {
				if o != v && walk(o, d+1) {
					return true
				}
			}
		}
		if al, ok := v.(*ssa.Alloc); ok {
			// contents stored into a local aggregate (varargs arrays, literals)
			for _, r := range *al.Referrers() {
				switch x := r.(type) {
				case *ssa.Store:
					if x.Addr == al && walk(x.Val, d+1) {
						return true
					}
				case *ssa.IndexAddr, *ssa.FieldAddr:
					for _, r2 := range *x.(ssa.Value).Referrers() {
						if st, ok := r2.(*ssa.Store); ok && st.Addr == x.(ssa.Value) && walk(st.Val, d+1) {
							return true
						}
					}
				}
			}
			return false
		}
		if rvs := newHelperReturns(v); len(rvs) > 0 {
			for _, rv := range rvs {
				if walk(rv, d+1) {
					return true
				}
			}
			if ex, isEx := v.(*ssa.Extract); isEx {
				// one result of a multi-result helper: its arguments, not its other results
				for _, a := range ex.Tuple.(*ssa.Call).Call.Args {
					if walk(a, d+1) {
						return true
					}
				}
				return false
			}
		}
		in, ok := v.(ssa.Instruction)
		if !ok {
			return false
		}
		for _, op := range in.Operands(nil) {
			if op != nil && *op != nil && walk(*op, d+1) {
				return true
			}
		}
		return false
	}
	return walk(v, 0)
}

func isFieldLoadPred(field *types.Var) func(ssa.Value) bool {
	return func(v ssa.Value) bool {
		f, _ := LoadedField(v)
		return f == field
	}
}

// skipEdge is a way an iteration of a recipient loop ends without adding the
// recipient: a back edge to the header that does not come from the block
// performing the append.
type skipEdge struct {
	desc string
	pos  token.Pos
}

// describeOperand renders a value in terms stable under refactoring: fields,
// parameters, calls by callee name, constants.
func describeOperand(v ssa.Value) string {
	switch x := v.(type) {
	case *ssa.Const:
		if x.Value == nil {
			return "nil"
		}
		return x.Value.ExactString()
	case *ssa.Parameter:
		if sub, ok := c05ParamSubst[x]; ok && sub != nil {
			if _, again := sub.(*ssa.Parameter); again || true {
				delete(c05ParamSubst, x) // guard against cycles
				s := describeOperand(sub)
				c05ParamSubst[x] = sub
				return s
			}
		}
		return x.Name()
	case *ssa.Call:
		o := CalleeObj(&x.Call)
		if o == nil {
			return "call"
		}
		recv := ""
		if x.Call.IsInvoke() {
			recv = describeOperand(x.Call.Value) + "."
		} else if o.Type().(*types.Signature).Recv() != nil && len(x.Call.Args) > 0 {
			recv = describeOperand(x.Call.Args[0]) + "."
		}
		return recv + o.Name() + "()"
	case *ssa.Extract:
		if l, ok := x.Tuple.(*ssa.Lookup); ok && x.Index == 1 {
			return "key∈" + describeOperand(l.X)
		}
		return describeOperand(x.Tuple) + fmt.Sprintf("#%d", x.Index)
	case *ssa.Field:
		return FieldOf(x).Name()
	}
	vals, unk := Origins(v)
	if !unk && len(vals) == 1 && vals[0] != v {
		return describeOperand(vals[0])
	}
	if f, _ := LoadedField(v); f != nil {
		return f.Name()
	}
	return "?"
}

// skipConditions returns, for the loop that contains appendCall, the
// normalised conditions under which an iteration skips the append.
func skipConditions(fn *ssa.Function, appendCall *ssa.Call) (out []skipEdge, ok bool) {
	l := InnermostLoop(Loops(fn), appendCall)
	if l == nil {
		return nil, false
	}
	ab := appendCall.Block()
	for _, latch := range l.Latches {
		if latch == ab || ab.Dominates(latch) {
			continue
		}
		// strip trivial jump-only blocks
		b := latch
		for len(b.Instrs) == 1 && len(b.Preds) == 1 {
			if _, isJump := b.Instrs[0].(*ssa.Jump); !isJump {
				break
			}
			b = b.Preds[0]
		}
		iff, isIf := b.Instrs[len(b.Instrs)-1].(*ssa.If)
		if !isIf {
			out = append(out, skipEdge{"unconditional skip", InstrPos(b.Instrs[len(b.Instrs)-1])})
			continue
		}
		// which successor leads to the header
		succ := -1
		for i, s := range b.Succs {
			x := s
			for x != l.Header && len(x.Instrs) == 1 && len(x.Succs) == 1 {
				x = x.Succs[0]
			}
			if x == l.Header {
				succ = i
			}
		}
		a := AtomOf(iff)
		truth := succ == a.TrueSucc()
		var d string
		switch a.Op {
		case token.ILLEGAL:
			d = describeOperand(a.X)
			if !truth {
				d = "!" + d
			}
		default:
			op := a.Op
			if !truth {
				switch op {
				case token.EQL:
					op = token.NEQ
				case token.NEQ:
					op = token.EQL
				case token.LSS:
					op = token.GEQ
				case token.GEQ:
					op = token.LSS
				case token.GTR:
					op = token.LEQ
				case token.LEQ:
					op = token.GTR
				}
			}
			d = describeOperand(a.X) + " " + op.String() + " " + describeOperand(a.Y)
		}
		out = append(out, skipEdge{d, iff.Pos()})
	}
	// the header's own exit and error returns are not skips; a success return
	// from inside the loop body is reported by the caller
	return out, true
}

// appendInto finds the append calls in fn whose result feeds (through phis) the value v.
func appendsFeeding(v ssa.Value) []*ssa.Call {
	seen := map[ssa.Value]bool{}
	var out []*ssa.Call
	var walk func(x ssa.Value)
	walk = func(x ssa.Value) {
		if x == nil || seen[x] {
			return
		}
		seen[x] = true
		switch y := x.(type) {
		case *ssa.Phi:
			for _, e := range y.Edges {
				walk(e)
			}
		case *ssa.Call:
			if b, ok := y.Call.Value.(*ssa.Builtin); ok && b.Name() == "append" {
				out = append(out, y)
				walk(y.Call.Args[0])
			}
		case *ssa.UnOp:
			vals, _ := Origins(y)
			for _, o := range vals {
				if o != x {
					walk(o)
				}
			}
		}
		if _, isCall := x.(*ssa.Call); isCall && len(out) > 0 && out[len(out)-1] == x {
			return
		}
		for _, rv := range newHelperReturns(x) {
			walk(rv)
		}
	}
	walk(v)
	return out
}

// checkSkips compares the skip conditions of the loop feeding v with the
// allowed / required tables.
func checkSkips(c *Ctx, rule string, fn *ssa.Function, what string, v ssa.Value, allowed map[string]string, required []string) {
	p := c.P
	construct := FuncName(fn) + "|" + what
	// the list may be produced by a helper the loop was extracted into: analyse the loop
	// there, describing the helper's parameters by the arguments of the call
	c05ParamSubst = map[*ssa.Parameter]ssa.Value{}
	defer func() { c05ParamSubst = nil }()
	for depth := 0; depth < 2; depth++ {
		vals, unk := OriginsNoExpand(v)
		if unk || len(vals) != 1 {
			break
		}
		call, idx, isCall := CallResult(vals[0])
		if !isCall {
			break
		}
		h := CalleeFunc(&call.Call)
		if h == nil || h.Blocks == nil || !IsRepoFunc(h) {
			break
		}
		var rv ssa.Value
		ambiguous := false
		for _, ri := range Returns(h) {
			ret := ri.(*ssa.Return)
			if ret.Block() == h.Recover || idx >= len(ret.Results) {
				continue
			}
			x := ret.Results[idx]
			if IsNilConst(x) {
				continue
			}
			if rv != nil && rv != x {
				ambiguous = true
			}
			rv = x
		}
		if rv == nil || ambiguous {
			break
		}
		for i, pm := range h.Params {
			if i < len(call.Call.Args) {
				c05ParamSubst[pm] = call.Call.Args[i]
			}
		}
		c.Fn(FuncName(h))
		fn, v = h, rv
	}
	apps := appendsFeeding(v)
	var inLoop []*ssa.Call
	loops := Loops(fn)
	for _, a := range apps {
		if InnermostLoop(loops, a) != nil {
			inLoop = append(inLoop, a)
		}
	}
	if len(inLoop) != 1 {
		c.Violate(rule, construct, p.Pos(fn.Pos()), fmt.Sprintf("expected exactly one append inside a loop feeding the %s, found %d (rule table out of date)", what, len(inLoop)))
		return
	}
	skips, ok := skipConditions(fn, inLoop[0])
	if !ok {
		c.Violate(rule, construct, p.Pos(fn.Pos()), "the recipient loop was not recognised")
		return
	}
	// no success return from inside the loop
	l := InnermostLoop(loops, inLoop[0])
	for _, ret := range SuccessReturns(fn) {
		if l.Blocks[ret.Block()] {
			c.Violate(rule, construct+"|early accept", p.Pos(InstrPos(ret)), "a nil-error return inside the recipient loop ends the enumeration early")
			return
		}
	}
	found := map[string]bool{}
	bad := ""
	var descs []string
	for _, s := range skips {
		if al, ok := c05SkipAliases[s.desc]; ok {
			s.desc = al
		}
		descs = append(descs, s.desc)
		found[s.desc] = true
		if _, ok := allowed[s.desc]; !ok {
			bad = fmt.Sprintf("an iteration skips the recipient when `%s` (%s); only these exclusions are part of the property: %s", s.desc, p.Pos(s.pos), keysOf(allowed))
		}
	}
	for _, r := range required {
		if !found[r] {
			bad = fmt.Sprintf("the exclusion `%s` (%s) is no longer applied (exclusions found: %s)", r, allowed[r], strings.Join(descs, "; "))
		}
	}
	sort.Strings(descs)
	c.Check(bad == "", rule, construct, p.Pos(inLoop[0].Pos()), orDefault(bad, "recipients are skipped exactly when: "+strings.Join(descs, "; ")))
}

// c05ParamSubst: while a recipient loop is analysed inside a helper, the helper's
// parameters are described by the caller's arguments.
var c05ParamSubst map[*ssa.Parameter]ssa.Value

// c05SkipAliases: equivalent spellings of an allowed exclusion.
var c05SkipAliases = map[string]string{
	"Permissions == 0": "Permissions.NoPermissions()", // AclPermissionsNone
}

func keysOf(m map[string]string) string {
	var ks []string
	for k := range m {
		ks = append(ks, "`"+k+"`")
	}
	sort.Strings(ks)
	return strings.Join(ks, ", ")
}

// failLeadsToError: from the fail edges of gate g no success return is reachable.
func failLeadsToError(c *Ctx, rule string, fn *ssa.Function, g Gate, what string) {
	construct := FuncName(fn) + "|" + what + " fails the call"
	fail := g.FailEdges(fn)
	if len(fail) == 0 {
		c.Violate(rule, construct, c.P.Pos(fn.Pos()), "'"+g.Name+"' is not tested")
		return
	}
	var starts []*ssa.BasicBlock
	for e := range fail {
		starts = append(starts, e.From.Succs[e.Succ])
	}
	r := Reach(fn, ReachOpts{Starts: starts})
	bad := ""
	for _, ret := range SuccessReturns(fn) {
		if r.Reachable(ret) {
			bad = "when '" + g.Name + "' fails a nil-error return is reachable at " + c.P.Pos(InstrPos(ret))
		}
	}
	c.Check(bad == "", rule, construct, c.P.Pos(fn.Pos()), orDefault(bad, "the failing edge of '"+g.Name+"' reaches only error returns"))
}

func runC05(c *Ctx) {
	p := c.P
	// C05.0 (shared with C10 rule M, ACL row): the key state an account derives (AclState: read keys,
	// current read-key id) is published by AddRawRecord only after the record is durable, or is
	// realigned on the error exit — otherwise the owner encrypts under a key no log contains.
	importShared(c, "C10", runC10, "C10.M-realign-on-error", "acl/list.aclList)", "C05.0-key-state-follows-log", 1)
	encrypt := calleeMethod("util/crypto", "Encrypt")

	// ================================================= C05.1 no plaintext by accident
	{
		build := p.Func(otPkg + ":(*changeBuilder).Build")
		c.Fn(FuncName(build))
		changesData := p.Field(tcProto + ":TreeChange.ChangesData")
		fUnenc := p.Field(otPkg + ":BuilderContent.Unencrypted")
		fReadKey := p.Field(otPkg + ":BuilderContent.ReadKey")
		gUnenc := GCmp("payload.Unencrypted==true", func(a Atom) (bool, bool) {
			if a.Op != token.ILLEGAL || !IsLoadOfField(a.X, fUnenc) {
				return false, false
			}
			return true, true
		})
		encWithReadKey := func(cc *ssa.CallCommon) bool {
			return encrypt(cc) && cc.IsInvoke() && IsLoadOfField(cc.Value, fReadKey)
		}
		gEncOK := GErrNil("ReadKey.Encrypt()==nil", encWithReadKey)
		ws := FieldWrites([]*ssa.Function{build}, changesData)
		if len(ws) == 0 {
			c.Violate("C05.1-no-plaintext", FuncName(build)+"|ChangesData writes", p.Pos(build.Pos()), "no write of TreeChange.ChangesData found in Build (rule table out of date)")
		}
		for i, w := range ws {
			construct := fmt.Sprintf("%s|ChangesData write #%d", FuncName(build), i+1)
			if valueIsResultOf(w.Val, encWithReadKey) {
				c.RequireGate("C05.1-no-plaintext", build, gEncOK, []ssa.Instruction{w.Instr}, fmt.Sprintf("ChangesData write #%d (ciphertext)", i+1))
				continue
			}
			pass, sites := gUnenc.PassEdges(build)
			if len(sites) == 0 {
				c.Violate("C05.1-no-plaintext", construct, p.Pos(InstrPos(w.Instr)), "ChangesData is written with a value that is not the result of payload.ReadKey.Encrypt and Build does not branch on payload.Unencrypted")
				continue
			}
			r := Reach(build, ReachOpts{Removed: pass})
			c.Check(!r.Reachable(w.Instr), "C05.1-no-plaintext", construct, p.Pos(InstrPos(w.Instr)),
				orDefault(map[bool]string{true: "a value that is not the result of payload.ReadKey.Encrypt reaches ChangesData without crossing payload.Unencrypted==true (witness " + r.Path(p, w.Instr) + ")"}[r.Reachable(w.Instr)],
					"the unencrypted write is reachable only across payload.Unencrypted==true"))
		}
		// a nil key fails
		gKey := GNil("payload.ReadKey!=nil", fieldLoad(fReadKey), false)
		encCalls := CallSinks(build, encWithReadKey, true)
		if len(encCalls) == 0 {
			c.Violate("C05.1-missing-key-fails", FuncName(build)+"|Encrypt call", p.Pos(build.Pos()), "Build does not call payload.ReadKey.Encrypt")
		} else {
			c.RequireGate("C05.1-missing-key-fails", build, gKey, encCalls, "payload.ReadKey.Encrypt")
			failLeadsToError(c, "C05.1-missing-key-fails", build, gKey, "a nil ReadKey")
		}
		// the encrypted payload is payload.Content
		fContent := p.Field(otPkg + ":BuilderContent.Content")
		for _, ec := range encCalls {
			call := ec.(*ssa.Call)
			c.Check(len(call.Call.Args) == 1 && IsLoadOfField(call.Call.Args[0], fContent), "C05.1-no-plaintext", FuncName(build)+"|Encrypt argument", p.Pos(call.Pos()), "the plaintext handed to Encrypt is payload.Content")
		}
	}

	// ================================================= C05.1b prepareBuilderContent
	ot := p.Type(otPkg + ":objectTree")
	_ = ot
	refresh := p.Func(otPkg + ":(*objectTree).readKeysFromAclState")
	fCur := p.Field(otPkg + ":objectTree.currentReadKey")
	fKeys := p.Field(otPkg + ":objectTree.keys")
	{
		fn := p.Func(otPkg + ":(*objectTree).prepareBuilderContent")
		c.Fn(FuncName(fn))
		rule := "C05.1-builder-content"
		fUnenc := p.Field(otPkg + ":BuilderContent.Unencrypted")
		fReadKey := p.Field(otPkg + ":BuilderContent.ReadKey")
		fReadKeyId := p.Field(otPkg + ":BuilderContent.ReadKeyId")
		fShould := p.Field(otPkg + ":SignableChangeContent.ShouldBeEncrypted")
		curKeyId := p.Func(aclList + ":(*AclState).CurrentReadKeyId")

		// Unencrypted = !content.ShouldBeEncrypted
		for _, w := range FieldWrites([]*ssa.Function{fn}, fUnenc) {
			ok := false
			if u, isU := w.Val.(*ssa.UnOp); isU && u.Op == token.NOT && IsLoadOfField(u.X, fShould) {
				ok = true
			}
			// equivalent spelling: "the key handed to the builder is nil" (the key is nil only on the
			// unencrypted branch, by the source and nil-gate obligations below)
			if b, isB := w.Val.(*ssa.BinOp); isB && b.Op == token.EQL {
				for _, kw := range FieldWrites([]*ssa.Function{fn}, fReadKey) {
					if (b.X == kw.Val && IsNilConst(b.Y)) || (b.Y == kw.Val && IsNilConst(b.X)) {
						ok = true
					}
				}
			}
			c.Check(ok, rule, FuncName(fn)+"|Unencrypted = !ShouldBeEncrypted", p.Pos(InstrPos(w.Instr)), orDefault(map[bool]string{false: "BuilderContent.Unencrypted is not the negation of content.ShouldBeEncrypted: content asked to be encrypted can be built as plaintext"}[ok], "Unencrypted is exactly !content.ShouldBeEncrypted"))
		}
		refreshCalls := CallSinks(fn, CalleeFn(refresh), false)
		var stateArg ssa.Value
		if len(refreshCalls) == 1 {
			stateArg = refreshCalls[0].(*ssa.Call).Call.Args[1]
		}
		c.Check(len(refreshCalls) == 1, rule, FuncName(fn)+"|refresh call", p.Pos(fn.Pos()), fmt.Sprintf("prepareBuilderContent calls readKeysFromAclState %d time(s)", len(refreshCalls)))
		gRefreshOK := GErrNil("readKeysFromAclState()==nil", CalleeFn(refresh))
		gCurNonNil := GNil("ot.currentReadKey!=nil", fieldLoad(fCur), false)
		// ReadKey value
		for _, w := range FieldWrites([]*ssa.Function{fn}, fReadKey) {
			vals, unk := Origins(w.Val)
			bad := ""
			var loads []ssa.Instruction
			if unk || len(vals) == 0 {
				bad = "the origin of BuilderContent.ReadKey is not recognised"
			}
			for _, o := range vals {
				if IsNilConst(o) || IsZeroMarker(o) {
					continue
				}
				if f, _ := LoadedField(o); f == fCur {
					loads = append(loads, o.(ssa.Instruction))
					continue
				}
				bad = "BuilderContent.ReadKey can be a value other than ot.currentReadKey (" + describeOperand(o) + ")"
			}
			if bad == "" && len(loads) == 0 {
				bad = "BuilderContent.ReadKey is never ot.currentReadKey"
			}
			if bad != "" {
				c.Violate(rule, FuncName(fn)+"|ReadKey source", p.Pos(InstrPos(w.Instr)), bad)
				continue
			}
			c.Hold(rule, FuncName(fn)+"|ReadKey source", p.Pos(InstrPos(w.Instr)), "ReadKey is nil (unencrypted branch) or ot.currentReadKey")
			// every path to the load passes the refresh
			by, r := MustPass(fn, nil, CutAtCall(CalleeFn(refresh)), loads, nil)
			det := "every path to the use of ot.currentReadKey passes readKeysFromAclState(state): the key is refreshed from the ACL state before every encrypted write"
			if len(by) > 0 {
				det = "ot.currentReadKey is used at " + p.Pos(InstrPos(by[0])) + " on a path that does not refresh it from the ACL state (witness " + r.Path(p, by[0]) + "): after a rotation the change names the new key id but is encrypted under the cached previous key"
			}
			c.Check(len(by) == 0, rule, FuncName(fn)+"|key refreshed before use", p.Pos(InstrPos(w.Instr)), det)
			c.RequireGate(rule, fn, gRefreshOK, loads, "use of ot.currentReadKey")
			c.RequireGate(rule, fn, gCurNonNil, loads, "use of ot.currentReadKey")
		}
		failLeadsToError(c, rule, fn, gCurNonNil, "a missing current key")
		// ReadKeyId value
		for _, w := range FieldWrites([]*ssa.Function{fn}, fReadKeyId) {
			vals, unk := Origins(w.Val)
			bad := ""
			if unk || len(vals) == 0 {
				bad = "the origin of BuilderContent.ReadKeyId is not recognised"
			}
			n := 0
			for _, o := range vals {
				if k, ok := o.(*ssa.Const); ok && k.Value != nil && k.Value.ExactString() == `""` {
					continue
				}
				call, ok := o.(*ssa.Call)
				if !ok || !CalleeFn(curKeyId)(&call.Call) {
					bad = "BuilderContent.ReadKeyId can be " + describeOperand(o) + ", not state.CurrentReadKeyId()"
					continue
				}
				n++
				if stateArg != nil && call.Call.Args[0] != stateArg {
					bad = "the key id is read from a different ACL state than the one the key was refreshed from"
				}
			}
			if bad == "" && n == 0 {
				bad = "BuilderContent.ReadKeyId is never state.CurrentReadKeyId()"
			}
			c.Check(bad == "", rule, FuncName(fn)+"|ReadKeyId source", p.Pos(InstrPos(w.Instr)), orDefault(bad, "ReadKeyId is \"\" (unencrypted) or CurrentReadKeyId() of the state the key was refreshed from"))
		}
		c.Min(rule, 8)
	}

	// ================================================= C05.1c readers decrypt with the key the change names
	{
		rule := "C05.1-decrypt-by-named-key"
		fChRK := p.Field(otPkg + ":Change.ReadKeyId")
		n := 0
		for _, fn := range p.FuncsOfPkg(otPkg) {
			for _, ci := range CallsIn(fn) {
				cc := ci.Common()
				o := CalleeObj(cc)
				if o == nil || (o.Name() != "Decrypt" && o.Name() != "DecryptReuse") || o.Pkg() == nil || !strings.HasSuffix(o.Pkg().Path(), "util/crypto") {
					continue
				}
				n++
				c.Fn(FuncName(fn))
				var recv ssa.Value
				if cc.IsInvoke() {
					recv = cc.Value
				} else if len(cc.Args) > 0 {
					recv = cc.Args[0]
				}
				ok := false
				detail := "the decryption key is not looked up in ot.keys by the change's ReadKeyId"
				vals, unk := Origins(recv)
				if !unk && len(vals) > 0 {
					ok = true
					for _, v := range vals {
						ex, isEx := v.(*ssa.Extract)
						var lk *ssa.Lookup
						if isEx {
							lk, _ = ex.Tuple.(*ssa.Lookup)
						} else {
							lk, _ = v.(*ssa.Lookup)
						}
						if lk == nil || !IsLoadOfField(lk.X, fKeys) || !IsLoadOfField(lk.Index, fChRK) {
							ok = false
						}
					}
				}
				c.Check(ok, rule, FuncName(fn)+"|"+o.Name()+" receiver", p.Pos(ci.Pos()), orDefault(map[bool]string{false: detail}[ok], "content is decrypted with ot.keys[change.ReadKeyId]"))
			}
		}
		c.Min(rule, 2)
		_ = n
	}

	// ================================================= C05.5 per-tree derivation
	{
		rule := "C05.5-per-tree-derivation"
		otFns := p.FuncsOfPkg(otPkg)
		derive := p.Func(otPkg + ":deriveTreeKey")
		fId := p.Field(otPkg + ":objectTree.id")
		usesTreeId := func(v ssa.Value) bool { return usesValue(v, isFieldLoadPred(fId)) }
		isDerived := func(v ssa.Value) (bool, string) {
			vals, unk := Origins(v)
			if unk || len(vals) == 0 {
				return false, "origin not recognised"
			}
			for _, o := range vals {
				if ex, ok := o.(*ssa.Extract); ok {
					if lk, ok := ex.Tuple.(*ssa.Lookup); ok && IsLoadOfField(lk.X, fKeys) {
						continue // a key already in ot.keys
					}
				}
				call, _, ok := CallResult(o)
				if !ok {
					return false, "value " + describeOperand(o) + " is not the result of a key derivation"
				}
				co := CalleeObj(&call.Call)
				switch {
				case CalleeFn(derive)(&call.Call):
					if !usesTreeId(call.Call.Args[1]) {
						return false, "deriveTreeKey is not keyed by ot.id"
					}
				case co != nil && co.Name() == "DeriveKey" && co.Pkg() != nil && strings.HasSuffix(co.Pkg().Path(), "util/crypto"):
					var recv ssa.Value
					if call.Call.IsInvoke() {
						recv = call.Call.Value
					} else {
						recv = call.Call.Args[0]
					}
					if !usesTreeId(recv) {
						return false, "the KeyDeriver is not built from a path containing ot.id"
					}
				default:
					return false, "value comes from " + describeOperand(o) + ", not from a per-tree key derivation"
				}
			}
			return true, ""
		}
		for _, f := range []*types.Var{fKeys, fCur} {
			ws := FieldWrites(otFns, f)
			nw := 0
			for _, w := range ws {
				if w.Kind == "init" {
					continue
				}
				if w.Kind == "store" && f == fKeys {
					// installing the (empty) map at construction
					if _, isMake := w.Val.(*ssa.MakeMap); isMake {
						continue
					}
				}
				nw++
				c.Fn(FuncName(w.Fn))
				construct := fmt.Sprintf("%s|write of objectTree.%s", FuncName(w.Fn), f.Name())
				if effectiveOwner(p, w.Fn) != refresh { // (a part of it split off into a new function still counts)
					c.Violate(rule, construct, p.Pos(InstrPos(w.Instr)), "objectTree."+f.Name()+" is written outside readKeysFromAclState")
					continue
				}
				ok, why := isDerived(w.Val)
				c.Check(ok, rule, construct, p.Pos(InstrPos(w.Instr)), orDefault(why, "the stored key is derived per tree (ot.id) from an ACL read key"))
			}
			if nw == 0 {
				c.Violate(rule, "objectTree."+f.Name()+"|writers", p.Pos(refresh.Pos()), "no writer found (rule table out of date)")
			}
		}
		// the current key is the entry of the current key id of the same state
		curKeyId := p.Func(aclList + ":(*AclState).CurrentReadKeyId")
		for _, w := range FieldWrites(regionFuncs(refresh), fCur) {
			vals, _ := Origins(w.Val)
			for _, o := range vals {
				ex, ok := o.(*ssa.Extract)
				if !ok {
					continue
				}
				lk, ok := ex.Tuple.(*ssa.Lookup)
				if !ok {
					continue
				}
				good := valueIsResultOf(lk.Index, CalleeFn(curKeyId))
				c.Check(good, rule, FuncName(refresh)+"|current key is keys[CurrentReadKeyId()]", p.Pos(InstrPos(w.Instr)), orDefault(map[bool]string{false: "ot.currentReadKey is taken from ot.keys under an index that is not state.CurrentReadKeyId()"}[good], "ot.currentReadKey = ot.keys[state.CurrentReadKeyId()]"))
			}
		}
		c.Min(rule, 3)
	}

	runC05Acl(c, encrypt)
}
