package rules

import (
	"go/token"
	"strings"

	"golang.org/x/tools/go/ssa"

	. "verif/checker/core"
)

const kvInner = "commonspace/object/keyvalue/keyvaluestorage/innerstorage"
const kvStor = "commonspace/object/keyvalue/keyvaluestorage"
const ssProto = "commonspace/spacesyncproto"

func init() {
	register(&Pack{
		ID: "C12",
		Explanation: "Key-value store, decided on SSA: (1) dual signature verification — KeyValueFromProto(verify=true) returns a value only across identity.Verify(proto.Value, proto.IdentitySignature)==true AND peer.Verify(proto.Value, proto.PeerSignature)==true, the keys being decoded from the signed inner bytes and the stored bytes being exactly proto.Value; SetRaw decodes with the constant true; innerstorage.Set is reachable only from storage.Set/SetRaw; " +
			"(2) slot binding and write permission (sibling agreement local/remote path) — the slot a remote value is filed under is compared with Key+\"-\"+PeerId from the signed bytes, and a remote value is kept only across PermissionsAtRecord(AclId, identity)==nil and CanWrite()==true, as the local path requires CanWrite; " +
			"(3) last-writer-wins gates — UpsertOne is reachable only for an absent row or across the false edge of stored.t >= value.TimestampMicro; SetRaw keeps a value only for an absent index entry or a strictly newer timestamp; an invalid element is skipped, never aborts the batch; " +
			"(4) index undo — the deferred closure of innerstorage.Set restores prior elements in REVERSE order one by one and removes the added ids, and is registered before the index is touched.",
		NotDecided: "Order/grouping independence of the final contents and one-exchange equality of two stores (value level; follows from the LWW gate only for distinct timestamps); the >= vs > choice of the LWW comparison.",
		Run:        runC12,
	})
}

func runC12(c *Ctx) {
	p := c.P
	kvfp := p.Func(kvInner + ":KeyValueFromProto")
	skvValue := p.Field(ssProto + ":StoreKeyValue.Value")
	skvIdSig := p.Field(ssProto + ":StoreKeyValue.IdentitySignature")
	skvPeerSig := p.Field(ssProto + ":StoreKeyValue.PeerSignature")
	skvKeyPeer := p.Field(ssProto + ":StoreKeyValue.KeyPeerId")
	innerIdentity := p.Field(ssProto + ":StoreKeyInner.Identity")
	innerPeer := p.Field(ssProto + ":StoreKeyInner.Peer")
	unmarshalKey := p.PkgFunc("util/crypto:UnmarshalEd25519PublicKeyProto")

	// ---- C12.1 dual signature verification
	verifyParam := kvfp.Params[1]
	verifyOn := GCmp("verify parameter", func(a Atom) (bool, bool) {
		if a.Op != token.ILLEGAL || a.X != ssa.Value(verifyParam) {
			return false, false
		}
		return true, true
	})
	base := verifyOn.FailEdges(kvfp)
	sinks := SuccessReturns(kvfp)
	verifyWith := func(name string, sigField, keyField interface{ Name() string }, sf, kf func(ssa.Value) bool) Gate {
		m := func(cc *ssa.CallCommon) bool {
			if !cryptoVerify(cc) {
				return false
			}
			a := callArgs(cc)
			if len(a) != 2 || !IsLoadOfField(a[0], skvValue) || !sf(a[1]) {
				return false
			}
			// receiver: key decoded from the signed inner bytes
			recv := cc.Value
			if !cc.IsInvoke() {
				recv = cc.Args[0]
			}
			return valueIsResultOf(recv, func(c2 *ssa.CallCommon) bool {
				return CalleeIs(unmarshalKey)(c2) && kf(c2.Args[0])
			})
		}
		return GBool(name, m, 0, true)
	}
	gId := verifyWith("innerIdentity.Verify(proto.Value, proto.IdentitySignature)==true", skvIdSig, innerIdentity,
		func(v ssa.Value) bool { return IsLoadOfField(v, skvIdSig) }, func(v ssa.Value) bool { return IsLoadOfField(v, innerIdentity) })
	gPeer := verifyWith("innerPeer.Verify(proto.Value, proto.PeerSignature)==true", skvPeerSig, innerPeer,
		func(v ssa.Value) bool { return IsLoadOfField(v, skvPeerSig) }, func(v ssa.Value) bool { return IsLoadOfField(v, innerPeer) })
	c.RequireAnyGate("C12.1-dual-signature", kvfp, []Gate{gId}, nil, sinks, "non-error return (verify=true)", base, false)
	c.RequireAnyGate("C12.1-dual-signature", kvfp, []Gate{gPeer}, nil, sinks, "non-error return (verify=true)", base, false)
	// the stored bytes are the signed bytes
	okStored := false
	for _, w := range FieldWrites([]*ssa.Function{kvfp}, p.Field(kvInner+":Value.Value")) {
		if IsLoadOfField(w.Val, skvValue) {
			okStored = true
		} else {
			okStored = false
			break
		}
	}
	c.Check(okStored, "C12.1-dual-signature", FuncName(kvfp)+"|stored bytes == signed bytes", p.Pos(kvfp.Pos()), "KeyValue.Value.Value is exactly proto.Value, the bytes both signatures cover")
	// the inner message is decoded from the same bytes
	for _, cs := range CallsIn(kvfp) {
		if o := CalleeObj(cs.Common()); o != nil && o.Name() == "UnmarshalVT" {
			c.Check(IsLoadOfField(cs.Common().Args[1], skvValue), "C12.1-dual-signature", FuncName(kvfp)+"|inner decoded from signed bytes", p.Pos(InstrPos(cs)), "StoreKeyInner is decoded from proto.Value")
		}
	}
	setRaw := p.Func(kvStor + ":(*storage).SetRaw")
	setLocal := p.Func(kvStor + ":(*storage).Set")
	for _, cs := range Callers(prodFuncs(p), CalleeFn(kvfp)) {
		args := cs.Instr.(ssa.CallInstruction).Common().Args
		b, isC := BoolConst(args[1])
		c.Check(isC && b, "C12.1-dual-signature", FuncName(cs.Fn)+"|KeyValueFromProto(verify)", p.Pos(InstrPos(cs.Instr)), "received values are decoded with verify=true (constant)")
	}
	innerSet := p.Method(kvInner + ":KeyValueStorage.Set")
	whoMayCall(c, "C12.1-inner-set-callers", prodFuncs(p), CalleeIs(innerSet), "innerstorage.KeyValueStorage.Set", map[*ssa.Function]string{setRaw: "verified remote values", setLocal: "locally signed value"})
	c.Min("C12.1-inner-set-callers", 2)

	// ---- C12.2 slot binding and write permission (sibling agreement)
	{
		slot := GCmp("KeyPeerId == Key+\"-\"+PeerId (signed)", func(a Atom) (bool, bool) {
			if a.Op != token.EQL && a.Op != token.NEQ {
				return false, false
			}
			isSlot := func(v ssa.Value) bool {
				return IsLoadOfField(v, skvKeyPeer) || IsLoadOfField(v, p.Field(kvInner+":KeyValue.KeyPeerId"))
			}
			isConcat := func(v ssa.Value) bool {
				bo, ok := v.(*ssa.BinOp)
				return ok && bo.Op == token.ADD
			}
			if (isSlot(a.X) && isConcat(a.Y)) || (isSlot(a.Y) && isConcat(a.X)) {
				return true, a.Op == token.EQL
			}
			return false, false
		})
		c.RequireAnyGate("C12.2-slot-binding", kvfp, []Gate{slot}, nil, sinks, "non-error return (verify=true)", base, false)
		// local path builds the slot from key + "-" + peer id
		okLocal := false
		for _, w := range FieldWrites([]*ssa.Function{setLocal}, p.Field(kvInner+":KeyValue.KeyPeerId")) {
			vals, _ := Origins(w.Val)
			for _, v := range vals {
				if bo, ok := v.(*ssa.BinOp); ok && bo.Op == token.ADD {
					okLocal = true
				}
			}
		}
		c.Check(okLocal, "C12.2-slot-binding", FuncName(setLocal)+"|slot = key-peerId", p.Pos(setLocal.Pos()), "the local path files its value under key + \"-\" + own peer id")

		// write permission: local path
		canWrite := boolCallGate("Permissions(identity).CanWrite()==true", "acl/list", "CanWrite", 0, true, nil)
		c.RequireGate("C12.2-write-permission", setLocal, canWrite, CallSinksX(setLocal, CalleeIs(innerSet), false), "inner.Set")
		// remote path: an element is kept only across PermissionsAtRecord==nil and CanWrite==true
		par := CalleeNamed("acl/list", "AclState", "PermissionsAtRecord")
		for _, g := range []Gate{GErrNil("PermissionsAtRecord(AclId, identity)==nil", par), canWrite} {
			keptOnlyAcross(c, "C12.2-write-permission", setRaw, g, p)
		}
	}

	// ---- C12.3 LWW gates, skip-not-abort
	{
		uv := p.Func(kvInner + ":(*storage).updateValues")
		upsert := func(cc *ssa.CallCommon) bool { return isAnystoreMethod(CalleeObj(cc), "UpsertOne") }
		notFound := GBool("errors.Is(err, ErrDocNotFound)==true", CalleeIs(p.PkgFunc("errors:Is")), 0, true)
		older := GCmp("stored.t >= value.TimestampMicro is false", func(a Atom) (bool, bool) {
			tm := p.Field(kvInner + ":KeyValue.TimestampMicro")
			switch a.Op {
			case token.GEQ:
				if IsLoadOfField(a.Y, tm) {
					return true, false
				}
			case token.LSS:
				if IsLoadOfField(a.Y, tm) {
					return true, true
				}
			case token.LEQ:
				if IsLoadOfField(a.X, tm) {
					return true, false
				}
			case token.GTR:
				if IsLoadOfField(a.X, tm) {
					return true, true
				}
			}
			return false, false
		})
		// every upsert inside the per-value loop: reaching it requires (found ∧ newer) ∨ not found
		ups := CallSinks(uv, upsert, false)
		c.RequireAnyGate("C12.3-lww-gate", uv, []Gate{older, notFound}, nil, ups, "UpsertOne", nil, false)
		// SetRaw: kept only for absent index entry or newer timestamp
		elemErr := GCmp("index has no entry (Element err != nil)", func(a Atom) (bool, bool) {
			if a.Op != token.EQL && a.Op != token.NEQ {
				return false, false
			}
			var x ssa.Value
			if IsNilConst(a.Y) {
				x = a.X
			} else if IsNilConst(a.X) {
				x = a.Y
			} else {
				return false, false
			}
			if !valueIsResultOf(x, calleeMethod("app/ldiff", "Element")) {
				return false, false
			}
			return true, a.Op == token.NEQ
		})
		headCmp := GCmp("indexed head >= incoming timestamp is false", func(a Atom) (bool, bool) {
			hd := p.Field("app/ldiff:Element.Head")
			if a.Op == token.GEQ && IsLoadOfField(a.X, hd) {
				return true, false
			}
			if a.Op == token.LSS && IsLoadOfField(a.X, hd) {
				return true, true
			}
			return false, false
		})
		keptOnlyAcrossAny(c, "C12.3-lww-gate", setRaw, []Gate{headCmp, elemErr}, p)
		// skip, not abort
		g := GErrNil("KeyValueFromProto()==nil", CalleeFn(kvfp))
		fail := g.FailEdges(setRaw)
		bad := ""
		if len(fail) == 0 {
			bad = "the error of KeyValueFromProto is not tested"
		} else {
			var starts []*ssa.BasicBlock
			for e := range fail {
				starts = append(starts, e.From.Succs[e.Succ])
			}
			hdrs := map[*ssa.BasicBlock]bool{}
			for _, l := range Loops(setRaw) {
				hdrs[l.Header] = true
			}
			r := Reach(setRaw, ReachOpts{Starts: starts, Cut: func(in ssa.Instruction) bool { return hdrs[in.Block()] }})
			for _, ret := range Returns(setRaw) {
				if r.Reachable(ret) {
					bad = "an invalid element makes SetRaw return at " + p.Pos(InstrPos(ret)) + ": one bad value blocks its whole batch"
				}
			}
			// and the invalid element is not appended
			for _, cs := range CallsIn(setRaw) {
				if call, ok := cs.(*ssa.Call); ok {
					if b, isB := call.Call.Value.(*ssa.Builtin); isB && b.Name() == "append" && r.Reachable(call) {
						bad = "an element that failed verification is still appended to the batch"
					}
				}
			}
		}
		c.Check(bad == "", "C12.3-skip-not-abort", FuncName(setRaw)+"|invalid element skipped", p.Pos(setRaw.Pos()), orDefault(bad, "a value that fails decode/verification is skipped; the loop continues with the next one"))
	}

	// ---- C12.4 index undo shape
	{
		kvSet := p.Func(kvInner + ":(*storage).Set")
		mDiffSet := p.Method("app/ldiff:Diff.Set")
		mDiffRem := p.Method("app/ldiff:Diff.RemoveId")
		var undo *ssa.Function
		for _, a := range kvSet.AnonFuncs {
			if ContainsCall(a, CalleeIs(mDiffRem)) && ContainsCall(a, CalleeIs(mDiffSet)) {
				undo = a
			}
		}
		if undo == nil {
			c.Violate("C12.4-index-undo", FuncName(kvSet)+"|undo closure", p.Pos(kvSet.Pos()), "no deferred closure restores the index (Diff.Set of prior + Diff.RemoveId of added)")
		} else {
			c.Fn(FuncName(undo))
			// the two loops may have been moved into a helper of their own
			shape, _ := descendTo(undo, CalleeIs(mDiffSet))
			loops := Loops(shape)
			okRev := false
			for _, cs := range CallSinks(shape, CalleeIs(mDiffSet), false) {
				l := InnermostLoop(loops, cs)
				if l == nil {
					continue
				}
				if init, down := l.CountsDownToZero(); down {
					if bo, ok := init.(*ssa.BinOp); ok && bo.Op == token.SUB {
						if k, isK := IntConst(bo.Y); isK && k == 1 {
							okRev = true
						}
					}
				}
			}
			c.Check(okRev, "C12.4-index-undo", FuncName(undo)+"|prior restored in reverse", p.Pos(undo.Pos()), "prior elements are re-set one by one from the last to the first, so a slot overwritten twice in one call ends at its genuine pre-call head")
			okRem := false
			shapeRem, _ := descendTo(undo, CalleeIs(mDiffRem))
			if shapeRem != shape {
				loops = Loops(shapeRem)
			}
			for _, cs := range CallSinks(shapeRem, CalleeIs(mDiffRem), false) {
				if InnermostLoop(loops, cs) != nil {
					okRem = true
				}
			}
			c.Check(okRem, "C12.4-index-undo", FuncName(undo)+"|added ids removed", p.Pos(undo.Pos()), "every id inserted by the failed call is removed from the index")
			// undo runs only when the tx did not commit: gated by err != nil
			g := GCmp("captured err != nil", func(a Atom) (bool, bool) {
				if a.Op != token.EQL && a.Op != token.NEQ {
					return false, false
				}
				var x ssa.Value
				if IsNilConst(a.Y) {
					x = a.X
				} else if IsNilConst(a.X) {
					x = a.Y
				}
				if x == nil || !IsErrorType(x.Type()) {
					return false, false
				}
				return true, a.Op == token.NEQ
			})
			c.RequireGate("C12.4-index-undo", undo, g, CallSinksX(undo, CalleeIs(mDiffSet, mDiffRem), false), "index undo")
		}
	}
	_ = strings.Contains
	runC12Exchange(c)
}

// keptOnlyAcross: in the per-element loop of SetRaw that computes the read key
// (the loop holding ReadKeyForAclId), the next iteration is reachable only
// across g's pass edge or through a discard (store of "" into KeyPeerId).
func keptOnlyAcross(c *Ctx, rule string, fn *ssa.Function, g Gate, p *Prog) {
	keptOnlyAcrossAny(c, rule, fn, []Gate{g}, p)
}

func keptOnlyAcrossAny(c *Ctx, rule string, fn *ssa.Function, gs []Gate, p *Prog) {
	kp := p.Field(kvInner + ":KeyValue.KeyPeerId")
	rk := calleeMethod("acl/list", "ReadKeyForAclId")
	var names []string
	for _, g := range gs {
		names = append(names, g.Name)
	}
	construct := FuncName(fn) + "|element kept only across " + strings.Join(names, " ∨ ")
	var loop *Loop
	loops := Loops(fn)
	for _, cs := range CallSinksX(fn, rk, false) { // (or the call of the per-element helper holding it)
		loop = InnermostLoop(loops, cs)
	}
	if loop == nil {
		c.Violate(rule, construct, p.Pos(fn.Pos()), "per-element loop (ReadKeyForAclId) not found in SetRaw")
		return
	}
	removed := map[Edge]bool{}
	// the disjunction as a whole may be enforced by a per-element helper
	orIn := 0
	if len(gs) > 1 {
		pe, sites := OrGate(gs).PassEdges(fn)
		for _, s := range sites {
			if loop.Blocks[s.Block()] {
				orIn++
			}
		}
		if orIn > 0 {
			for e := range pe {
				removed[e] = true
			}
		}
	}
	for _, g := range gs {
		pe, sites := g.PassEdges(fn)
		inLoop := orIn
		for _, s := range sites {
			if loop.Blocks[s.Block()] {
				inLoop++
			}
		}
		if inLoop == 0 {
			c.Violate(rule, construct, p.Pos(fn.Pos()), "the per-element loop of SetRaw never tests '"+g.Name+"': a received value is kept without this check (the local path has it)")
			return
		}
		for e := range pe {
			removed[e] = true
		}
	}
	isDiscard := func(in ssa.Instruction) bool {
		st, ok := in.(*ssa.Store)
		if !ok {
			return false
		}
		fa, ok := st.Addr.(*ssa.FieldAddr)
		if !ok || FieldOf(fa) != kp {
			return false
		}
		k, ok := st.Val.(*ssa.Const)
		return ok && k.Value != nil && k.Value.ExactString() == `""`
	}
	var starts []*ssa.BasicBlock
	for _, s := range loop.Header.Succs {
		if loop.Blocks[s] {
			starts = append(starts, s)
		}
	}
	// the other spelling of the filter: accepted elements are appended to the kept slice and a
	// rejected one is simply skipped (no blanking of KeyPeerId anywhere in the loop) — then
	// "kept" is the append, which must lie behind the pass edge
	hasDiscard := false
	var keeps []ssa.Instruction
	for b := range loop.Blocks {
		for _, in := range b.Instrs {
			if isDiscard(in) {
				hasDiscard = true
			}
			if call, ok := in.(*ssa.Call); ok {
				if bi, isB := call.Call.Value.(*ssa.Builtin); isB && bi.Name() == "append" {
					keeps = append(keeps, in)
				}
			}
		}
	}
	if !hasDiscard && len(keeps) > 0 {
		r := Reach(fn, ReachOpts{Starts: starts, Removed: removed})
		for _, k := range keeps {
			if r.Reachable(k) {
				c.Violate(rule, construct, p.Pos(InstrPos(k)), "an element is appended to the kept values without crossing the pass edge of "+strings.Join(names, " ∨ ")+"; witness "+r.Path(p, k))
				return
			}
		}
		c.Hold(rule, construct, p.Pos(fn.Pos()), "every element appended to the kept values crossed the pass edge of "+strings.Join(names, " ∨ "))
		return
	}
	r := Reach(fn, ReachOpts{Starts: starts, Removed: removed, Cut: isDiscard})
	hdr := loop.Header.Instrs[0]
	if r.Reachable(hdr) {
		c.Violate(rule, construct, p.Pos(InstrPos(hdr)), "an element survives the loop (neither discarded nor across the pass edge of "+strings.Join(names, " ∨ ")+"); witness "+r.Path(p, hdr))
		return
	}
	c.Hold(rule, construct, p.Pos(fn.Pos()), "every element that is not discarded crossed the pass edge of "+strings.Join(names, " ∨ "))
}
