package rules

import (
	"fmt"
	"go/token"
	"go/types"

	"golang.org/x/tools/go/ssa"

	. "verif/checker/core"
)

func init() {
	register(&Pack{
		ID: "C16",
		Explanation: "Object cache (app/ocache) decided on SSA with a lockset analysis: (1) lock discipline — oCache.mu/entry.mx are released on every exit, oCache.data and entry.value are touched only with oCache.mu held, entry.state/close/cancel only with entry.mx held, and no blocking operation (Object.Close/TryClose, loadFunc, waitLoad/waitClose/setClosing/remove*, channel receive) is made while either lock may be held (DoLockedIfNotExists' action is the documented exception); " +
			"(2) single flight — after any unlock in Get the placeholder store is unreachable without repeating the lookup, and every insert into oCache.data is gated by a lookup miss of that map; " +
			"(3) closing typestate — Object.TryClose is called only across the 'won' edges of setClosing (prev state neither closing nor closed), Object.Close only across curState==closing; after either call every path to an exit or to the next such call passes closeAndDelete or setActive(true); the close channel is closed only in setActive/setClosed; " +
			"(4) map deletions only in load's error path and closeAndDelete; closeAndDelete is reachable only after value.Close() returned or TryClose reported closed; " +
			"(5) entry.value is read only after the load channel was received from / waitLoad succeeded / load ran in the same goroutine (or for identity comparison under the lock); " +
			"(6) shutdown — Get/Remove/RemoveSame/TryRemove/GC/DoLockedIfNotExists touch the map only across closed==false, Close sets closed under the lock and hands every entry to removeCtx.",
		NotDecided: "Linearizability claims (a lookup that starts after a removal completed never returns the removed instance) and liveness under arbitrary interleavings beyond the pairing, gating and lock rules; behaviour of the cached objects' own Close/TryClose.",
		Run:        runC16,
	})
}

func runC16(c *Ctx) {
	p := c.P
	oc := "app/ocache"
	fns := p.FuncsOfPkg(oc)
	muF := p.Field(oc + ":oCache.mu")
	mxF := p.Field(oc + ":entry.mx")
	dataF := p.Field(oc + ":oCache.data")
	closedF := p.Field(oc + ":oCache.closed")
	valueF := p.Field(oc + ":entry.value")
	stateF := p.Field(oc + ":entry.state")
	closeChF := p.Field(oc + ":entry.close")
	cancelF := p.Field(oc + ":entry.cancel")
	loadChF := p.Field(oc + ":entry.load")
	loadFuncF := p.Field(oc + ":oCache.loadFunc")
	mu, mx := LockKey{Obj: muF}, LockKey{Obj: mxF}
	mClose := p.Method(oc + ":Object.Close")
	mTryClose := p.Method(oc + ":Object.TryClose")
	f := func(n string) *ssa.Function { return p.Func(oc + ":" + n) }
	get, pick, load, remove, removeCtx := f("(*oCache).Get"), f("(*oCache).Pick"), f("(*oCache).load"), f("(*oCache).Remove"), f("(*oCache).removeCtx")
	removeSame, tryRemove, doLocked, add, forEach, gc, closeFn := f("(*oCache).RemoveSame"), f("(*oCache).TryRemove"), f("(*oCache).DoLockedIfNotExists"), f("(*oCache).Add"), f("(*oCache).ForEach"), f("(*oCache).GC"), f("(*oCache).Close")
	closeAndDelete := f("(*oCache).closeAndDelete")
	waitLoad, waitClose, setClosing, setActive, setClosed := f("(*entry).waitLoad"), f("(*entry).waitClose"), f("(*entry).setClosing"), f("(*entry).setActive"), f("(*entry).setClosed")
	newEntry := f("newEntry")
	_, _ = remove, add

	la := NewLockAnalysis()
	for _, fn := range fns {
		la.Analyze(fn)
		c.Fn(FuncName(fn))
	}

	// ---- C16.1a every acquire released on every exit
	for _, fn := range fns {
		s := la.Summary(fn)
		uses := false
		for _, cs := range CallsIn(fn) {
			if o := CalleeObj(cs.Common()); o != nil && o.Pkg() != nil && o.Pkg().Path() == "sync" && (o.Name() == "Lock" || o.Name() == "RLock") {
				uses = true
			}
		}
		if !uses {
			continue
		}
		ok := len(s.MayHold) == 0
		c.Check(ok, "C16.1-release-on-all-exits", FuncName(fn), p.Pos(fn.Pos()), orDefault(ifs(!ok, "may return still holding "+KeysString(s.MayHold)), "every Lock is matched by an Unlock (or a deferred one) on every return path"))
	}
	c.Min("C16.1-release-on-all-exits", 15)

	// ---- C16.1b guarded-by
	guard := func(rule string, field *types.Var, key LockKey, exempt map[*ssa.Function]string, writesOnly bool) {
		n := 0
		check := func(fn *ssa.Function, in ssa.Instruction, kind string) {
			if why, ok := exempt[TopFunc(fn)]; ok {
				c.Hold(rule, FuncName(fn)+"|"+field.Name()+"|"+kind, p.Pos(InstrPos(in)), "exempt: "+why)
				n++
				return
			}
			must := la.Must(in)
			ok := must[key]
			c.Check(ok, rule, FuncName(fn)+"|"+field.Name()+"|"+kind, p.Pos(InstrPos(in)), fmt.Sprintf("%s of %s with %s held (must-held set %s)", kind, field.Name(), key, KeysString(must)))
			n++
		}
		for _, w := range FieldWrites(fns, field) {
			if w.Kind == "init" {
				continue
			}
			check(w.Fn, w.Instr, w.Kind)
		}
		if !writesOnly {
			for _, r := range FieldReads(fns, field) {
				check(r.Parent(), r, "read")
			}
		}
	}
	guard("C16.1-guarded-by", dataF, mu, map[*ssa.Function]string{}, false)
	guard("C16.1-guarded-by", closedF, mu, map[*ssa.Function]string{}, false)
	guard("C16.1-guarded-by", valueF, mu, map[*ssa.Function]string{newEntry: "constructor"}, true)
	guard("C16.1-guarded-by", stateF, mx, map[*ssa.Function]string{newEntry: "constructor"}, false)
	guard("C16.1-guarded-by", closeChF, mx, map[*ssa.Function]string{}, false)
	guard("C16.1-guarded-by", cancelF, mx, map[*ssa.Function]string{}, false)
	c.Min("C16.1-guarded-by", 40)

	// ---- C16.1c no blocking under a lock
	blockingFns := fset(waitLoad, waitClose, setClosing, removeCtx, remove, load, closeFn, get, pick, removeSame, tryRemove, gc)
	isBlocking := func(in ssa.Instruction) (string, bool) {
		switch x := in.(type) {
		case *ssa.Call:
			if CalleeIs(mClose, mTryClose)(&x.Call) {
				return "Object." + x.Call.Method.Name(), true
			}
			if cf := CalleeFunc(&x.Call); cf != nil && blockingFns[cf] {
				return cf.Name(), true
			}
			if !x.Call.IsInvoke() && x.Call.StaticCallee() == nil {
				if _, isB := x.Call.Value.(*ssa.Builtin); !isB {
					// dynamic call of a function value (loadFunc, action, callbacks)
					if IsLoadOfField(x.Call.Value, loadFuncF) {
						return "loadFunc", true
					}
					if _, isParam := x.Call.Value.(*ssa.Parameter); isParam {
						return "callback parameter", true
					}
				}
			}
		case *ssa.Select:
			if x.Blocking {
				return "blocking select", true
			}
		case *ssa.UnOp:
			if x.Op == token.ARROW {
				return "channel receive", true
			}
		case *ssa.Send:
			return "channel send", true
		}
		return "", false
	}
	nb := 0
	for _, fn := range fns {
		Instrs(fn, func(in ssa.Instruction) {
			what, ok := isBlocking(in)
			if !ok || !la.Reached(in) {
				return
			}
			may := la.May(in)
			held := may[mu] || may[mx]
			if TopFunc(fn) == doLocked && what == "callback parameter" {
				c.Hold("C16.1-no-blocking-under-lock", FuncName(fn)+"|"+what, p.Pos(InstrPos(in)), "documented exception: DoLockedIfNotExists runs its action under the global lock")
				nb++
				return
			}
			if TopFunc(fn) == forEach && what == "callback parameter" && !held {
				// f(obj) outside the lock
			}
			c.Check(!held, "C16.1-no-blocking-under-lock", FuncName(fn)+"|"+what, p.Pos(InstrPos(in)), fmt.Sprintf("%s with may-held locks %s", what, KeysString(may)))
			nb++
		})
	}
	c.Min("C16.1-no-blocking-under-lock", 15)

	// ---- C16.2 single flight
	isDataLookup := func(in ssa.Instruction) bool {
		l, ok := in.(*ssa.Lookup)
		return ok && IsLoadOfField(l.X, dataF)
	}
	isUnlockMu := func(in ssa.Instruction) bool {
		cc, ok := in.(*ssa.Call)
		if !ok {
			return false
		}
		o := CalleeObj(&cc.Call)
		if o == nil || o.Pkg() == nil || o.Pkg().Path() != "sync" || o.Name() != "Unlock" || len(cc.Call.Args) == 0 {
			return false
		}
		fa, ok := cc.Call.Args[0].(*ssa.FieldAddr)
		return ok && FieldOf(fa) == muF
	}
	{
		var stores []ssa.Instruction
		for _, w := range FieldWrites([]*ssa.Function{get}, dataF) {
			if w.Kind == "mapupdate" {
				stores = append(stores, w.Instr)
			}
		}
		bad := ""
		if len(stores) == 0 {
			bad = "Get no longer stores a loading placeholder into oCache.data"
		}
		Instrs(get, func(in ssa.Instruction) {
			if !isUnlockMu(in) {
				return
			}
			r := Reach(get, ReachOpts{From: in, Cut: isDataLookup})
			for _, st := range stores {
				if r.Reachable(st) {
					bad = "after the Unlock at " + p.Pos(InstrPos(in)) + " the placeholder store at " + p.Pos(InstrPos(st)) + " is reachable without repeating the map lookup (lookup and insert are not one critical section)"
				}
			}
		})
		c.Check(bad == "", "C16.2-single-flight", FuncName(get)+"|lookup+insert-one-critical-section", p.Pos(get.Pos()), orDefault(bad, "the miss test and the placeholder insert are in one critical section of oCache.mu"))
	}
	// every insert into data gated by a miss of the same map
	missGate := GCmp("lookup miss (_, ok := c.data[id]; !ok)", func(a Atom) (bool, bool) {
		if a.Op != token.ILLEGAL {
			return false, false
		}
		vals, unk := Origins(a.X)
		if unk || len(vals) == 0 {
			return false, false
		}
		for _, v := range vals {
			ex, ok := v.(*ssa.Extract)
			if !ok || ex.Index != 1 {
				return false, false
			}
			l, ok := ex.Tuple.(*ssa.Lookup)
			if !ok || !IsLoadOfField(l.X, dataF) {
				return false, false
			}
		}
		return true, false
	})
	for _, fn := range fns {
		var ins []ssa.Instruction
		for _, w := range FieldWrites([]*ssa.Function{fn}, dataF) {
			if w.Kind == "mapupdate" {
				ins = append(ins, w.Instr)
			}
		}
		if len(ins) > 0 {
			c.RequireGate("C16.2-insert-only-on-miss", fn, missGate, ins, "insert into oCache.data")
		}
	}
	c.Min("C16.2-insert-only-on-miss", 2)

	// ---- C16.3 typestate of closing
	stateConst := func(v ssa.Value, name string) bool {
		cst, ok := v.(*ssa.Const)
		if !ok {
			return false
		}
		obj := p.Pkg(oc).Types.Scope().Lookup(name)
		k, ok := obj.(*types.Const)
		if !ok {
			panic(Brokenf("constant %s not found", name))
		}
		return cst.Value != nil && k.Val().ExactString() == cst.Value.ExactString()
	}
	setClosingRes := func(v ssa.Value, idx int) bool {
		vals, unk := Origins(v)
		if unk || len(vals) == 0 {
			return false
		}
		for _, o := range vals {
			call, i, ok := CallResult(o)
			if !ok || !CalleeFn(setClosing)(&call.Call) || i != idx {
				return false
			}
		}
		return true
	}
	notState := func(idx int, name string) Gate {
		return GCmp(fmt.Sprintf("setClosing result#%d != %s", idx, name), func(a Atom) (bool, bool) {
			if a.Op != token.EQL && a.Op != token.NEQ {
				return false, false
			}
			if setClosingRes(a.X, idx) && stateConst(a.Y, name) || setClosingRes(a.Y, idx) && stateConst(a.X, name) {
				return true, a.Op == token.NEQ
			}
			return false, false
		})
	}
	isState := func(idx int, name string) Gate {
		g := notState(idx, name)
		return GCmp(fmt.Sprintf("setClosing result#%d == %s", idx, name), func(a Atom) (bool, bool) {
			m, pwt := g.Match(a)
			return m, !pwt
		})
	}
	owners := 0
	for _, fn := range fns {
		tc := CallSinks(fn, CalleeIs(mTryClose), true)
		if len(tc) > 0 {
			owners++
			c.RequireGate("C16.3-owner-only", fn, notState(0, "entryStateClosing"), tc, "call Object.TryClose")
			c.RequireGate("C16.3-owner-only", fn, notState(0, "entryStateClosed"), tc, "call Object.TryClose")
			requireFollowedByOrRepeat(c, "C16.3-closing-resolved", fn, tc, "Object.TryClose", CalleeFn(closeAndDelete, setActive), "closeAndDelete | setActive(true)")
		}
		cl := CallSinks(fn, CalleeIs(mClose), true)
		if len(cl) > 0 {
			owners++
			c.RequireGate("C16.3-owner-only", fn, isState(1, "entryStateClosing"), cl, "call Object.Close")
			requireFollowedByOrRepeat(c, "C16.3-closing-resolved", fn, cl, "Object.Close", CalleeFn(closeAndDelete), "closeAndDelete")
		}
	}
	c.Min("C16.3-owner-only", 5)
	c.Min("C16.3-closing-resolved", 3)
	// setActive after a won transition must pass chClose=true
	for _, fn := range []*ssa.Function{tryRemove, gc} {
		for _, in := range flattenSinks(CallSinksX(fn, CalleeFn(setActive), false)) {
			args := in.(*ssa.Call).Call.Args
			b, ok := BoolConst(args[len(args)-1])
			c.Check(ok && b, "C16.3-closing-resolved", FuncName(fn)+"|setActive(true)", p.Pos(InstrPos(in)), "reverting a refused TryClose closes the wait channel (setActive(true))")
		}
	}
	// an instance whose TryClose reported closed=true is closed whatever error came with it:
	// it may only go on to closeAndDelete, never back to active (round-5 seed C16-E)
	refused := GBool("Object.TryClose().closed==false", CalleeIs(mTryClose), 0, false)
	for _, fn := range fns {
		if len(CallSinks(fn, CalleeIs(mTryClose), true)) == 0 {
			continue
		}
		if sa := CallSinksX(fn, CalleeFn(setActive), false); len(sa) > 0 {
			c.RequireGate("C16.3-reactivate-only-if-refused", fn, refused, sa, "entry.setActive")
		}
	}
	c.Min("C16.3-reactivate-only-if-refused", 2)
	// close(e.close) only in setActive / setClosed
	for _, fn := range fns {
		Instrs(fn, func(in ssa.Instruction) {
			cc, ok := in.(*ssa.Call)
			if !ok {
				return
			}
			b, ok := cc.Call.Value.(*ssa.Builtin)
			if !ok || b.Name() != "close" || !IsLoadOfField(cc.Call.Args[0], closeChF) {
				return
			}
			ok2 := TopFunc(fn) == setActive || TopFunc(fn) == setClosed
			c.Check(ok2, "C16.3-close-channel-owners", FuncName(fn)+"|close(entry.close)", p.Pos(InstrPos(in)), "the wait channel is closed only by setActive/setClosed")
		})
	}
	c.Min("C16.3-close-channel-owners", 2)
	// who may call setClosed / setActive
	whoMayCall(c, "C16.3-state-writers", fns, CalleeFn(setClosed), "entry.setClosed", map[*ssa.Function]string{closeAndDelete: "finalises under oCache.mu"})
	whoMayCall(c, "C16.3-state-writers", fns, CalleeFn(setActive), "entry.setActive", map[*ssa.Function]string{tryRemove: "refused TryClose", gc: "refused TryClose", load: "load finished"})
	for _, w := range FieldWrites(fns, stateF) {
		if w.Kind == "init" {
			continue
		}
		top := TopFunc(w.Fn)
		ok := top == setClosing || top == setActive || top == setClosed
		c.Check(ok, "C16.3-state-writers", FuncName(w.Fn)+"|entry.state", p.Pos(InstrPos(w.Instr)), "entry.state written only by setClosing/setActive/setClosed")
	}

	// ---- C16.4 deletions
	for _, w := range FieldWrites(fns, dataF) {
		if w.Kind != "mapdelete" {
			continue
		}
		top := TopFunc(w.Fn)
		ok := top == load || top == closeAndDelete
		c.Check(ok, "C16.4-delete-sites", FuncName(w.Fn)+"|delete(oCache.data)", p.Pos(InstrPos(w.Instr)), "map entries are deleted only by load (failed load, never had a value) and closeAndDelete")
		if top == load {
			// only on the error edge: gated by err != nil of the loadFunc result / synthesized error
			Instrs(w.Fn, func(in ssa.Instruction) {})
		}
	}
	c.Min("C16.4-delete-sites", 2)
	for _, fn := range fns {
		cad := CallSinks(fn, CalleeFn(closeAndDelete), true)
		if len(cad) == 0 {
			continue
		}
		if len(CallSinks(fn, CalleeIs(mClose), true)) > 0 {
			by, r := MustPass(fn, nil, CutAtCall(CalleeIs(mClose)), cad, nil)
			det := "closeAndDelete is reachable only after value.Close() returned"
			if len(by) > 0 {
				det = "closeAndDelete reachable without value.Close() having returned: " + r.Path(p, by[0])
			}
			c.Check(len(by) == 0, "C16.4-delete-after-close", FuncName(fn)+"|closeAndDelete-after-Close", p.Pos(fn.Pos()), det)
		} else {
			g := GBool("TryClose reported closed", CalleeIs(mTryClose), 0, true)
			c.RequireGate("C16.4-delete-after-close", fn, g, cad, "call closeAndDelete")
		}
	}
	c.Min("C16.4-delete-after-close", 3)

	// ---- C16.5 entry.value read only after load finished
	recvFromLoad := func(fn *ssa.Function, at ssa.Instruction) bool {
		// dominated by a select case / receive on entry.load
		ok := false
		Instrs(fn, func(in ssa.Instruction) {
			switch x := in.(type) {
			case *ssa.Select:
				for si, st := range x.States {
					if st.Dir == types.RecvOnly && IsLoadOfField(st.Chan, loadChF) {
						// find the block taken when index == si: If on (extract #0 == si)
						if selectCaseDominates(x, si, at) {
							ok = true
						}
					}
				}
			case *ssa.UnOp:
				if x.Op == token.ARROW && IsLoadOfField(x.X, loadChF) && x.Block().Dominates(at.Block()) {
					ok = true
				}
			}
		})
		return ok
	}
	for _, r := range FieldReads(fns, valueF) {
		fn := r.Parent()
		top := effectiveOwner(p, fn) // a helper extracted from GC / TryRemove counts as that function
		how := ""
		switch {
		case top == newEntry:
			how = "constructor"
		case recvFromLoad(fn, r):
			how = "after receiving from entry.load"
		case len(CallSinks(fn, CalleeFn(waitLoad), false)) > 0 && gatedBy(fn, GErrNil("waitLoad()==nil", CalleeFn(waitLoad)), r):
			how = "after waitLoad returned nil"
		case top == get && dominatedByCall(fn, CalleeFn(load), r):
			how = "after oCache.load ran in this goroutine"
		case top == removeSame && la.Must(r)[mu]:
			how = "identity comparison under oCache.mu"
		case (top == tryRemove || top == gc) && len(CallSinks(fn, CalleeFn(setClosing), false)) > 0 && gatedBy(fn, notState(0, "entryStateClosing"), r):
			how = "owner of the closing transition (entry was active: GC filters isActive; TryRemove: see finding)"
			if top == tryRemove {
				// TryRemove does not wait for the load: prev state may be Loading
				if !gatedBy(fn, GCmp("prevState != entryStateLoading", func(a Atom) (bool, bool) {
					if a.Op != token.EQL && a.Op != token.NEQ {
						return false, false
					}
					if setClosingRes(a.X, 0) && stateConst(a.Y, "entryStateLoading") {
						return true, a.Op == token.NEQ
					}
					return false, false
				}), r) {
					how = ""
				}
			}
		}
		c.Check(how != "", "C16.5-value-after-load", FuncName(fn)+"|entry.value", p.Pos(InstrPos(r)), orDefault(how, "entry.value is read without proof that the load finished (no receive from entry.load, no successful waitLoad, not the loading goroutine)"))
	}
	c.Min("C16.5-value-after-load", 6)

	// ---- C16.6 shutdown
	closedGate := GCmp("oCache.closed == false", func(a Atom) (bool, bool) {
		if a.Op != token.ILLEGAL || !IsLoadOfField(a.X, closedF) {
			return false, false
		}
		return true, false
	})
	for _, fn := range []*ssa.Function{get, remove, removeSame, tryRemove, gc, doLocked} {
		// (accesses moved into a function new since the anchor snapshot are decided there)
		sinks := InstrSinksX(fn, func(in ssa.Instruction) bool {
			if isDataLookup(in) {
				return true
			}
			rg, ok := in.(*ssa.Range)
			return ok && IsLoadOfField(rg.X, dataF)
		})
		c.RequireGate("C16.6-closed-gate", fn, closedGate, sinks, "access to oCache.data")
	}
	{
		// Close: sets closed under the lock, ranges the map, removeCtx in a loop
		var setClosedFlag []ssa.Instruction
		for _, w := range FieldWrites([]*ssa.Function{closeFn}, closedF) {
			setClosedFlag = append(setClosedFlag, w.Instr)
		}
		ok := len(setClosedFlag) == 1 && la.Must(setClosedFlag[0])[mu]
		rc := CallSinks(closeFn, CalleeFn(removeCtx), false)
		inLoop := false
		for _, in := range rc {
			if InnermostLoop(Loops(closeFn), in) != nil {
				inLoop = true
			}
		}
		ranged := false
		Instrs(closeFn, func(in ssa.Instruction) {
			if rg, isR := in.(*ssa.Range); isR && IsLoadOfField(rg.X, dataF) && la.Must(in)[mu] {
				ranged = true
			}
		})
		c.Check(ok && inLoop && ranged, "C16.6-close-all", FuncName(closeFn)+"|closed-flag+removeCtx-for-every-entry", p.Pos(closeFn.Pos()), "Close sets closed under oCache.mu, snapshots every entry of the map under the lock and passes each to removeCtx")
		// closed is never reset
		for _, w := range FieldWrites(fns, closedF) {
			b, isC := BoolConst(w.Val)
			c.Check(isC && b && TopFunc(w.Fn) == closeFn, "C16.6-close-all", FuncName(w.Fn)+"|closed-write", p.Pos(InstrPos(w.Instr)), "oCache.closed is only ever set to true, by Close")
		}
	}
}

func ifs(b bool, s string) string {
	if b {
		return s
	}
	return ""
}

// requireFollowedByOrRepeat: like requireFollowedBy, and additionally the
// event itself must not be reachable again (next loop iteration) without must.
func requireFollowedByOrRepeat(c *Ctx, rule string, fn *ssa.Function, events []ssa.Instruction, evDesc string, must CallMatcher, mustDesc string) {
	c.Fn(FuncName(fn))
	construct := FuncName(fn) + "|" + evDesc + "→" + mustDesc
	cut := CutAtCall(must)
	for _, ev := range events {
		if h, inner, isExp := ExpandSink(ev); isExp {
			// the close sequence was extracted into a new helper: resolved inside it
			okInside := true
			for _, iv := range inner {
				ri := Reach(h, ReachOpts{From: iv, Cut: cut})
				for _, x := range Returns(h) {
					if ri.Reachable(x) {
						okInside = false
					}
				}
			}
			if okInside {
				continue
			}
		}
		r := Reach(fn, ReachOpts{From: ev, Cut: cut})
		sinks := append(Returns(fn), ev)
		for _, x := range sinks {
			if cut(x) {
				continue
			}
			if r.Reachable(x) {
				what := "an exit"
				if x == ev {
					what = "the next iteration's " + evDesc
				}
				c.Violate(rule, construct, c.P.Pos(InstrPos(ev)), fmt.Sprintf("after %s at %s, %s at %s is reachable without %s (witness %s): the entry stays in state closing", evDesc, c.P.Pos(InstrPos(ev)), what, c.P.Pos(InstrPos(x)), mustDesc, r.Path(c.P, x)))
				return
			}
		}
	}
	c.Hold(rule, construct, c.P.Pos(fn.Pos()), fmt.Sprintf("every path after each %s reaches %s before any exit or repetition", evDesc, mustDesc))
}

// gatedBy: instruction at is unreachable once the pass edges of g are removed.
func gatedBy(fn *ssa.Function, g Gate, at ssa.Instruction) bool {
	edges, sites := g.PassEdges(fn)
	if len(sites) == 0 {
		return false
	}
	return !Reach(fn, ReachOpts{Removed: edges}).Reachable(at)
}

// dominatedByCall: every path from entry to at passes a call matching m.
func dominatedByCall(fn *ssa.Function, m CallMatcher, at ssa.Instruction) bool {
	r := Reach(fn, ReachOpts{Cut: CutAtCall(m)})
	if CutAtCall(m)(at) {
		return false
	}
	return !r.Reachable(at)
}

// selectCaseDominates: the block entered when select chose state si dominates at.
func selectCaseDominates(sel *ssa.Select, si int, at ssa.Instruction) bool {
	// find extract #0 of sel and Ifs comparing it with si
	for _, ref := range *sel.Referrers() {
		ex, ok := ref.(*ssa.Extract)
		if !ok || ex.Index != 0 {
			continue
		}
		for _, r2 := range *ex.Referrers() {
			bo, ok := r2.(*ssa.BinOp)
			if !ok || bo.Op != token.EQL {
				continue
			}
			k, ok := IntConst(bo.Y)
			if !ok || int(k) != si {
				continue
			}
			for _, r3 := range *bo.Referrers() {
				iff, ok := r3.(*ssa.If)
				if !ok {
					continue
				}
				succ := iff.Block().Succs[0]
				if succ.Dominates(at.Block()) {
					return true
				}
			}
		}
	}
	return false
}
