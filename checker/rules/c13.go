package rules

import (
	"go/token"
	"strings"

	"golang.org/x/tools/go/ssa"

	. "verif/checker/core"
)

const spPayloads = "commonspace/spacepayloads"

func init() {
	register(&Pack{
		ID: "C13",
		Explanation: "Space payload validation, decided on SSA: (1) validator gates — ValidateSpaceHeader accepts only across VerifyCid(RawHeader, Id[:sep])==true, identity.Verify(SpaceHeader, Signature)==true, STRING equality of the id suffix with FormatUint(header.ReplicationKey, 36), and for v1 headers bytes.Equal of the supplied ACL / settings payloads with the embedded ones; validateCreateSpaceAclPayload only across VerifyCid, identity Verify and master-key Verify; validateCreateSpaceSettingsPayload only across VerifyCid and Verify; ValidateSpaceStorageCreatePayload accepts only across all three ==nil, aclHeadId == AclWithId.Id unconditionally, and — when the header does not embed the payloads — aclSpaceId == header id == settingsSpaceId; needCheckSpaceId is false only for a v1 header; the validators receive the actual payload bytes; " +
			"(2) every accept path validates — SpaceStorageProvider.CreateSpaceStorage is called only from spaceService.createSpaceStorage (across ValidateSpaceStorageCreatePayload()==nil) and the local storage migrator; " +
			"(3) one-to-one symmetry, structural part — buildSortedContext concatenates its operands in swapped order on the two edges of a single bytes.Compare test (argument-order independent), and GenerateSharedKey derives its context through it.",
		NotDecided: "That every single-byte mutation is rejected (crypto values); equality of the two parties' derived ids and keys (X25519 commutativity, HKDF).",
		Run:        runC13,
	})
}

func runC13(c *Ctx) {
	p := c.P
	f := func(n string) *ssa.Function { return p.Func(spPayloads + ":" + n) }
	vsh, vacl, vset, vall := f("ValidateSpaceHeader"), f("validateCreateSpaceAclPayload"), f("validateCreateSpaceSettingsPayload"), f("ValidateSpaceStorageCreatePayload")
	verifyCid := p.PkgFunc("util/cidutil:VerifyCid")
	cidOK := GBool("cidutil.VerifyCid()==true", CalleeIs(verifyCid), 0, true)
	sigOK := GBool("Verify(payload, signature)==true", cryptoVerify, 0, true)

	// ---- C13.1 validator gates
	{
		sinks := SuccessReturns(vsh)
		c.RequireGate("C13.1-header-gates", vsh, cidOK, sinks, "non-error return")
		c.RequireGate("C13.1-header-gates", vsh, sigOK, sinks, "non-error return")
		idF := p.Field(ssProto + ":RawSpaceHeaderWithId.Id")
		rkF := p.Field(ssProto + ":SpaceHeader.ReplicationKey")
		fmtU := p.PkgFunc("strconv:FormatUint")
		suffix := GCmp("Id[sep+1:] == FormatUint(header.ReplicationKey, 36) (string compare)", func(a Atom) (bool, bool) {
			if a.Op != token.EQL && a.Op != token.NEQ {
				return false, false
			}
			isSuffix := func(v ssa.Value) bool {
				sl, ok := v.(*ssa.Slice)
				return ok && sl.High == nil && sl.Low != nil && IsLoadOfField(sl.X, idF)
			}
			isFmt := func(v ssa.Value) bool {
				return valueIsResultOf(v, func(cc *ssa.CallCommon) bool {
					if !CalleeIs(fmtU)(cc) || !IsLoadOfField(cc.Args[0], rkF) {
						return false
					}
					k, ok := IntConst(cc.Args[1])
					return ok && k == 36
				})
			}
			if (isSuffix(a.X) && isFmt(a.Y)) || (isSuffix(a.Y) && isFmt(a.X)) {
				return true, a.Op == token.EQL
			}
			return false, false
		})
		c.RequireGate("C13.1-header-gates", vsh, suffix, sinks, "non-error return")
		// v1 payload comparisons
		verF := p.Field(ssProto + ":SpaceHeader.Version")
		v1 := constVal(p, ssProto, "SpaceHeaderVersion_SpaceHeaderVersion1")
		notV1 := GCmp("header is not v1", func(a Atom) (bool, bool) {
			x := a.X
			if a.Op == token.ILLEGAL {
				// isV1 boolean
				bo, ok := x.(*ssa.BinOp)
				if !ok || bo.Op != token.EQL || !IsLoadOfField(bo.X, verF) {
					return false, false
				}
				return true, false
			}
			if a.Op != token.EQL && a.Op != token.NEQ {
				return false, false
			}
			k, ok := a.Y.(*ssa.Const)
			if !ok || k.Value == nil || k.Value.ExactString() != v1 || !IsLoadOfField(a.X, verF) {
				return false, false
			}
			return true, a.Op == token.NEQ
		})
		bytesEq := p.PkgFunc("bytes:Equal")
		for i, name := range []string{"aclPayload", "settingsPayload"} {
			pm := vsh.Params[2+i]
			hf := p.Field(ssProto + ":SpaceHeader." + map[string]string{"aclPayload": "AclPayload", "settingsPayload": "SettingPayload"}[name])
			eq := GBool("bytes.Equal("+name+", header."+hf.Name()+")==true", func(cc *ssa.CallCommon) bool {
				if !CalleeIs(bytesEq)(cc) {
					return false
				}
				return (originatesFromParam(cc.Args[0], pm) && IsLoadOfField(cc.Args[1], hf)) || (originatesFromParam(cc.Args[1], pm) && IsLoadOfField(cc.Args[0], hf))
			}, 0, true)
			isNil := GNil(name+" not supplied", func(v ssa.Value) bool { return originatesFromParam(v, pm) }, true)
			c.RequireAnyGate("C13.1-header-gates", vsh, []Gate{eq, isNil, notV1}, nil, sinks, "non-error return", nil, false)
		}
		// needCheckSpaceId == !isV1
		okNC := true
		for _, r := range sinks {
			v := r.(*ssa.Return).Results[0]
			vals, unk := Origins(v)
			if unk {
				okNC = false
			}
			for _, o := range vals {
				if b, isC := BoolConst(o); isC && !b {
					continue // zero value on error-ish paths
				}
				un, ok := o.(*ssa.UnOp)
				if !ok || un.Op != token.NOT {
					okNC = false
					continue
				}
				bo, ok := un.X.(*ssa.BinOp)
				if !ok || bo.Op != token.EQL || !IsLoadOfField(bo.X, verF) {
					okNC = false
				}
			}
		}
		if !okNC {
			// assigned per branch (`case v1: … = false; default: … = true`): the constant false
			// reaches a non-error return only through the "header is v1" side
			okNC = true
			rv1 := Reach(vsh, ReachOpts{Removed: notV1.FailEdges(vsh)})
			if _, sites := notV1.PassEdges(vsh); len(sites) == 0 {
				okNC = false
			}
			for _, r := range sinks {
				v := r.(*ssa.Return).Results[0]
				if b, isC := BoolConst(v); isC {
					if !b && rv1.Reachable(r) {
						okNC = false
					}
					continue
				}
				phi, isPhi := v.(*ssa.Phi)
				if !isPhi {
					okNC = false
					continue
				}
				for i, e := range phi.Edges {
					b, isC := BoolConst(e)
					if !isC {
						okNC = false
						continue
					}
					pr := phi.Block().Preds[i]
					if !b && len(pr.Instrs) > 0 && rv1.Reachable(pr.Instrs[len(pr.Instrs)-1]) {
						okNC = false
					}
				}
			}
		}
		c.Check(okNC, "C13.1-header-gates", FuncName(vsh)+"|needCheckSpaceId == !isV1", p.Pos(vsh.Pos()), "the cross-check of the space ids may be skipped only for a v1 header (which embeds both payloads)")
		// operands of the header checks
		for _, cs := range CallSinks(vsh, CalleeIs(verifyCid), false) {
			a := cs.(*ssa.Call).Call.Args
			sl, isSl := a[1].(*ssa.Slice)
			ok := IsLoadOfField(a[0], p.Field(ssProto+":RawSpaceHeaderWithId.RawHeader")) && isSl && IsLoadOfField(sl.X, idF)
			c.Check(ok, "C13.1-header-gates", FuncName(vsh)+"|VerifyCid-operands", p.Pos(InstrPos(cs)), "the id prefix is checked as the hash of RawHeader")
		}
		for _, cs := range CallSinks(vsh, cryptoVerify, false) {
			a := callArgs(cs.(*ssa.Call).Common())
			ok := IsLoadOfField(a[0], p.Field(ssProto+":RawSpaceHeader.SpaceHeader")) && IsLoadOfField(a[1], p.Field(ssProto+":RawSpaceHeader.Signature"))
			c.Check(ok, "C13.1-header-gates", FuncName(vsh)+"|Verify-operands", p.Pos(InstrPos(cs)), "the header signature is verified over the raw header bytes")
		}
	}
	{
		sinks := SuccessReturns(vacl)
		c.RequireGate("C13.1-acl-root-gates", vacl, cidOK, sinks, "non-error return")
		c.RequireAnyGate("C13.1-acl-root-gates", vacl, []Gate{sigOK}, []int{2}, sinks, "non-error return", nil, false)
		// both Verify results must gate: check each call separately
		for i, cs := range CallSinks(vacl, cryptoVerify, false) {
			call := cs.(*ssa.Call)
			g := GBool("Verify#"+string(rune('1'+i))+"==true", func(cc *ssa.CallCommon) bool { return cc == &call.Call }, 0, true)
			c.RequireGate("C13.1-acl-root-gates", vacl, g, sinks, "non-error return")
		}
		sinks2 := SuccessReturns(vset)
		c.RequireGate("C13.1-settings-root-gates", vset, cidOK, sinks2, "non-error return")
		c.RequireGate("C13.1-settings-root-gates", vset, sigOK, sinks2, "non-error return")
	}
	{
		sinks := SuccessReturns(vall)
		for _, g := range []Gate{GErrNil("ValidateSpaceHeader()==nil", CalleeFn(vsh)), GErrNil("validateCreateSpaceAclPayload()==nil", CalleeFn(vacl)), GErrNil("validateCreateSpaceSettingsPayload()==nil", CalleeFn(vset))} {
			c.RequireGate("C13.1-all-parts", vall, g, sinks, "nil return")
		}
		// aclHeadId == AclWithId.Id (unconditional)
		aclId := p.Field("consensus/consensusproto:RawRecordWithId.Id")
		hdrId := p.Field(ssProto + ":RawSpaceHeaderWithId.Id")
		resOf := func(fn *ssa.Function, idx int) func(ssa.Value) bool {
			return func(v ssa.Value) bool {
				vals, unk := Origins(v)
				if unk || len(vals) == 0 {
					return false
				}
				for _, o := range vals {
					call, i, ok := CallResult(o)
					if !ok || !CalleeFn(fn)(&call.Call) || i != idx {
						return false
					}
				}
				return true
			}
		}
		eqGate := func(name string, l, r func(ssa.Value) bool) Gate {
			return GCmp(name, func(a Atom) (bool, bool) {
				if a.Op != token.EQL && a.Op != token.NEQ {
					return false, false
				}
				if (l(a.X) && r(a.Y)) || (l(a.Y) && r(a.X)) {
					return true, a.Op == token.EQL
				}
				return false, false
			})
		}
		headEq := eqGate("settings.AclHeadId == AclWithId.Id", resOf(vset, 0), func(v ssa.Value) bool { return IsLoadOfField(v, aclId) })
		c.RequireGate("C13.1-all-parts", vall, headEq, sinks, "nil return")
		noNeed := GBool("needCheckSpaceId==false (v1 header)", CalleeFn(vsh), 0, false)
		c.RequireAnyGate("C13.1-all-parts", vall, []Gate{eqGate("aclSpaceId == header id", resOf(vacl, 0), func(v ssa.Value) bool { return IsLoadOfField(v, hdrId) }), noNeed}, nil, sinks, "nil return", nil, false)
		c.RequireAnyGate("C13.1-all-parts", vall, []Gate{eqGate("aclSpaceId == settingsSpaceId", resOf(vacl, 0), resOf(vset, 1)), noNeed}, nil, sinks, "nil return", nil, false)
		// the header validator receives the actual payload bytes
		for _, cs := range CallSinks(vall, CalleeFn(vsh), false) {
			a := cs.(*ssa.Call).Call.Args
			ok := IsLoadOfField(a[2], p.Field("consensus/consensusproto:RawRecordWithId.Payload")) && IsLoadOfField(a[3], p.Field(tcProto+":RawTreeChangeWithId.RawChange"))
			c.Check(ok, "C13.1-all-parts", FuncName(vall)+"|header validated against the actual ACL and settings bytes", p.Pos(InstrPos(cs)), "ValidateSpaceHeader is given AclWithId.Payload and SpaceSettingsWithId.RawChange of the same payload")
		}
	}

	// ---- C13.2 every accept path validates
	{
		css := calleeMethod("commonspace/spacestorage", "CreateSpaceStorage")
		create := p.Func("commonspace:(*spaceService).createSpaceStorage")
		n := 0
		for _, cs := range Callers(prodFuncs(p), css) {
			top := TopFunc(cs.Fn)
			ok := top == create || strings.Contains(FuncName(top), "migration")
			n++
			c.Check(ok, "C13.2-accept-paths", FuncName(top)+"|CreateSpaceStorage", p.Pos(InstrPos(cs.Instr)), "space storage is created only by spaceService.createSpaceStorage (validated) or the local migrator")
		}
		c.Min("C13.2-accept-paths", 2)
		c.RequireGate("C13.2-accept-paths", create, GErrNil("ValidateSpaceStorageCreatePayload()==nil", CalleeFn(vall)), CallSinksX(create, css, false), "CreateSpaceStorage")
		for _, cs := range CallSinks(create, CalleeFn(vall), false) {
			ok := originatesFromParam(cs.(*ssa.Call).Call.Args[0], create.Params[2])
			c.Check(ok, "C13.2-accept-paths", FuncName(create)+"|validates the payload it stores", p.Pos(InstrPos(cs)), "the payload validated is the payload stored")
		}
	}

	// ---- C13.3 one-to-one symmetry (structural part)
	{
		bscOpt := p.FuncOpt("util/crypto:buildSortedContext")
		gsk := p.Func("util/crypto:GenerateSharedKey")
		bsc := bscOpt
		if bsc == nil {
			bsc = gsk // the helper was inlined into its only caller: decide the ordering there
		}
		// the two compared operands (the helper's parameters, or — inlined — the two keys)
		var ca, cb ssa.Value
		sameVal := func(v, w ssa.Value) bool {
			if v == nil || w == nil {
				return false
			}
			if v == w {
				return true
			}
			a, ua := Origins(v)
			b, ub := Origins(w)
			return !ua && !ub && len(a) == 1 && len(b) == 1 && a[0] == b[0]
		}
		opA := func(v ssa.Value) bool {
			if bscOpt != nil {
				return originatesFromParam(v, bsc.Params[0])
			}
			return sameVal(v, ca)
		}
		opB := func(v ssa.Value) bool {
			if bscOpt != nil {
				return originatesFromParam(v, bsc.Params[1])
			}
			return sameVal(v, cb)
		}
		cmp := p.PkgFunc("bytes:Compare")
		ok := false
		det := "the two branches of one bytes.Compare(a, b) test append (a‖b) and (b‖a)"
		nIf := 0
		cmpBranch, sameOrder := false, false
		Instrs(bsc, func(in ssa.Instruction) {
			iff, isIf := in.(*ssa.If)
			if !isIf {
				return
			}
			if bscOpt != nil {
				nIf++
			}
			a := AtomOf(iff)
			if !valueIsResultOf(a.X, func(cc *ssa.CallCommon) bool {
				if !CalleeIs(cmp)(cc) {
					return false
				}
				if bscOpt == nil {
					ca, cb = cc.Args[0], cc.Args[1]
					return true
				}
				return (opA(cc.Args[0]) && opB(cc.Args[1])) || (opB(cc.Args[0]) && opA(cc.Args[1]))
			}) {
				return
			}
			if bscOpt == nil {
				nIf++
			}
			order := func(b *ssa.BasicBlock) string {
				// the append whose first operand is a parameter: append(a, b...) / append(b, a...)
				res := ""
				for _, x := range b.Instrs {
					if call, isCall := x.(*ssa.Call); isCall {
						if bi, isB := call.Call.Value.(*ssa.Builtin); isB && bi.Name() == "append" && len(call.Call.Args) == 2 {
							if opA(call.Call.Args[0]) && opB(call.Call.Args[1]) {
								res = "ab"
							}
							if opB(call.Call.Args[0]) && opA(call.Call.Args[1]) {
								res = "ba"
							}
						}
					}
				}
				return res
			}
			o1, o2 := order(iff.Block().Succs[0]), order(iff.Block().Succs[1])
			if o1 != "" && o2 != "" && o1 != o2 {
				ok = true
			}
			if o1 != "" && o1 == o2 {
				sameOrder = true // both outcomes of the comparison append the same order: not sorted
			}
			cmpBranch = true
		})
		// second recognised shape: `first, second := a, b; if Compare(a,b) > 0 { first, second = b, a }`
		// — one append(first, second...) whose operands are phis that swap the two parameters
		if !ok && cmpBranch {
			Instrs(bsc, func(in ssa.Instruction) {
				call, isCall := in.(*ssa.Call)
				if !isCall {
					return
				}
				bi, isB := call.Call.Value.(*ssa.Builtin)
				if !isB || bi.Name() != "append" || len(call.Call.Args) != 2 {
					return
				}
				x, okx := call.Call.Args[0].(*ssa.Phi)
				y, oky := call.Call.Args[1].(*ssa.Phi)
				if !okx || !oky || x.Block() != y.Block() || len(x.Edges) != 2 {
					return
				}
				swapped := (opA(x.Edges[0]) && opB(y.Edges[0]) && opB(x.Edges[1]) && opA(y.Edges[1])) ||
					(opB(x.Edges[0]) && opA(y.Edges[0]) && opA(x.Edges[1]) && opB(y.Edges[1]))
				if swapped {
					ok = true
					det = "one bytes.Compare(a, b) test selects (first, second) = (a, b) or (b, a) for a single append"
				}
			})
		}
		if !ok && cmpBranch && nIf == 1 && !sameOrder {
			// ordered by one Compare test, but in a shape this rule does not interpret: not decided
			c.Hold("C13.3-sorted-context", FuncName(bsc), p.Pos(bsc.Pos()), "the context is ordered by a bytes.Compare(a, b) test; the shape of the two orders is not recognised: clause not decided")
			c.Note("C13.3: buildSortedContext shape not recognised; not decided")
		} else {
			c.Check(ok && nIf == 1, "C13.3-sorted-context", FuncName(bsc), p.Pos(bsc.Pos()), det)
		}
		if bscOpt != nil {
			c.Check(ContainsCall(gsk, CalleeFn(bsc)), "C13.3-sorted-context", FuncName(gsk)+"|context via buildSortedContext", p.Pos(gsk.Pos()), "the shared-key derivation context is built by buildSortedContext from both public keys")
		} else {
			c.Hold("C13.3-sorted-context", FuncName(gsk)+"|context via buildSortedContext", p.Pos(gsk.Pos()), "buildSortedContext was inlined: the ordering is decided inside GenerateSharedKey itself")
		}
	}
}
