package rules

import (
	"fmt"
	"go/token"
	"go/types"
	"sort"
	"strings"

	"golang.org/x/tools/go/ssa"

	. "verif/checker/core"
)

// secretKeyType: static type of a value that holds secret key material.
func secretKeyType(t types.Type) bool {
	if pt, ok := t.(*types.Pointer); ok {
		t = pt.Elem()
	}
	n, ok := t.(*types.Named)
	if !ok || n.Obj().Pkg() == nil || !strings.HasSuffix(n.Obj().Pkg().Path(), "util/crypto") {
		return false
	}
	switch n.Obj().Name() {
	case "SymKey", "PrivKey", "AESKey", "Ed25519PrivKey":
		return true
	}
	return false
}

func callRecv(cc *ssa.CallCommon) ssa.Value {
	if cc.IsInvoke() {
		return cc.Value
	}
	if cc.Signature().Recv() != nil && len(cc.Args) > 0 {
		return cc.Args[0]
	}
	return nil
}

// c05Sanitizers: the only consumers allowed for serialized secret key bytes.
var c05Sanitizers = map[string]string{
	"Encrypt":            "argument of PubKey/SymKey.Encrypt: leaves only as ciphertext",
	"DeriveKey":          "argument of KeyDeriver.DeriveKey: one-way derivation",
	"DeriveSymmetricKey": "argument of crypto.DeriveSymmetricKey: one-way derivation",
}

// secretSinks walks forward from the serialized key bytes v and returns the
// uses that are not sanitizers.
func secretSinks(v ssa.Value) (bad []ssa.Instruction, sanitized int) {
	seen := map[ssa.Value]bool{}
	var walk func(v ssa.Value)
	walk = func(v ssa.Value) {
		if seen[v] || v.Referrers() == nil {
			return
		}
		seen[v] = true
		for _, r := range *v.Referrers() {
			switch x := r.(type) {
			case *ssa.DebugRef:
			case *ssa.Phi:
				walk(x)
			case *ssa.Store:
				if al, ok := x.Addr.(*ssa.Alloc); ok && x.Val == v {
					// local cell: follow its loads
					for _, r2 := range *al.Referrers() {
						if u, ok := r2.(*ssa.UnOp); ok && u.Op == token.MUL {
							walk(u)
						}
					}
					continue
				}
				bad = append(bad, r)
			case ssa.CallInstruction:
				cc := x.Common()
				o := CalleeObj(cc)
				isArg := false
				for _, a := range callArgs(cc) {
					if a == v {
						isArg = true
					}
				}
				if o != nil && isArg {
					if _, ok := c05Sanitizers[o.Name()]; ok && o.Pkg() != nil && strings.HasSuffix(o.Pkg().Path(), "util/crypto") {
						sanitized++
						continue
					}
					if b, ok := cc.Value.(*ssa.Builtin); ok && b.Name() == "len" {
						continue
					}
				}
				if b, ok := cc.Value.(*ssa.Builtin); ok && b.Name() == "len" {
					continue
				}
				bad = append(bad, r)
			default:
				bad = append(bad, r)
			}
		}
	}
	walk(v)
	return
}

func runC05Acl(c *Ctx, encrypt CallMatcher) {
	p := c.P
	listFns := p.FuncsOfPkg(aclList)
	var prodList []*ssa.Function
	for _, fn := range listFns {
		pos := p.Pos(fn.Pos())
		if strings.Contains(pos, "listutils.go") || strings.Contains(pos, "aclexecutor") || strings.Contains(pos, "testutil") || strings.Contains(pos, "mock_") {
			continue
		}
		prodList = append(prodList, fn)
	}

	// ================================================= C05.2 key material leaves only wrapped
	{
		rule := "C05.2-key-material-wrapped"
		scope := append([]*ssa.Function{}, prodList...)
		scope = append(scope, p.FuncsOfPkg(otPkg)...)
		scope = append(scope, p.FuncsOfPkg(spPayloads)...)
		n := 0
		for _, fn := range scope {
			for _, ci := range CallsIn(fn) {
				cc := ci.Common()
				o := CalleeObj(cc)
				if o == nil || (o.Name() != "Marshall" && o.Name() != "Raw") {
					continue
				}
				recv := callRecv(cc)
				if recv == nil || !secretKeyType(recv.Type()) {
					continue
				}
				call, ok := ci.(*ssa.Call)
				if !ok {
					continue
				}
				n++
				c.Fn(FuncName(fn))
				construct := fmt.Sprintf("%s|%s.%s()", FuncName(fn), describeOperand(recv), o.Name())
				var bytesVal ssa.Value
				for _, r := range *call.Referrers() {
					if ex, ok := r.(*ssa.Extract); ok && ex.Index == 0 {
						bytesVal = ex
					}
				}
				if bytesVal == nil {
					c.Hold(rule, construct, p.Pos(call.Pos()), "serialized key bytes are not used")
					continue
				}
				bad, san := secretSinks(bytesVal)
				det := fmt.Sprintf("the serialized secret key is consumed only by %d sanitizer call(s) (Encrypt / DeriveKey)", san)
				if len(bad) > 0 {
					det = "the serialized secret key reaches " + p.Pos(InstrPos(bad[0])) + " (" + strings.TrimSpace(bad[0].String()) + ") without being encrypted: key material may leave in the clear"
				}
				c.Check(len(bad) == 0, rule, construct, p.Pos(call.Pos()), det)
			}
		}
		c.Min(rule, 8)
	}

	// ================================================= C05.3 rotation: wrap direction, pairing, recipients
	brk := p.Func(aclList + ":(*aclRecordBuilder).buildReadKeyChange")
	c.Fn(FuncName(brk))
	fRKC := func(n string) *types.Var { return p.Field(aclProto + ":AclReadKeyChange." + n) }
	fPayloadRK := p.Field(aclList + ":ReadKeyChangePayload.ReadKey")
	curReadKey := p.Func(aclList + ":(*AclState).CurrentReadKey")
	{
		rule := "C05.3-wrap-direction"
		// EncryptedOldReadKey = payload.ReadKey.Encrypt(Marshall(state.CurrentReadKey()))
		for _, w := range FieldWrites([]*ssa.Function{brk}, fRKC("EncryptedOldReadKey")) {
			bad := ""
			vals, unk := Origins(w.Val)
			if unk || len(vals) == 0 {
				bad = "origin of EncryptedOldReadKey not recognised"
			}
			for _, o := range vals {
				call, idx, ok := CallResult(o)
				if !ok || idx != 0 || !encrypt(&call.Call) {
					bad = "EncryptedOldReadKey is not the result of an Encrypt call"
					continue
				}
				if !IsLoadOfField(callRecv(&call.Call), fPayloadRK) {
					bad = "the previous key is not wrapped under the NEW key (payload.ReadKey): receiver is " + describeOperand(callRecv(&call.Call))
					continue
				}
				arg := callArgs(&call.Call)[0]
				if !usesValue(arg, func(v ssa.Value) bool {
					cl, ok := v.(*ssa.Call)
					return ok && CalleeFn(curReadKey)(&cl.Call)
				}) {
					bad = "the wrapped value does not derive from state.CurrentReadKey() (the previous generation)"
				}
				if usesValue(arg, isFieldLoadPred(fPayloadRK)) {
					bad = "the wrapped value derives from the new key itself"
				}
			}
			c.Check(bad == "", rule, FuncName(brk)+"|EncryptedOldReadKey", p.Pos(InstrPos(w.Instr)), orDefault(bad, "EncryptedOldReadKey = payload.ReadKey.Encrypt(marshalled state.CurrentReadKey()): holders of the new key can unwrap the old one, never the reverse"))
		}
		// EncryptedMetadataPrivKey under the new read key
		for _, w := range FieldWrites([]*ssa.Function{brk}, fRKC("EncryptedMetadataPrivKey")) {
			ok := false
			vals, _ := Origins(w.Val)
			for _, o := range vals {
				call, idx, isCall := CallResult(o)
				ok = isCall && idx == 0 && encrypt(&call.Call) && IsLoadOfField(callRecv(&call.Call), fPayloadRK)
			}
			c.Check(ok, rule, FuncName(brk)+"|EncryptedMetadataPrivKey", p.Pos(InstrPos(w.Instr)), orDefault(map[bool]string{false: "the metadata private key is not encrypted under the new read key"}[ok], "EncryptedMetadataPrivKey = payload.ReadKey.Encrypt(...)"))
		}
		c.Min(rule, 2)
	}
	{
		rule := "C05.3-recipient-pairing"
		// every AclEncryptedReadKey literal: Identity = X.Marshall(), EncryptedReadKey = X.Encrypt(<new key bytes>)
		fId := p.Field(aclProto + ":AclEncryptedReadKey.Identity")
		fEnc := p.Field(aclProto + ":AclEncryptedReadKey.EncryptedReadKey")
		type pair struct{ id, enc *ssa.Store }
		pairs := map[ssa.Value]*pair{}
		var order []ssa.Value
		Instrs(brk, func(in ssa.Instruction) {
			st, ok := in.(*ssa.Store)
			if !ok {
				return
			}
			fa, ok := st.Addr.(*ssa.FieldAddr)
			if !ok {
				return
			}
			f := FieldOf(fa)
			if f != fId && f != fEnc {
				return
			}
			pr := pairs[fa.X]
			if pr == nil {
				pr = &pair{}
				pairs[fa.X] = pr
				order = append(order, fa.X)
			}
			if f == fId {
				pr.id = st
			} else {
				pr.enc = st
			}
		})
		for i, base := range order {
			pr := pairs[base]
			construct := fmt.Sprintf("%s|recipient entry #%d", FuncName(brk), i+1)
			bad := ""
			if pr.id == nil || pr.enc == nil {
				bad = "an AclEncryptedReadKey is built without both Identity and EncryptedReadKey"
			} else {
				ic, _, ok1 := CallResult(pr.id.Val)
				ec, _, ok2 := CallResult(pr.enc.Val)
				switch {
				case !ok1 || !ok2 || !encrypt(&ec.Call) || CalleeObj(&ic.Call) == nil || CalleeObj(&ic.Call).Name() != "Marshall":
					bad = "Identity / EncryptedReadKey are not X.Marshall() / X.Encrypt(key)"
				case !sameFieldLoad(callRecv(&ic.Call), callRecv(&ec.Call)):
					bad = "the ciphertext is produced with a different public key (" + describeOperand(callRecv(&ec.Call)) + ") than the identity it is filed under (" + describeOperand(callRecv(&ic.Call)) + ")"
				case !usesValue(callArgs(&ec.Call)[0], isFieldLoadPred(fPayloadRK)):
					bad = "the encrypted value does not derive from the new read key (payload.ReadKey)"
				}
			}
			pos := p.Pos(brk.Pos())
			if pr.enc != nil {
				pos = p.Pos(InstrPos(pr.enc))
			}
			c.Check(bad == "", rule, construct, pos, orDefault(bad, "Identity and ciphertext of the new key use the same recipient public key"))
		}
		c.Min(rule, 2)
	}
	{
		rule := "C05.3-rotation-recipients"
		for _, w := range FieldWrites([]*ssa.Function{brk}, fRKC("AccountKeys")) {
			checkSkips(c, rule, brk, "AccountKeys recipients", w.Val, map[string]string{
				"key∈removedIdentities":       "removed by this very record",
				"Permissions.NoPermissions()": "holds no permission",
			}, []string{"key∈removedIdentities", "Permissions.NoPermissions()"})
		}
		for _, w := range FieldWrites([]*ssa.Function{brk}, fRKC("InviteKeys")) {
			checkSkips(c, rule, brk, "InviteKeys recipients", w.Val, map[string]string{
				"Type != 1":          "not an open (AnyoneCanJoin) invite",
				"key∈revokedInvites": "revoked in this batch",
			}, []string{"Type != 1", "key∈revokedInvites"})
		}
		// validator side
		vrk := p.Func(aclList + ":(*contentValidator).validateReadKeyChange")
		c.Fn(FuncName(vrk))
		isEqual := func(cc *ssa.CallCommon) bool {
			o := CalleeObj(cc)
			return o != nil && o.Pkg() != nil && (o.Pkg().Path() == "slices" || o.Pkg().Path() == "golang.org/x/exp/slices") && o.Name() == "Equal"
		}
		fAccKeys, fInvKeys := fRKC("AccountKeys"), fRKC("InviteKeys")
		var eqCalls []*ssa.Call
		for _, ci := range CallsIn(vrk) {
			if call, ok := ci.(*ssa.Call); ok && isEqual(&call.Call) {
				eqCalls = append(eqCalls, call)
			}
		}
		sv := GBool("ShouldValidate()==true", CalleeIs(p.Method("commonspace/object/acl/recordverifier:AcceptorVerifier.ShouldValidate")), 0, true)
		base := sv.FailEdges(vrk)
		for _, spec := range []struct {
			name  string
			field *types.Var
			allow map[string]string
			req   []string
		}{
			{"accounts", fAccKeys, map[string]string{"Permissions.NoPermissions()": "holds no permission", "key∈removedUsers": "removed by this very record"}, []string{"Permissions.NoPermissions()", "key∈removedUsers"}},
			{"invites", fInvKeys, map[string]string{"Type != 1": "not an open (AnyoneCanJoin) invite"}, []string{"Type != 1"}},
		} {
			var mine *ssa.Call
			var expected ssa.Value
			for _, ec := range eqCalls {
				for i, a := range ec.Call.Args {
					if usesValueDeep(a, isFieldLoadPred(spec.field)) {
						mine = ec
						expected = ec.Call.Args[1-i]
					}
				}
			}
			construct := FuncName(vrk) + "|slices.Equal on " + spec.name
			if mine == nil {
				c.Violate(rule, construct, p.Pos(vrk.Pos()), "no slices.Equal compares the recipients named in the record ("+spec.field.Name()+") with the expected set: a rotation that omits or adds recipients would be accepted")
				continue
			}
			g := GBool("slices.Equal(expected "+spec.name+", record "+spec.name+")==true", func(cc *ssa.CallCommon) bool { return cc == &mine.Call }, 0, true)
			c.RequireAnyGate(rule, vrk, []Gate{g}, nil, SuccessReturns(vrk), "nil return (rotation accepted)", base, false)
			checkSkips(c, rule, vrk, "expected "+spec.name, expected, spec.allow, spec.req)
		}
		// ValidateAccountRemove passes the removed set
		var1 := p.Func(aclList + ":(*contentValidator).ValidateAccountRemove")
		c.Fn(FuncName(var1))
		fIdentities := p.Field(aclProto + ":AclAccountRemove.Identities")
		for _, cs := range CallSinks(var1, CalleeFn(vrk), false) {
			arg := cs.(*ssa.Call).Call.Args[2]
			ok := false
			if mm, isMake := arg.(*ssa.MakeMap); isMake {
				for _, r := range *mm.Referrers() {
					if mu, isMU := r.(*ssa.MapUpdate); isMU && usesValue(mu.Key, isFieldLoadPred(fIdentities)) {
						ok = true
					}
				}
			}
			c.Check(ok, rule, FuncName(var1)+"|removed set passed to validateReadKeyChange", p.Pos(cs.Pos()), orDefault(map[bool]string{false: "the set of removed identities handed to validateReadKeyChange is not the set filled from ch.Identities: removed accounts would be expected among the recipients"}[ok], "the removed-identity set is built from ch.Identities"))
		}
		// builder side: buildAccountRemove passes the removed identities
		bar := p.Func(aclList + ":(*aclRecordBuilder).buildAccountRemove")
		c.Fn(FuncName(bar))
		fPayloadIds := p.Field(aclList + ":AccountRemovePayload.Identities")
		for _, cs := range CallSinks(bar, CalleeFn(brk), false) {
			arg := cs.(*ssa.Call).Call.Args[2]
			ok := false
			if mm, isMake := arg.(*ssa.MakeMap); isMake {
				for _, r := range *mm.Referrers() {
					if mu, isMU := r.(*ssa.MapUpdate); isMU && usesValue(mu.Key, isFieldLoadPred(fPayloadIds)) {
						ok = true
					}
				}
			}
			c.Check(ok, rule, FuncName(bar)+"|removed set passed to buildReadKeyChange", p.Pos(cs.Pos()), orDefault(map[bool]string{false: "buildAccountRemove does not hand the removed identities to buildReadKeyChange: the removed accounts would receive the new key"}[ok], "the removed-identity set is built from payload.Identities"))
		}
		c.Min(rule, 8)
	}

	// ================================================= C05.4 admission paths unpack the key chain
	unpack := p.Func(aclList + ":(*AclState).unpackAllKeys")
	fAccStates := p.Field(aclList + ":AclState.accountStates")
	fPubKey := p.Field(aclList + ":AclState.pubKey")
	fPerm := p.Field(aclList + ":AccountState.Permissions")
	{
		rule := "C05.4-admission-unpacks"
		exempt := map[string]string{
			"(*commonspace/object/acl/list.AclState).applyRoot":      "the owner's key comes from the root record itself (saveKeysFromRoot)",
			"(*commonspace/object/acl/list.AclState).setOneToOneAcl": "one-to-one spaces derive their keys (deriveOneToOneKeys), no key chain",
		}
		grants := map[*ssa.Function][]*ssa.MapUpdate{}
		for _, w := range FieldWrites(prodList, fAccStates) {
			mu, ok := w.Instr.(*ssa.MapUpdate)
			if !ok {
				continue
			}
			// a fresh composite literal (not a modified copy of an existing entry) with a non-None permission
			ld, ok := mu.Value.(*ssa.UnOp)
			if !ok {
				continue
			}
			al, ok := ld.X.(*ssa.Alloc)
			if !ok {
				continue
			}
			fresh, grant := true, false
			for _, r := range *al.Referrers() {
				switch x := r.(type) {
				case *ssa.Store:
					if x.Addr == al {
						fresh = false // whole-value store: copy of an existing entry
					}
				case *ssa.FieldAddr:
					if FieldOf(x) != fPerm {
						continue
					}
					for _, r2 := range *x.Referrers() {
						if st, ok := r2.(*ssa.Store); ok && st.Addr == x {
							if k, isK := st.Val.(*ssa.Const); isK && k.Value != nil && k.Value.ExactString() == "0" {
								continue
							}
							grant = true
						}
					}
				}
			}
			if fresh && grant {
				grants[TopFunc(w.Fn)] = append(grants[TopFunc(w.Fn)], mu)
			}
		}
		var gf []*ssa.Function
		for fn := range grants {
			gf = append(gf, fn)
		}
		sort.Slice(gf, func(i, j int) bool { return FuncName(gf[i]) < FuncName(gf[j]) })
		admitting := 0
		for _, fn := range gf {
			c.Fn(FuncName(fn))
			if why, ok := exempt[FuncName(fn)]; ok {
				c.Hold(rule, FuncName(fn)+"|grants a permission to a new account", p.Pos(fn.Pos()), "exempt: "+why)
				continue
			}
			admitting++
			construct := FuncName(fn) + "|admitted account unpacks the key chain"
			calls := CallSinks(fn, CalleeFn(unpack), false)
			// "unpack when it is me" moved into a function new since the anchor snapshot: inside it
			// every success return passes unpackAllKeys or the not-me edge; its call stands for both
			type condUnpack struct {
				call *ssa.Call
				h    *ssa.Function
				who  ssa.Value
			}
			var conds []condUnpack
			var gNotMeFwd Gate
			findConds := func() {
				for _, ci := range CallsIn(fn) {
					call, isCall := ci.(*ssa.Call)
					h := CalleeFunc(ci.Common())
					if !isCall || h == nil || h.Blocks == nil || !IsRepoFunc(h) || !IsNewFunc(h) || len(CallSinks(h, CalleeFn(unpack), false)) == 0 {
						continue
					}
					hNotMe, hSites := gNotMeFwd.PassEdges(h)
					if len(hSites) != 1 {
						continue
					}
					rem := map[Edge]bool{}
					for e := range hNotMe {
						rem[e] = true
					}
					for e := range ErrorExitEdges(h) {
						rem[e] = true
					}
					r := Reach(h, ReachOpts{Cut: CutAtCall(CalleeFn(unpack)), Removed: rem})
					bypass := false
					for _, ret := range SuccessReturns(h) {
						if r.Reachable(ret) {
							bypass = true
						}
					}
					if bypass {
						continue
					}
					who := callArgs(&AtomOf(hSites[0]).X.(*ssa.Call).Call)[0]
					for {
						if mi, ok := who.(*ssa.MakeInterface); ok {
							who = mi.X
						} else if ci2, ok := who.(*ssa.ChangeInterface); ok {
							who = ci2.X
						} else {
							break
						}
					}
					pm, isParam := who.(*ssa.Parameter)
					if !isParam {
						continue
					}
					for i, hp := range h.Params {
						if hp == pm && i < len(call.Call.Args) {
							arg := call.Call.Args[i]
							for {
								if mi, ok := arg.(*ssa.MakeInterface); ok {
									arg = mi.X
								} else if ci2, ok := arg.(*ssa.ChangeInterface); ok {
									arg = ci2.X
								} else {
									break
								}
							}
							conds = append(conds, condUnpack{call, h, arg})
						}
					}
				}
			}
			// from each grant, a success return is reachable only through unpackAllKeys or across the
			// false edge of st.pubKey.Equals(<admitted identity>)
			gNotMe := GCmp("st.pubKey.Equals(admitted)==false", func(a Atom) (bool, bool) {
				if a.Op != token.ILLEGAL {
					return false, false
				}
				call, ok := a.X.(*ssa.Call)
				if !ok {
					return false, false
				}
				o := CalleeObj(&call.Call)
				if o == nil || o.Name() != "Equals" || !IsLoadOfField(callRecv(&call.Call), fPubKey) {
					return false, false
				}
				return true, false
			})
			gNotMeFwd = gNotMe
			findConds()
			if len(calls) == 0 && len(conds) == 0 {
				c.Violate(rule, construct, p.Pos(fn.Pos()), "this function admits an account (stores a fresh AccountState with a permission) but never calls unpackAllKeys: the admitted account's own view holds no read key")
				continue
			}
			notMe, sites := gNotMe.PassEdges(fn)
			if len(sites) == 0 && len(conds) == 0 {
				c.Violate(rule, construct, p.Pos(fn.Pos()), "unpackAllKeys is not guarded by st.pubKey.Equals(<admitted identity>)")
				continue
			}
			// the identity compared is the one admitted: its map key derives from the same value
			idOK := true
			for _, s := range sites {
				call := AtomOf(s).X.(*ssa.Call)
				who := callArgs(&call.Call)[0]
				for {
					if mi, ok := who.(*ssa.MakeInterface); ok {
						who = mi.X
					} else if ci, ok := who.(*ssa.ChangeInterface); ok {
						who = ci.X
					} else {
						break
					}
				}
				for _, mu := range grants[fn] {
					if !usesValue(mu.Key, func(v ssa.Value) bool { return v == who }) {
						idOK = false
					}
				}
			}
			for _, cu := range conds {
				for _, mu := range grants[fn] {
					who := cu.who
					if !usesValue(mu.Key, func(v ssa.Value) bool { return v == who }) {
						idOK = false
					}
				}
			}
			bad := ""
			if !idOK {
				bad = "the identity compared with st.pubKey is not the identity stored into accountStates"
			}
			cutPlain := CutAtCall(CalleeFn(unpack))
			cutUnpack := func(in ssa.Instruction) bool {
				if cutPlain(in) {
					return true
				}
				for _, cu := range conds {
					if in == ssa.Instruction(cu.call) {
						return true
					}
				}
				return false
			}
			removed := map[Edge]bool{}
			for e := range notMe {
				removed[e] = true
			}
			for e := range ErrorExitEdges(fn) {
				removed[e] = true
			}
			for _, mu := range grants[fn] {
				r := Reach(fn, ReachOpts{From: mu, Cut: cutUnpack, Removed: removed})
				for _, ret := range SuccessReturns(fn) {
					if r.Reachable(ret) {
						bad = "after the grant at " + p.Pos(mu.Pos()) + " a nil return is reachable for the admitted account itself without unpackAllKeys (witness " + r.Path(p, ret) + ")"
					}
				}
			}
			c.Check(bad == "", rule, construct, p.Pos(fn.Pos()), orDefault(bad, "when the admitted identity is the local account every success path calls unpackAllKeys"))
			if len(calls) > 0 {
				requirePropagates(c, rule, fn, CalleeFn(unpack), "unpackAllKeys")
			}
			for _, cu := range conds {
				cc := cu.call
				requirePropagates(c, rule, fn, func(x *ssa.CallCommon) bool { return x == &cc.Call }, "unpackAllKeys")
				requirePropagates(c, rule, cu.h, CalleeFn(unpack), "unpackAllKeys")
			}
		}
		c.Check(admitting >= 3, rule, "admission paths|count", p.Pos(unpack.Pos()), fmt.Sprintf("%d admitting functions found (expected at least 3: accounts-add, request-accept, invite-join)", admitting))
		c.Min(rule, 7)
	}
	{
		rule := "C05.4-unpack-walk"
		c.Fn(FuncName(unpack))
		fRKCs := p.Field(aclList + ":AclState.readKeyChanges")
		fPrev := p.Field(aclList + ":AclKeys.encryptedPreviousReadKey")
		found := false
		for _, l := range Loops(unpack) {
			init, ok := l.CountsDownToZero()
			if ok && IsLenMinusOne(init, fRKCs) {
				found = true
			}
		}
		c.Check(found, rule, FuncName(unpack)+"|walks readKeyChanges last→first", p.Pos(unpack.Pos()), orDefault(map[bool]string{false: "unpackAllKeys no longer iterates idx = len(readKeyChanges)-1 … 0: some generation is not unwrapped"}[found], "the loop visits every key generation from the newest to the first"))
		gPrev := GNil("encryptedPreviousReadKey!=nil", fieldLoad(fPrev), false)
		failLeadsToError(c, rule, unpack, gPrev, "a missing link of the key chain")
		// every generation visited is stored with its keys
		fKeysMap := p.Field(aclList + ":AclState.keys")
		nStore := 0
		for _, w := range FieldWrites([]*ssa.Function{unpack}, fKeysMap) {
			if w.Kind == "mapupdate" {
				nStore++
			}
		}
		c.Check(nStore >= 1, rule, FuncName(unpack)+"|stores unwrapped keys", p.Pos(unpack.Pos()), fmt.Sprintf("%d store(s) into st.keys inside unpackAllKeys", nStore))
	}
	{
		rule := "C05.4-rotation-registered"
		ark := p.Func(aclList + ":(*AclState).applyReadKeyChange")
		fRKCs := p.Field(aclList + ":AclState.readKeyChanges")
		ark = descendToWrites(ark, fRKCs) // the storing half may have been split off
		c.Fn(FuncName(ark))
		fKeysMap := p.Field(aclList + ":AclState.keys")
		fRecId := p.Field(aclList + ":AclRecord.Id")
		var ev []ssa.Instruction
		var idA, idB ssa.Value
		for _, w := range FieldWrites([]*ssa.Function{ark}, fRKCs) {
			if w.Kind == "store" {
				ev = append(ev, w.Instr)
				for _, ap := range appendsFeeding(w.Val) {
					for _, e := range appendedElems(ap) {
						idA = e
					}
				}
			}
		}
		var keyStores []ssa.Instruction
		for _, w := range FieldWrites([]*ssa.Function{ark}, fKeysMap) {
			if mu, ok := w.Instr.(*ssa.MapUpdate); ok {
				keyStores = append(keyStores, mu)
				idB = mu.Key
			}
		}
		ok := len(ev) == 1 && len(keyStores) >= 1 && idA != nil && idB != nil && IsLoadOfField(idA, fRecId) && IsLoadOfField(idB, fRecId)
		c.Check(ok, rule, FuncName(ark)+"|generation id", p.Pos(ark.Pos()), orDefault(map[bool]string{false: "readKeyChanges and keys are not both extended under record.Id"}[ok], "readKeyChanges gets record.Id and keys[record.Id] is stored"))
		if len(ev) == 1 {
			by, r := MustPass(ark, ev[0], func(in ssa.Instruction) bool {
				for _, k := range keyStores {
					if in == k {
						return true
					}
				}
				return false
			}, SuccessReturns(ark), nil)
			det := "every success return after registering the generation stores keys[record.Id]"
			if len(by) > 0 {
				det = "a nil return at " + p.Pos(InstrPos(by[0])) + " is reachable after readKeyChanges was extended but without storing keys[record.Id] (witness " + r.Path(p, by[0]) + "): CurrentReadKey() would fail for every account"
			}
			c.Check(len(by) == 0, rule, FuncName(ark)+"|keys stored on success", p.Pos(ark.Pos()), det)
		}
		// own entry is decrypted under the pubKey guard and its failure propagates
		umd := p.Func(aclList + ":(*AclState).unmarshallDecryptReadKey")
		requirePropagates(c, rule, ark, CalleeFn(umd), "unmarshallDecryptReadKey")
	}
}

// usesValueDeep is usesValue that also looks through the append chains of
// slices (elements appended in loops).
func usesValueDeep(v ssa.Value, pred func(ssa.Value) bool) bool {
	if usesValue(v, pred) {
		return true
	}
	for _, ap := range appendsFeeding(v) {
		for _, e := range appendedElems(ap) {
			if usesValue(e, pred) {
				return true
			}
		}
	}
	return false
}
