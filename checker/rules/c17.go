package rules

import (
	"fmt"
	"go/token"
	"go/types"
	"strings"

	"golang.org/x/tools/go/ssa"

	. "verif/checker/core"
)

const psPkg = "commonspace/pubsub"
const psProto = "commonspace/pubsub/pubsubproto"

func init() {
	register(&Pack{
		ID: "C17",
		Explanation: "Pub/sub service, decided on SSA: (1) ingress gates — on a node, a client message reaches fanout only across IsResponsible, identity binding (non-empty handshake identity equal to the message's), CheckMember()==nil when membership is configured, topic-owner equality and rate.allow()==true; a relayed message only across IsResponsibleNode()==true; pool.Send (forwarding) is reachable only for Relayed==false and the forwarded copy is marked Relayed; handlePublish gates both roles on msg-id length, payload cap and ValidateTopic()==nil; on a client, enqueueLocalMatched is reachable only across non-empty local match, membership, ownership, isStale()==false, verifySignature()==nil, dedup.seen()==false and successful decryption when a key id is present, and the dedup ring is consulted/recorded only after verifySignature()==nil; " +
			"(2) the signed byte string reads every field of Publish except {Identity, Signature, Relayed}, and signPublish/verifySignature both use it; " +
			"(3) interest bookkeeping — service.remote / service.streams are touched only with remoteMu held (helpers documented 'caller holds remoteMu' are called only so); handleSubscribe calls pool.AddTagsCtx while still holding remoteMu and on its failure withdraws every accepted pattern and prunes before unlocking; onStreamClose removes every pattern of the stream from the tries and deletes the stream record under the lock, and is the hook registered on the private pool; " +
			"(4) lock order — the close hook calls no stream-pool method (remoteMu → pool.mu is the only order; the pool calls the hook after releasing its lock, C19.2); (5) Broadcast appends a stream once across tags (gated by the seen-set miss).",
		NotDecided: "That the trie matches exactly the documented pattern language; exact delivery sets; rate-limit arithmetic; race outcomes beyond lock discipline and pairing.",
		Run:        runC17,
	})
}

func runC17(c *Ctx) {
	p := c.P
	f := func(n string) *ssa.Function { return p.Func(psPkg + ":" + n) }
	relayPublish, handlePublish, receivePublish, fanout := f("(*service).relayPublish"), f("(*service).handlePublish"), f("(*service).receivePublish"), f("(*service).fanout")
	handleSubscribe, onStreamClose := f("(*service).handleSubscribe"), f("(*service).onStreamClose")
	runC17RecordKept(c, onStreamClose)
	removeSP, pruneStream, pruneSpace := f("(*service).removeStreamPattern"), f("(*service).pruneStream"), f("(*service).pruneSpace")
	enqueue := f("(*service).enqueueLocalMatched")
	verifySig := f("verifySignature")
	fns := p.FuncsOfPkg(psPkg)
	pub := func(n string) *types.Var { return p.Field(psProto + ":Publish." + n) }
	relayedF := pub("Relayed")

	relayedGate := func(want bool) Gate {
		return GCmp(fmt.Sprintf("p.Relayed==%v", want), func(a Atom) (bool, bool) {
			if a.Op != token.ILLEGAL || !IsLoadOfField(a.X, relayedF) {
				return false, false
			}
			return true, want
		})
	}
	depNil := func(dep string) Gate {
		df := p.Field(psPkg + ":Deps." + dep)
		return GNil("deps."+dep+" not configured", func(v ssa.Value) bool { return IsLoadOfField(v, df) }, true)
	}
	checkMember := calleeMethod("commonspace/pubsub", "CheckMember")
	ownerGate := GCmp("topic owner == sender account", func(a Atom) (bool, bool) {
		if a.Op != token.EQL && a.Op != token.NEQ {
			return false, false
		}
		isAcc := func(v ssa.Value) bool { return valueIsResultOf(v, calleeMethod("util/crypto", "Account")) }
		isOwner := func(v ssa.Value) bool { return valueIsResultOf(v, CalleeFn(f("TopicOwner"))) }
		if (isAcc(a.X) && isOwner(a.Y)) || (isAcc(a.Y) && isOwner(a.X)) {
			return true, a.Op == token.EQL
		}
		return false, false
	})
	noOwner := GCmp("topic has no owner", func(a Atom) (bool, bool) {
		if a.Op != token.EQL && a.Op != token.NEQ {
			return false, false
		}
		k, ok := a.Y.(*ssa.Const)
		if !ok || k.Value == nil || k.Value.ExactString() != `""` || !valueIsResultOf(a.X, CalleeFn(f("TopicOwner"))) {
			return false, false
		}
		return true, a.Op == token.EQL
	})

	// ---- C17.1 ingress gates: node
	{
		fo := CallSinks(relayPublish, CalleeFn(fanout), false)
		isResp := calleeMethod("commonspace/pubsub", "IsResponsible")
		c.RequireGate("C17.1-relay-ingress", relayPublish, GBool("Relay.IsResponsible(space)==true", isResp, 0, true), fo, "fanout")
		rel := relayedGate(true)
		notRel := relayedGate(false)
		c.RequireAnyGate("C17.1-relay-ingress", relayPublish, []Gate{GBool("Relay.IsResponsibleNode(space, peer)==true", calleeMethod("commonspace/pubsub", "IsResponsibleNode"), 0, true), notRel}, nil, fo, "fanout", nil, false)
		// the package's own bytesEqual or the standard bytes.Equal
		bytesEqFn := p.FuncOpt(psPkg + ":bytesEqual")
		stdBytesEq := p.PkgFunc("bytes:Equal")
		be := GBool("bytesEqual(ctxIdentity, p.Identity)==true", func(cc *ssa.CallCommon) bool {
			if bytesEqFn != nil && CalleeFn(bytesEqFn)(cc) {
				return true
			}
			return CalleeIs(stdBytesEq)(cc) && len(cc.Args) == 2 && (IsLoadOfField(cc.Args[0], pub("Identity")) || IsLoadOfField(cc.Args[1], pub("Identity")))
		}, 0, true)
		c.RequireAnyGate("C17.1-relay-ingress", relayPublish, []Gate{be, rel}, nil, fo, "fanout", nil, false)
		// non-empty identities
		lenNZ := func(desc string, isV func(ssa.Value) bool) Gate {
			return GCmp(desc, func(a Atom) (bool, bool) {
				if a.Op != token.EQL && a.Op != token.NEQ {
					return false, false
				}
				call, ok := a.X.(*ssa.Call)
				if !ok {
					return false, false
				}
				b, ok := call.Call.Value.(*ssa.Builtin)
				if !ok || b.Name() != "len" || !isV(call.Call.Args[0]) {
					return false, false
				}
				if k, isK := IntConst(a.Y); !isK || k != 0 {
					return false, false
				}
				return true, a.Op == token.NEQ
			})
		}
		ctxId := calleeMethod("net/peer", "CtxIdentity")
		_ = ctxId
		c.RequireAnyGate("C17.1-relay-ingress", relayPublish, []Gate{lenNZ("len(ctxIdentity)!=0", func(v ssa.Value) bool {
			return valueIsResultOf(v, func(cc *ssa.CallCommon) bool { o := CalleeObj(cc); return o != nil && o.Name() == "CtxIdentity" })
		}), rel}, nil, fo, "fanout", nil, false)
		c.RequireAnyGate("C17.1-relay-ingress", relayPublish, []Gate{lenNZ("len(p.Identity)!=0", func(v ssa.Value) bool { return IsLoadOfField(v, pub("Identity")) }), rel}, nil, fo, "fanout", nil, false)
		c.RequireAnyGate("C17.1-relay-ingress", relayPublish, []Gate{GErrNil("Membership.CheckMember()==nil", checkMember), depNil("Membership"), rel}, nil, fo, "fanout", nil, false)
		c.RequireAnyGate("C17.1-relay-ingress", relayPublish, []Gate{ownerGate, noOwner, rel}, nil, fo, "fanout", nil, false)
		c.RequireAnyGate("C17.1-relay-ingress", relayPublish, []Gate{GBool("rate.allow(peer)==true", CalleeFn(f("(*peerRateLimiter).allow")), 0, true), rel}, nil, fo, "fanout", nil, false)
		// forwarding only for non-relayed, copy marked relayed
		send := calleeMethod("net/streampool", "Send")
		sends := CallSinks(relayPublish, send, false)
		c.RequireGate("C17.1-never-reforward", relayPublish, notRel, sends, "pool.Send (forward to other nodes)")
		okMark := false
		for _, w := range FieldWrites([]*ssa.Function{relayPublish}, relayedF) {
			if b, isC := BoolConst(w.Val); isC && b {
				okMark = true
			}
		}
		c.Check(okMark, "C17.1-never-reforward", FuncName(relayPublish)+"|forwarded copy has Relayed=true", p.Pos(relayPublish.Pos()), "the copy forwarded to the other responsible nodes is marked Relayed")
		whoMayCall(c, "C17.1-never-reforward", fns, send, "streampool.Send", map[*ssa.Function]string{relayPublish: "forward once, non-relayed only", f("(*service).Publish"): "local publish", f("(*service).sendInterest"): "interest push", f("(*service).SyncInterest"): "interest push to a space's peers",f("(*service).sendStatusMsg"): "status reply"})
	}
	// handlePublish
	{
		sinks := CallSinks(handlePublish, CalleeFn(relayPublish, receivePublish), false)
		msgIdLen := constVal(p, psPkg, "msgIdLen")
		idLen := GCmp("len(p.MsgId)==msgIdLen", func(a Atom) (bool, bool) {
			if a.Op != token.EQL && a.Op != token.NEQ {
				return false, false
			}
			call, ok := a.X.(*ssa.Call)
			if !ok {
				return false, false
			}
			b, ok := call.Call.Value.(*ssa.Builtin)
			if !ok || b.Name() != "len" || !IsLoadOfField(call.Call.Args[0], pub("MsgId")) {
				return false, false
			}
			k, isK := a.Y.(*ssa.Const)
			if !isK || k.Value == nil || k.Value.ExactString() != msgIdLen {
				return false, false
			}
			return true, a.Op == token.EQL
		})
		c.RequireGate("C17.1-publish-shape", handlePublish, idLen, sinks, "dispatch to relay/receive")
		capG := GCmp("len(p.Payload) <= cfg.MaxPayloadSize", func(a Atom) (bool, bool) {
			isLenPayload := func(v ssa.Value) bool {
				call, ok := v.(*ssa.Call)
				if !ok {
					return false
				}
				b, ok := call.Call.Value.(*ssa.Builtin)
				return ok && b.Name() == "len" && IsLoadOfField(call.Call.Args[0], pub("Payload"))
			}
			switch a.Op {
			case token.GTR:
				if isLenPayload(a.X) {
					return true, false
				}
			case token.LEQ:
				if isLenPayload(a.X) {
					return true, true
				}
			}
			return false, false
		})
		c.RequireGate("C17.1-publish-shape", handlePublish, capG, sinks, "dispatch to relay/receive")
		c.RequireGate("C17.1-publish-shape", handlePublish, GErrNil("ValidateTopic()==nil", CalleeFn(f("ValidateTopic"))), sinks, "dispatch to relay/receive")
	}
	// receivePublish
	{
		sinks := CallSinks(receivePublish, CalleeFn(enqueue), false)
		seen := CalleeFn(f("(*msgIdDedup).seen"))
		vs := GErrNil("verifySignature()==nil", CalleeFn(verifySig))
		c.RequireGate("C17.1-client-ingress", receivePublish, vs, sinks, "enqueueLocalMatched")
		c.RequireGate("C17.1-client-ingress", receivePublish, GBool("dedup.seen(msgId)==false", seen, 0, false), sinks, "enqueueLocalMatched")
		if isStale := p.FuncOpt(psPkg + ":(*service).isStale"); isStale != nil {
			c.RequireGate("C17.1-client-ingress", receivePublish, GBool("isStale(ts)==false", CalleeFn(isStale), 0, false), sinks, "enqueueLocalMatched")
		} else {
			// isStale inlined into its only caller: the window test itself gates delivery —
			// (now - p.TimestampMilli) compared with ±MaxTimestampSkew on both sides, or no timestamp
			tsF := pub("TimestampMilli")
			skewF := p.Field(psPkg + ":Config.MaxTimestampSkew")
			isDelta := func(v ssa.Value) bool {
				bo, ok := v.(*ssa.BinOp)
				return ok && bo.Op == token.SUB && (IsLoadOfField(bo.X, tsF) || IsLoadOfField(bo.Y, tsF))
			}
			isSkew := func(v ssa.Value, neg bool) bool {
				if u, ok := v.(*ssa.UnOp); ok && u.Op == token.SUB {
					return neg && usesValue(u.X, isFieldLoadPred(skewF))
				}
				return !neg && usesValue(v, isFieldLoadPred(skewF))
			}
			window := func(name string, neg bool) Gate {
				return GCmp(name, func(a Atom) (bool, bool) {
					// upper: delta > skew fails; lower: delta < -skew fails
					big, small := token.GTR, token.LSS
					if neg {
						big, small = token.LSS, token.GTR
					}
					if (a.Op == big || (a.Op == token.GEQ && !neg) || (a.Op == token.LEQ && neg)) && isDelta(a.X) && isSkew(a.Y, neg) {
						return true, false
					}
					if (a.Op == small || (a.Op == token.LEQ && !neg) || (a.Op == token.GEQ && neg)) && isDelta(a.Y) && isSkew(a.X, neg) {
						return true, false
					}
					return false, false
				})
			}
			noTs := GCmp("p.TimestampMilli == 0", func(a Atom) (bool, bool) {
				if (a.Op != token.EQL && a.Op != token.NEQ) || !IsLoadOfField(a.X, tsF) {
					return false, false
				}
				if k, isK := IntConst(a.Y); !isK || k != 0 {
					return false, false
				}
				return true, a.Op == token.EQL
			})
			c.RequireAnyGate("C17.1-client-ingress", receivePublish, []Gate{window("now - ts <= MaxTimestampSkew", false), noTs}, nil, sinks, "enqueueLocalMatched", nil, false)
			c.RequireAnyGate("C17.1-client-ingress", receivePublish, []Gate{window("now - ts >= -MaxTimestampSkew", true), noTs}, nil, sinks, "enqueueLocalMatched", nil, false)
		}
		c.RequireAnyGate("C17.1-client-ingress", receivePublish, []Gate{GErrNil("Membership.CheckMember()==nil", checkMember), depNil("Membership")}, nil, sinks, "enqueueLocalMatched", nil, false)
		c.RequireAnyGate("C17.1-client-ingress", receivePublish, []Gate{ownerGate, noOwner}, nil, sinks, "enqueueLocalMatched", nil, false)
		noKey := GCmp("p.KeyId == \"\"", func(a Atom) (bool, bool) {
			if (a.Op != token.EQL && a.Op != token.NEQ) || !IsLoadOfField(a.X, pub("KeyId")) {
				return false, false
			}
			return true, a.Op == token.EQL
		})
		c.RequireAnyGate("C17.1-client-ingress", receivePublish, []Gate{GErrNil("Crypto.Decrypt()==nil", calleeMethod("commonspace/pubsub", "Decrypt")), noKey}, nil, sinks, "enqueueLocalMatched", nil, false)
		// dedup only after verify
		c.RequireGate("C17.1-dedup-after-verify", receivePublish, vs, CallSinksX(receivePublish, seen, false), "dedup.seen (consults AND records the id)")
		// the verified key is the one decoded from the message identity; signature over publishSignData
		psd := f("publishSignData")
		for _, cs := range CallSinks(verifySig, cryptoVerify, false) {
			a := callArgs(cs.(*ssa.Call).Common())
			ok := valueIsResultOf(a[0], CalleeFn(psd)) && IsLoadOfField(a[1], pub("Signature"))
			c.Check(ok, "C17.2-signature-coverage", FuncName(verifySig)+"|Verify(publishSignData(p), p.Signature)", p.Pos(InstrPos(cs)), "the signature is verified over publishSignData(p)")
		}
		c.RequireGate("C17.2-signature-coverage", verifySig, GBool("pubKey.Verify()==true", cryptoVerify, 0, true), SuccessReturns(verifySig), "nil return")
		sp := f("signPublish")
		c.Check(ContainsCall(sp, CalleeFn(psd)), "C17.2-signature-coverage", FuncName(sp)+"|signs publishSignData(p)", p.Pos(sp.Pos()), "signPublish signs the same byte string")
		// field coverage
		st := p.Type(psProto + ":Publish").Underlying().(*types.Struct)
		excluded := map[string]bool{"Identity": true, "Signature": true, "Relayed": true}
		for i := 0; i < st.NumFields(); i++ {
			fl := st.Field(i)
			if !fl.Exported() {
				continue
			}
			// a read that only feeds len() (buffer pre-sizing) does not put the field into the signed bytes
			read := false
			for _, r := range FieldReads([]*ssa.Function{psd}, fl) {
				v, isV := r.(ssa.Value)
				if !isV || v.Referrers() == nil {
					continue
				}
				for _, ref := range *v.Referrers() {
					if cc, isCall := ref.(*ssa.Call); isCall {
						if b, isB := cc.Call.Value.(*ssa.Builtin); isB && b.Name() == "len" {
							continue
						}
					}
					if _, isDbg := ref.(*ssa.DebugRef); isDbg {
						continue
					}
					read = true
				}
			}
			if excluded[fl.Name()] {
				c.Check(!read, "C17.2-signature-coverage", FuncName(psd)+"|excludes "+fl.Name(), p.Pos(psd.Pos()), fl.Name()+" is (by design) outside the signed bytes")
			} else {
				c.Check(read, "C17.2-signature-coverage", FuncName(psd)+"|covers "+fl.Name(), p.Pos(psd.Pos()), "field "+fl.Name()+" of Publish is part of the signed bytes (an uncovered field can be altered by a relay)")
			}
		}
		c.Min("C17.2-signature-coverage", 10)
	}

	// ---- C17.3 interest bookkeeping
	la := NewLockAnalysis()
	remoteMu := LockKey{Obj: p.Field(psPkg + ":service.remoteMu")}
	// helpers documented "caller holds remoteMu"
	for _, h := range []*ssa.Function{removeSP, pruneStream, pruneSpace} {
		la.SetEntry(h, remoteMu)
	}
	for _, fn := range fns {
		la.Analyze(fn)
	}
	for _, h := range []*ssa.Function{removeSP, pruneStream, pruneSpace} {
		for _, cs := range Callers(fns, CalleeFn(h)) {
			if TopFunc(cs.Fn) == removeSP || TopFunc(cs.Fn) == pruneStream || TopFunc(cs.Fn) == pruneSpace {
				continue
			}
			c.Check(la.Must(cs.Instr)[remoteMu], "C17.3-guarded-by", FuncName(cs.Fn)+"|calls "+h.Name()+" under remoteMu", p.Pos(InstrPos(cs.Instr)), h.Name()+" (caller holds remoteMu) is called with remoteMu held")
		}
	}
	for _, fname := range []string{"remote", "streams"} {
		fld := p.Field(psPkg + ":service." + fname)
		chk := func(fn *ssa.Function, in ssa.Instruction, kind string) {
			if n := TopFunc(fn).Name(); n == "New" || n == "Init" {
				return // construction, before the service is shared
			}
			c.Check(la.Must(in)[remoteMu], "C17.3-guarded-by", FuncName(fn)+"|service."+fname+"|"+kind, p.Pos(InstrPos(in)), kind+" of service."+fname+" with remoteMu held")
		}
		for _, w := range FieldWrites(fns, fld) {
			if w.Kind != "init" {
				chk(w.Fn, w.Instr, w.Kind)
			}
		}
		for _, r := range FieldReads(fns, fld) {
			chk(r.Parent(), r, "read")
		}
	}
	c.Min("C17.3-guarded-by", 15)
	{
		addTags := calleeMethod("net/streampool", "AddTagsCtx")
		// the critical section may have been moved into a function of its own
		handleSubscribe, _ := descendTo(handleSubscribe, addTags)
		c.Fn(FuncName(handleSubscribe))
		ats := CallSinks(handleSubscribe, addTags, false)
		for _, cs := range ats {
			c.Check(la.Must(cs)[remoteMu], "C17.3-subscribe-atomic", FuncName(handleSubscribe)+"|AddTagsCtx under remoteMu", p.Pos(InstrPos(cs)), "interest record and stream tagging are one critical section w.r.t. onStreamClose")
		}
		if len(ats) == 0 {
			c.Violate("C17.3-subscribe-atomic", FuncName(handleSubscribe)+"|AddTagsCtx", p.Pos(handleSubscribe.Pos()), "handleSubscribe no longer tags the stream")
		}
		// failure edge: removeStreamPattern + pruneStream + pruneSpace before the unlock
		g := GErrNil("pool.AddTagsCtx()==nil", addTags)
		fail := g.FailEdges(handleSubscribe)
		bad := ""
		if len(fail) == 0 {
			bad = "the error of AddTagsCtx is not tested"
		}
		var starts []*ssa.BasicBlock
		for e := range fail {
			starts = append(starts, e.From.Succs[e.Succ])
		}
		isUnlock := func(in ssa.Instruction) bool {
			cc, ok := in.(*ssa.Call)
			if !ok {
				return false
			}
			o := CalleeObj(&cc.Call)
			if o == nil || o.Name() != "Unlock" || len(cc.Call.Args) == 0 {
				return false
			}
			fa, ok := cc.Call.Args[0].(*ssa.FieldAddr)
			return ok && FieldOf(fa) == remoteMu.Obj
		}
		// `defer remoteMu.Unlock()`: the lock is released at every return
		deferredUnlock := false
		Instrs(handleSubscribe, func(in ssa.Instruction) {
			if d, ok := in.(*ssa.Defer); ok {
				if o := CalleeObj(&d.Call); o != nil && o.Name() == "Unlock" && len(d.Call.Args) > 0 {
					if fa, ok := d.Call.Args[0].(*ssa.FieldAddr); ok && FieldOf(fa) == remoteMu.Obj {
						deferredUnlock = true
					}
				}
			}
		})
		if deferredUnlock {
			explicit := isUnlock
			isUnlock = func(in ssa.Instruction) bool {
				if _, isRet := in.(*ssa.Return); isRet {
					return true
				}
				return explicit(in)
			}
		}
		for _, must := range []*ssa.Function{removeSP, pruneStream, pruneSpace} {
			cut := CutAtCall(CalleeFn(must))
			// a call made for every element of a loop: passing the loop counts
			for _, cs := range CallSinks(handleSubscribe, CalleeFn(must), false) {
				if l := InnermostLoop(Loops(handleSubscribe), cs); l != nil && cs.Block().Dominates(l.Latches[0]) {
					hdr := l.Header
					inner := cut
					cut = func(in ssa.Instruction) bool { return inner(in) || in.Block() == hdr }
				}
			}
			r := Reach(handleSubscribe, ReachOpts{Starts: starts, Cut: cut})
			Instrs(handleSubscribe, func(in ssa.Instruction) {
				if isUnlock(in) && r.Reachable(in) && len(starts) > 0 {
					bad = "after a failed AddTagsCtx the lock is released without " + must.Name() + " (accepted patterns leak)"
				}
			})
		}
		c.Check(bad == "", "C17.3-subscribe-atomic", FuncName(handleSubscribe)+"|rollback on AddTagsCtx failure", p.Pos(handleSubscribe.Pos()), orDefault(bad, "a failed tagging withdraws every accepted pattern and prunes stream and space records before unlocking"))
		// accept path pairs set insert, total++ and trie.Add
		trieAdd := CalleeFn(f("(*patternTrie).Add"))
		totalF := p.Field(psPkg + ":streamInterest.total")
		okPair := true
		for _, cs := range CallSinks(handleSubscribe, trieAdd, false) {
			blk := cs.Block()
			hasTotal, hasSet := false, false
			for _, b := range handleSubscribe.Blocks {
				if !(b == blk || (b.Dominates(blk) && blk.Dominates(b))) && b != blk {
					continue
				}
				for _, in := range b.Instrs {
					if st, ok := in.(*ssa.Store); ok {
						if fa, ok := st.Addr.(*ssa.FieldAddr); ok && FieldOf(fa) == totalF {
							hasTotal = true
						}
					}
					if _, ok := in.(*ssa.MapUpdate); ok {
						hasSet = true
					}
				}
			}
			if !hasTotal || !hasSet {
				okPair = false
			}
		}
		c.Check(okPair, "C17.3-subscribe-atomic", FuncName(handleSubscribe)+"|accept pairs set, counter, trie", p.Pos(handleSubscribe.Pos()), "accepting a pattern inserts it into the stream's set, bumps the counter and adds it to the space trie together")
	}
	{
		// removeStreamPattern pairs delete + total-- + trie.Remove
		trieRemove := CalleeFn(f("(*patternTrie).Remove"))
		totalF := p.Field(psPkg + ":streamInterest.total")
		hasDel := false
		Instrs(removeSP, func(in ssa.Instruction) {
			if cc, ok := in.(*ssa.Call); ok {
				if b, isB := cc.Call.Value.(*ssa.Builtin); isB && b.Name() == "delete" {
					hasDel = true
				}
			}
		})
		ok := hasDel && len(FieldWrites([]*ssa.Function{removeSP}, totalF)) > 0 && ContainsCall(removeSP, trieRemove)
		c.Check(ok, "C17.3-withdraw-pairing", FuncName(removeSP)+"|delete + total-- + trie.Remove", p.Pos(removeSP.Pos()), "withdrawing a pattern deletes it from the stream's set, decrements the counter and removes it from the trie")
		// onStreamClose
		el := LockAtEntry(onStreamClose)
		_ = el
		held := true
		nRemove := 0
		for _, cs := range CallSinks(onStreamClose, trieRemove, false) {
			nRemove++
			if !la.Must(cs)[remoteMu] {
				held = false
			}
			// inside nested loops over bySpace and its patterns
			if InnermostLoop(Loops(onStreamClose), cs) == nil {
				held = false
			}
		}
		del := false
		for _, w := range FieldWrites([]*ssa.Function{onStreamClose}, p.Field(psPkg+":service.streams")) {
			if w.Kind == "mapdelete" && la.Must(w.Instr)[remoteMu] {
				del = true
			}
		}
		c.Check(held && nRemove > 0 && del && ContainsCall(onStreamClose, CalleeFn(pruneSpace)), "C17.3-stream-close", FuncName(onStreamClose)+"|withdraws everything of the stream", p.Pos(onStreamClose.Pos()),
			"onStreamClose removes every pattern of every space of the stream from the tries, prunes the spaces and deletes the stream record, all under remoteMu")
		// registered as hook
		hookOpt := p.Func("net/streampool:WithStreamCloseHook")
		reg := false
		for _, fn := range fns {
			for _, cs := range CallSinks(fn, CalleeFn(hookOpt), false) {
				a := cs.(*ssa.Call).Call.Args[0]
				if mc, ok := a.(*ssa.MakeClosure); ok {
					if bf, ok := mc.Fn.(*ssa.Function); ok && (bf == onStreamClose || strings.Contains(bf.Name(), "onStreamClose")) {
						reg = true
					}
				}
			}
		}
		c.Check(reg, "C17.3-stream-close", "pubsub private pool|WithStreamCloseHook(s.onStreamClose)", p.Pos(onStreamClose.Pos()), "the cleanup is registered as the close hook of the private stream pool")
		// C17.4 the hook calls no stream pool method
		poolCalls := 0
		clo := StaticClosure([]*ssa.Function{onStreamClose}, func(fn *ssa.Function) bool { return IsRepoFunc(fn) && strings.Contains(FuncName(fn), "pubsub") })
		for _, fn := range clo {
			for _, cs := range CallsIn(fn) {
				if o := CalleeObj(cs.Common()); o != nil && o.Pkg() != nil && strings.HasSuffix(o.Pkg().Path(), "net/streampool") && o.Type().(*types.Signature).Recv() != nil {
					poolCalls++
				}
			}
		}
		c.Check(poolCalls == 0, "C17.4-lock-order", FuncName(onStreamClose)+"|no pool call from the close hook", p.Pos(onStreamClose.Pos()), "the close hook (which takes remoteMu) never calls into the stream pool: remoteMu → pool.mu is the only order")
	}

	// ---- C17.5 one copy per stream in Broadcast
	{
		bc := p.Func(spPkg + ":(*streamPool).Broadcast")
		var app []ssa.Instruction
		collect := func(fn *ssa.Function) {
			Instrs(fn, func(in ssa.Instruction) {
				if cc, ok := in.(*ssa.Call); ok {
					if b, isB := cc.Call.Value.(*ssa.Builtin); isB && b.Name() == "append" && strings.Contains(cc.Type().String(), "stream") {
						app = append(app, in)
					}
				}
			})
		}
		collect(bc)
		if len(app) == 0 {
			// the collecting section was extracted into a new helper of Broadcast
			for _, ci := range CallsIn(bc) {
				if h := CalleeFunc(ci.Common()); h != nil && h.Blocks != nil && IsNewFunc(h) {
					collect(h)
					if len(app) > 0 {
						bc = h
						break
					}
				}
			}
		}
		c.Fn(FuncName(bc))
		miss := GCmp("stream id not yet in seen-set", func(a Atom) (bool, bool) {
			if a.Op != token.ILLEGAL {
				return false, false
			}
			ex, ok := a.X.(*ssa.Extract)
			if !ok || ex.Index != 1 {
				return false, false
			}
			if _, isL := ex.Tuple.(*ssa.Lookup); !isL {
				return false, false
			}
			return true, false
		})
		single := GNil("single tag (no seen-set)", func(v ssa.Value) bool { _, isMap := v.Type().Underlying().(*types.Map); return isMap }, true)
		c.RequireAnyGate("C17.5-one-copy-per-stream", bc, []Gate{miss, single}, nil, app, "append stream to the fan-out list", nil, false)
	}

	// ---- C17.6 withdrawing one subscription never removes another's interest: patternTrie.remove
	// deletes a trie node only when no pattern terminates at it any more (refs == 0). An interior
	// node that terminates a shorter, still subscribed pattern must survive the withdrawal of a
	// longer pattern that passes through it.
	{
		rm := p.Func(psPkg + ":(*patternTrie).remove")
		c.Fn(FuncName(rm))
		refsF := p.Field(psPkg + ":trieNode.refs")
		noRefs := GCmp("node.refs == 0", func(a Atom) (bool, bool) {
			if !IsLoadOfField(a.X, refsF) {
				return false, false
			}
			k, ok := IntConst(a.Y)
			if !ok || k != 0 {
				return false, false
			}
			switch a.Op {
			case token.EQL:
				return true, true
			case token.NEQ, token.GTR:
				return true, false
			}
			return false, false
		})
		del := CallSinks(rm, calleeMethod("commonspace/pubsub", "deleteChild"), false)
		if len(del) == 0 {
			c.Hold("C17.6-prune-only-unreferenced", FuncName(rm)+"|deleteChild", p.Pos(rm.Pos()), "remove never deletes a node")
		} else {
			// the refs test that matters is the one on the unwind path; `refs == 0 → return` at the
			// terminal also matches the gate, so demand the pass edge on every path into the delete
			c.RequireGate("C17.6-prune-only-unreferenced", rm, noRefs, del, "level.deleteChild (prune)")
		}
	}
}
