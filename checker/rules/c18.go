package rules

import (
	"fmt"
	"go/token"
	"strings"

	"golang.org/x/tools/go/ssa"

	. "verif/checker/core"
)

const ncPkg = "nodeconf"

func init() {
	register(&Pack{
		ID: "C18",
		Explanation: "Responsible-node computation, decided on SSA: (1) sibling agreement — nodeConf.NodeIds, IsResponsible and Partition all query the SAME ring field (nodeConf.chash) with ReplKey(spaceId) of their own parameter; NodeIds drops exactly the entries equal to accountId, IsResponsible answers true only across m.Id()==accountId; ReplKey returns the suffix after the LAST dot of its argument (or the argument itself); " +
			"(2) ring membership — the member slice handed to chash.AddMembers of that ring is appended to only across HasType(NodeTypeTree)==true, and the ring is built with the package constants PartitionCount / ReplicationFactor; " +
			"(3) viewpoint independence — the closure of configuration→nodeConf and the three queries contains no map-order/time/random/goroutine dependence; accountId is read only in the two self-filters and when a configuration is installed; every installed nodeConf gets accountId before it is published, and service.accountId is assigned in Init before anything can install a configuration; Node.Capacity is a constant (the ring library sums capacities while ranging a map — exact only for equal capacities); " +
			"(4) each service query delegates to the same query of the current nodeConf under the read lock.",
		NotDecided: "That the ring returns min(replication factor, number of sync nodes) distinct members, and its partition arithmetic (library go-chash).",
		Run:        runC18,
	})
}

func runC18(c *Ctx) {
	p := c.P
	f := func(n string) *ssa.Function { return p.Func(ncPkg + ":" + n) }
	nodeIds, isResp, partition, replKey := f("(*nodeConf).NodeIds"), f("(*nodeConf).IsResponsible"), f("(*nodeConf).Partition"), f("ReplKey")
	conv := f("сonfigurationToNodeConf")
	chashF := p.Field(ncPkg + ":nodeConf.chash")
	accF := p.Field(ncPkg + ":nodeConf.accountId")

	// ---- C18.1 sibling agreement
	for _, q := range []struct {
		fn     *ssa.Function
		method string
	}{{nodeIds, "GetMembers"}, {isResp, "GetMembers"}, {partition, "GetPartition"}} {
		n := 0
		ok := true
		var scan func(fn *ssa.Function, depth int)
		scan = func(fn *ssa.Function, depth int) {
			for _, cs := range CallsIn(fn) {
				// the ring query extracted into a new helper: look inside, the helper's parameters
				// standing for this call's arguments
				if h := CalleeFunc(cs.Common()); h != nil && h.Blocks != nil && IsNewFunc(h) && depth < 2 {
					if call, isCall := cs.(*ssa.Call); isCall {
						BindParams(h, call, func() { scan(h, depth+1) })
						continue
					}
				}
				o := CalleeObj(cs.Common())
				if o == nil || o.Pkg() == nil || !strings.HasSuffix(o.Pkg().Path(), "go-chash") || o.Name() == "Id" || o.Name() == "Capacity" {
					continue
				}
				n++
				cc := cs.Common()
				if o.Name() != q.method || !IsLoadOfField(cc.Value, chashF) {
					ok = false
					continue
				}
				arg := cc.Args[0]
				if !valueIsResultOf(arg, func(c2 *ssa.CallCommon) bool {
					return CalleeFn(replKey)(c2) && originatesFromParam(c2.Args[0], q.fn.Params[1])
				}) {
					ok = false
				}
			}
		}
		scan(q.fn, 0)
		c.Check(ok && n == 1, "C18.1-sibling-agreement", FuncName(q.fn)+"|chash."+q.method+"(ReplKey(spaceId))", p.Pos(q.fn.Pos()),
			"queries the sync-node ring (nodeConf.chash) exactly once with ReplKey of its own spaceId parameter")
	}
	idEqAcc := func(passEq bool) Gate {
		return GCmp(fmt.Sprintf("m.Id()==accountId is %v", passEq), func(a Atom) (bool, bool) {
			if a.Op != token.EQL && a.Op != token.NEQ {
				return false, false
			}
			isId := func(v ssa.Value) bool { return valueIsResultOf(v, calleeMethod("go-chash", "Id")) }
			if (isId(a.X) && IsLoadOfField(a.Y, accF)) || (isId(a.Y) && IsLoadOfField(a.X, accF)) {
				return true, (a.Op == token.EQL) == passEq
			}
			return false, false
		})
	}
	{
		var apps []ssa.Instruction
		Instrs(nodeIds, func(in ssa.Instruction) {
			if cc, ok := in.(*ssa.Call); ok {
				if b, isB := cc.Call.Value.(*ssa.Builtin); isB && b.Name() == "append" {
					apps = append(apps, in)
				}
			}
		})
		c.RequireGate("C18.1-self-filter", nodeIds, idEqAcc(false), apps, "append of a member id")
		// nothing else filters: the only Ifs in the loop body are the loop test and the self filter
		nIf := 0
		Instrs(nodeIds, func(in ssa.Instruction) {
			if _, ok := in.(*ssa.If); ok {
				nIf++
			}
		})
		c.Check(nIf <= 2, "C18.1-self-filter", FuncName(nodeIds)+"|no other filter", p.Pos(nodeIds.Pos()), fmt.Sprintf("%d branch(es): the loop test and the self filter only", nIf))
		var trueRets []ssa.Instruction
		for _, r := range Returns(isResp) {
			if b, isC := BoolConst(r.(*ssa.Return).Results[0]); isC && !b {
				continue
			}
			trueRets = append(trueRets, r)
		}
		// `return slices.ContainsFunc(members, isSelf)`: the answer is computed; true must imply the test held
		gTrue := idEqAcc(true)
		var rest []ssa.Instruction
		for _, r := range trueRets {
			v := r.(*ssa.Return).Results[0]
			if _, isConst := v.(*ssa.Const); !isConst && gTrue.ImpliedBy(v, true, isResp) {
				continue
			}
			rest = append(rest, r)
		}
		if len(rest) == 0 && len(trueRets) > 0 {
			c.Fn(FuncName(isResp))
			c.Hold("C18.1-self-filter", FuncName(isResp)+"|"+gTrue.Name+"|return true", p.Pos(isResp.Pos()), "the answer is computed from the test: it is true only when some member's id equals accountId")
		} else {
			c.RequireGate("C18.1-self-filter", isResp, gTrue, trueRets, "return true")
		}
	}
	{
		// ReplKey: suffix after the last dot
		li := p.PkgFunc("strings:LastIndex")
		ok := false
		det := "returns spaceId[strings.LastIndex(spaceId, \".\")+1:] or the whole id"
		for _, r := range Returns(replKey) {
			vals, _ := Origins(r.(*ssa.Return).Results[0])
			for _, v := range vals {
				if sl, isSl := v.(*ssa.Slice); isSl && sl.High == nil && originatesFromParam(sl.X, replKey.Params[0]) {
					if bo, isBO := sl.Low.(*ssa.BinOp); isBO && bo.Op == token.ADD {
						if k, isK := IntConst(bo.Y); isK && k == 1 && valueIsResultOf(bo.X, CalleeIs(li)) {
							ok = true
						}
					}
				}
			}
		}
		for _, cs := range CallsIn(replKey) {
			if o := CalleeObj(cs.Common()); o != nil && o.Pkg() != nil && o.Pkg().Path() == "strings" && o.Name() != "LastIndex" {
				ok = false
				det = "ReplKey uses strings." + o.Name() + ": the replication key must be the suffix after the LAST dot"
			}
			if o := CalleeObj(cs.Common()); o != nil && o.Name() == "LastIndex" {
				if k, isK := cs.Common().Args[1].(*ssa.Const); !isK || k.Value == nil || k.Value.ExactString() != `"."` {
					ok = false
				}
			}
		}
		c.Check(ok, "C18.1-replkey", FuncName(replKey), p.Pos(replKey.Pos()), det)
	}

	// ---- C18.2 ring membership
	{
		hasType := calleeMethod("nodeconf", "HasType")
		treeConst := constVal(p, ncPkg, "NodeTypeTree")
		addMembers := calleeMethod("go-chash", "AddMembers")
		n := 0
		for _, cs := range CallSinks(conv, addMembers, false) {
			cc := cs.(*ssa.Call).Common()
			if !IsLoadOfField(cc.Value, chashF) {
				continue
			}
			n++
			// the slice argument: every append building it is gated by HasType(NodeTypeTree)
			var apps []ssa.Instruction
			// the list may be built by a helper the classification loop was extracted into
			inFn, listVal := resolveProducer(conv, cc.Args[0])
			c.Fn(FuncName(inFn))
			Instrs(inFn, func(in ssa.Instruction) {
				call, ok := in.(*ssa.Call)
				if !ok {
					return
				}
				b, isB := call.Call.Value.(*ssa.Builtin)
				if !isB || b.Name() != "append" {
					return
				}
				if shareOriginDeep(call, listVal) {
					apps = append(apps, in)
				}
			})
			g := GBool("n.HasType(NodeTypeTree)==true", func(c2 *ssa.CallCommon) bool {
				if !hasType(c2) {
					return false
				}
				a := callArgs(c2)
				k, isK := a[len(a)-1].(*ssa.Const)
				return isK && k.Value != nil && k.Value.ExactString() == treeConst
			}, 0, true)
			c.RequireGate("C18.2-ring-membership", inFn, g, apps, "append to the sync-node ring members")
		}
		c.Check(n == 1, "C18.2-ring-membership", FuncName(conv)+"|chash.AddMembers", p.Pos(conv.Pos()), "the sync-node ring receives its members exactly once")
		// ring parameters
		cfgPC := p.Field("github.com/anyproto/go-chash:Config.PartitionCount")
		cfgRF := p.Field("github.com/anyproto/go-chash:Config.ReplicationFactor")
		okPC, okRF := false, false
		// (the ring construction may sit in a helper new since the anchor snapshot, taking the
		// factor as a parameter: the constants are then the arguments of its calls)
		region := regionFuncs(conv)
		constsOf := func(v ssa.Value) []string {
			if k, isK := v.(*ssa.Const); isK && k.Value != nil {
				return []string{k.Value.ExactString()}
			}
			pm, isPm := v.(*ssa.Parameter)
			if !isPm {
				return nil
			}
			var out []string
			for _, f := range region {
				for _, ci := range CallsIn(f) {
					if CalleeFunc(ci.Common()) != pm.Parent() {
						continue
					}
					for i, hp := range pm.Parent().Params {
						if hp == pm && i < len(ci.Common().Args) {
							if k, isK := ci.Common().Args[i].(*ssa.Const); isK && k.Value != nil {
								out = append(out, k.Value.ExactString())
							} else {
								out = append(out, "?")
							}
						}
					}
				}
			}
			return out
		}
		nPC, badPC := 0, false
		for _, w := range FieldWrites(region, cfgPC) {
			vs := constsOf(w.Val)
			if len(vs) == 0 {
				badPC = true
			}
			for _, s := range vs {
				nPC++
				if s != constVal(p, ncPkg, "PartitionCount") {
					badPC = true
				}
			}
		}
		okPC = nPC > 0 && !badPC
		rfVals := map[string]bool{}
		for _, w := range FieldWrites(region, cfgRF) {
			for _, s := range constsOf(w.Val) {
				rfVals[s] = true
			}
		}
		okRF = rfVals[constVal(p, ncPkg, "ReplicationFactor")]
		c.Check(okPC && okRF, "C18.2-ring-membership", FuncName(conv)+"|ring parameters", p.Pos(conv.Pos()), "the ring is configured with the package constants PartitionCount and ReplicationFactor")
	}

	// ---- C18.3 viewpoint independence
	{
		clo := StaticClosure([]*ssa.Function{conv, nodeIds, isResp, partition, replKey}, IsRepoFunc)
		finds := NondetScan(clo, nil)
		for _, fn := range clo {
			c.Fn(FuncName(fn))
		}
		if len(finds) == 0 {
			c.Hold("C18.3-viewpoint-independence", "nodeconf closure|nondeterminism-sources", p.Pos(conv.Pos()), fmt.Sprintf("%d functions: no map-order / time / random / goroutine dependence", len(clo)))
		}
		for _, fd := range finds {
			c.Violate("C18.3-viewpoint-independence", FuncName(fd.Fn)+"|"+fd.Kind, p.Pos(InstrPos(fd.Instr)), fd.Detail)
		}
		// accountId readers
		allowed := map[string]bool{"NodeIds": true, "IsResponsible": true}
		for _, r := range FieldReads(p.FuncsOfPkg(ncPkg), accF) {
			ok := allowedVia(p, r.Parent(), func(f *ssa.Function) bool { return allowed[f.Name()] })
			c.Check(ok, "C18.3-viewpoint-independence", FuncName(r.Parent())+"|reads nodeConf.accountId", p.Pos(InstrPos(r)), "the participant's own id influences only the self filters, never which nodes are responsible")
		}
		// installed before publishing
		setLast := f("(*service).setLastConfiguration")
		setLastTop := setLast
		lastF := p.Field(ncPkg + ":service.last")
		setLast = descendToWrites(setLast, lastF) // the locked half may have been split off
		c.Fn(FuncName(setLast))
		var pubs []ssa.Instruction
		for _, w := range FieldWrites([]*ssa.Function{setLast}, lastF) {
			pubs = append(pubs, w.Instr)
		}
		isAccStore := func(in ssa.Instruction) bool {
			st, ok := in.(*ssa.Store)
			if !ok {
				return false
			}
			fa, ok := st.Addr.(*ssa.FieldAddr)
			return ok && FieldOf(fa) == accF && IsLoadOfField(st.Val, p.Field(ncPkg+":service.accountId"))
		}
		r := Reach(setLast, ReachOpts{Cut: isAccStore})
		bad := len(pubs) == 0
		for _, pb := range pubs {
			if r.Reachable(pb) {
				bad = true
			}
		}
		c.Check(!bad, "C18.3-account-id-installed", FuncName(setLast)+"|accountId before publish", p.Pos(setLast.Pos()), "the new nodeConf receives service.accountId before it becomes service.last")
		for _, w := range FieldWrites(p.FuncsOfPkg(ncPkg), lastF) {
			c.Check(effectiveOwner(p, w.Fn) == setLastTop, "C18.3-account-id-installed", FuncName(w.Fn)+"|service.last writer", p.Pos(InstrPos(w.Instr)), "service.last is published only by setLastConfiguration")
		}
		// Init: service.accountId assigned before any path can install a configuration
		initFn := f("(*service).Init")
		sAcc := p.Field(ncPkg + ":service.accountId")
		isSAccStore := func(in ssa.Instruction) bool {
			st, ok := in.(*ssa.Store)
			if !ok {
				return false
			}
			fa, ok := st.Addr.(*ssa.FieldAddr)
			return ok && FieldOf(fa) == sAcc
		}
		installs := CallSinks(initFn, CalleeFn(setLastTop, f("(*service).saveAndSetLastConfiguration"), f("(*service).updateConfiguration")), false)
		r2 := Reach(initFn, ReachOpts{Cut: isSAccStore})
		bad2 := ""
		for _, in := range installs {
			if r2.Reachable(in) {
				bad2 = "a configuration can be installed at " + p.Pos(InstrPos(in)) + " before service.accountId is assigned: the active nodeConf then never recognises itself as responsible"
			}
		}
		if len(installs) == 0 {
			bad2 = "Init no longer installs a configuration (rule table out of date)"
		}
		c.Check(bad2 == "", "C18.3-account-id-installed", FuncName(initFn)+"|accountId before first install", p.Pos(initFn.Pos()), orDefault(bad2, "service.accountId is assigned before every call that can install a configuration"))
		for _, w := range FieldWrites(p.FuncsOfPkg(ncPkg), sAcc) {
			if w.Kind == "init" {
				continue
			}
			c.Check(TopFunc(w.Fn) == initFn, "C18.3-account-id-installed", FuncName(w.Fn)+"|service.accountId writer", p.Pos(InstrPos(w.Instr)), "service.accountId is written only by Init")
		}
		// Node.Capacity constant
		capFn := f("Node.Capacity")
		okCap := true
		Instrs(capFn, func(in ssa.Instruction) {
			if ret, ok := in.(*ssa.Return); ok {
				if _, isK := ret.Results[0].(*ssa.Const); !isK {
					okCap = false
				}
			}
		})
		c.Check(okCap, "C18.3-viewpoint-independence", FuncName(capFn)+"|constant capacity", p.Pos(capFn.Pos()), "every node reports the same constant capacity (the ring library's float summation over a map is order-independent only then)")
	}

	// ---- C18.4 service delegation
	for _, name := range []string{"NodeIds", "IsResponsible", "Partition"} {
		fn := f("(*service)." + name)
		lastF := p.Field(ncPkg + ":service.last")
		ok := false
		for _, cs := range CallsIn(fn) {
			o := CalleeObj(cs.Common())
			if o != nil && o.Name() == name && IsLoadOfField(cs.Common().Value, lastF) && originatesFromParam(cs.Common().Args[0], fn.Params[1]) {
				ok = true
			}
		}
		el := LockAtEntry(fn)
		c.Check(ok && el != nil && el.Deferred, "C18.4-service-delegation", FuncName(fn)+"|delegates to last."+name, p.Pos(fn.Pos()), "delegates to the same query of the current nodeConf with its own argument, under the read lock")
		// the wrapper adds no verdict of its own: every value it returns is the result of that
		// delegated call (a shortcut answering from another table, e.g. the configured node types,
		// can disagree with the ring every other participant consults)
		isDelegate := func(cc *ssa.CallCommon) bool {
			o := CalleeObj(cc)
			return o != nil && o.Name() == name && IsLoadOfField(cc.Value, lastF)
		}
		bad := ""
		for _, ri := range Returns(fn) {
			ret := ri.(*ssa.Return)
			if ret.Block() == fn.Recover {
				continue
			}
			for _, rv := range ret.Results {
				if !valueIsResultOf(rv, isDelegate) {
					bad = "a value returned at " + p.Pos(InstrPos(ret)) + " is not the result of last." + name + "(spaceId)"
				}
			}
		}
		c.Check(bad == "", "C18.4-service-delegation", FuncName(fn)+"|returns only the delegate's answer", p.Pos(fn.Pos()), orDefault(bad, "every returned value is the answer of the current nodeConf"))
	}
}

// shareOriginDeep: slice values related through append/phi chains.
func shareOriginDeep(a, b ssa.Value) bool {
	seen := map[ssa.Value]bool{}
	var reach func(v ssa.Value) map[ssa.Value]bool
	reach = func(v ssa.Value) map[ssa.Value]bool {
		out := map[ssa.Value]bool{}
		var walk func(x ssa.Value)
		walk = func(x ssa.Value) {
			if x == nil || out[x] {
				return
			}
			out[x] = true
			switch y := x.(type) {
			case *ssa.Phi:
				for _, e := range y.Edges {
					walk(e)
				}
			case *ssa.Call:
				if bi, ok := y.Call.Value.(*ssa.Builtin); ok && bi.Name() == "append" {
					walk(y.Call.Args[0])
				}
			case *ssa.Slice:
				walk(y.X)
			case *ssa.UnOp:
				vals, _ := Origins(y)
				for _, o := range vals {
					if o != x {
						walk(o)
					}
				}
			}
		}
		walk(v)
		return out
	}
	_ = seen
	ra, rb := reach(a), reach(b)
	for x := range ra {
		if rb[x] {
			if _, isC := x.(*ssa.Const); isC {
				continue
			}
			return true
		}
	}
	return false
}
