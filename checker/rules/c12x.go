package rules

import (
	"go/types"
	"strings"

	. "verif/checker/core"

	"golang.org/x/tools/go/ssa"
)

const kvSvc = "commonspace/object/keyvalue"

// runC12Exchange — C12.5: "one sync exchange makes two stores equal" has two halves that are in
// the shape of the two functions that run an exchange (round-5 seeds C12-E / C12-F):
//
//	(a) initiator (syncWithPeer): each of the four lists Diff.CompareDiff returns — new, changed,
//	    theirChanged, removed — flows into an argument of stream.Send, and a success return that is
//	    reachable from CompareDiff without any Send is taken only under conditions that read the
//	    length of all four lists (an "nothing to exchange" shortcut must look at every list);
//	(b) responder (HandleStoreElementsRequest): once it has started answering (first stream.Send),
//	    every return passes the SetRaw of the values the peer pushed — a send failure must not
//	    discard a batch that was already received.
func runC12Exchange(c *Ctx) {
	p := c.P
	isSend := func(cc *ssa.CallCommon) bool {
		o := CalleeObj(cc)
		return o != nil && o.Name() == "Send" && o.Pkg() != nil && strings.HasSuffix(o.Pkg().Path(), "spacesyncproto")
	}
	isCompare := func(cc *ssa.CallCommon) bool {
		o := CalleeObj(cc)
		return o != nil && o.Name() == "CompareDiff" && o.Pkg() != nil && strings.HasSuffix(o.Pkg().Path(), "app/ldiff")
	}
	isSetRaw := func(cc *ssa.CallCommon) bool {
		o := CalleeObj(cc)
		return o != nil && o.Name() == "SetRaw" && o.Pkg() != nil && strings.HasSuffix(o.Pkg().Path(), "keyvaluestorage")
	}

	// ---- (a) initiator
	if swp := p.FuncOpt(kvSvc + ":(*keyValueService).syncWithPeer"); swp != nil {
		c.Fn(FuncName(swp))
		names := []string{"newIds", "changedIds", "theirChangedIds", "removedIds"}
		for _, ci := range CallSinks(swp, isCompare, true) {
			call, ok := ci.(*ssa.Call)
			if !ok {
				continue
			}
			taints := make([]map[ssa.Value]bool, 4)
			for _, ref := range *call.Referrers() {
				ex, ok := ref.(*ssa.Extract)
				if !ok || ex.Index > 3 {
					continue
				}
				t, reached := forwardTaint(ex, isSend)
				taints[ex.Index] = t
				c.Check(reached, "C12.5-exchange-complete", FuncName(swp)+"|CompareDiff."+names[ex.Index]+" is exchanged", p.Pos(InstrPos(call)),
					orDefault(ifs(!reached, "the list never reaches a stream.Send: these slots are neither pushed nor requested"), "the list flows into stream.Send (pushed values / requested ids)"))
			}
			by, _ := MustPass(swp, call, CutAtCall(isSend), SuccessReturns(swp), nil)
			for _, r := range by {
				missing := []string{}
				for i := 0; i < 4; i++ {
					if taints[i] == nil || !dominatingCondsReadLen(r, taints[i]) {
						missing = append(missing, names[i])
					}
				}
				c.Check(len(missing) == 0, "C12.5-exchange-complete", FuncName(swp)+"|success return without exchange", p.Pos(InstrPos(r)),
					orDefault(ifs(len(missing) > 0, "returns success after CompareDiff without sending anything, and the conditions leading here never look at len("+strings.Join(missing, "), len(")+"): a difference only in that list is never synchronised"),
						"a shortcut return is guarded by the lengths of all four lists"))
			}
		}
		c.Min("C12.5-exchange-complete", 4)
	}

	// ---- (b) responder
	if h := p.FuncOpt(kvSvc + ":(*keyValueService).HandleStoreElementsRequest"); h != nil {
		c.Fn(FuncName(h))
		sets := CallSinks(h, isSetRaw, true)
		c.Check(len(sets) > 0, "C12.5-pushed-batch-kept", FuncName(h)+"|SetRaw of pushed values", p.Pos(h.Pos()), "the responder stores the pushed values")
		for _, s := range CallSinks(h, isSend, true) {
			by, rr := MustPass(h, s, CutAtCall(isSetRaw), Returns(h), nil)
			detail := "every return after this send passes SetRaw(pushed values)"
			if len(by) > 0 {
				detail = "a return is reachable from this send without SetRaw: the pushed values, already received, are dropped — " + rr.Path(p, by[0])
			}
			c.Check(len(by) == 0, "C12.5-pushed-batch-kept", FuncName(h)+"|after stream.Send", p.Pos(InstrPos(s)), detail)
		}
		c.Min("C12.5-pushed-batch-kept", 3)
	}
}

// forwardTaint: values data-dependent on v inside v's function (operands, stores into local
// cells/structs, call results of calls taking a tainted argument); reached reports whether a call
// matching sink takes a tainted argument.
func forwardTaint(v ssa.Value, sink CallMatcher) (map[ssa.Value]bool, bool) {
	seen := map[ssa.Value]bool{}
	reached := false
	work := []ssa.Value{v}
	push := func(x ssa.Value) {
		if x != nil && !seen[x] {
			seen[x] = true
			work = append(work, x)
		}
	}
	seen[v] = true
	for len(work) > 0 {
		x := work[len(work)-1]
		work = work[:len(work)-1]
		refs := x.Referrers()
		if refs == nil {
			continue
		}
		for _, in := range *refs {
			switch y := in.(type) {
			case *ssa.Store:
				if y.Val == x {
					root := y.Addr
					for {
						switch a := root.(type) {
						case *ssa.FieldAddr:
							root = a.X
							continue
						case *ssa.IndexAddr:
							root = a.X
							continue
						}
						break
					}
					push(root)
				}
			case *ssa.Call:
				isArg := false
				for _, a := range y.Call.Args {
					if a == x {
						isArg = true
					}
				}
				if y.Call.IsInvoke() && y.Call.Value == x {
					isArg = true
				}
				if isArg {
					if sink(&y.Call) {
						reached = true
					}
					push(y)
				}
			default:
				if val, ok := in.(ssa.Value); ok {
					push(val)
				}
			}
		}
	}
	return seen, reached
}

// dominatingCondsReadLen: some If that dominates r's block has a condition computed from
// len(x) with x in the taint set.
func dominatingCondsReadLen(r ssa.Instruction, taint map[ssa.Value]bool) bool {
	for b := r.Block(); b != nil; b = b.Idom() {
		d := b.Idom()
		if d == nil {
			break
		}
		iff, ok := d.Instrs[len(d.Instrs)-1].(*ssa.If)
		if !ok {
			continue
		}
		if condReadsLen(iff.Cond, taint, 0) {
			return true
		}
	}
	return false
}

func condReadsLen(v ssa.Value, taint map[ssa.Value]bool, depth int) bool {
	if depth > 12 || v == nil {
		return false
	}
	if call, ok := v.(*ssa.Call); ok {
		if b, isB := call.Call.Value.(*ssa.Builtin); isB && b.Name() == "len" && len(call.Call.Args) == 1 {
			return taint[call.Call.Args[0]]
		}
		return false
	}
	in, ok := v.(ssa.Instruction)
	if !ok {
		return false
	}
	if _, isBasic := v.Type().Underlying().(*types.Basic); !isBasic {
		return false
	}
	for _, op := range in.Operands(nil) {
		if op != nil && *op != nil && condReadsLen(*op, taint, depth+1) {
			return true
		}
	}
	return false
}
