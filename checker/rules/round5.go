package rules

import (
	"go/token"

	. "verif/checker/core"

	"golang.org/x/tools/go/ssa"
)

// runC15Tracked — C15.5 (round-5 seed C15-E): "it stays deleted" needs the in-memory mirror to keep
// naming an id whose deletion was recorded, also when the final status write fails. In every
// function of objectDeletionState, once an id is taken out of `queued`, every return is reached
// only after the id was entered into `deleted` (or back into `queued`): an id is never left in
// neither set — Exists/Filter would then let it back into head sync until the next restart.
func runC15Tracked(c *Ctx) {
	p := c.P
	queued := p.Field(dsPkg + ":objectDeletionState.queued")
	deleted := p.Field(dsPkg + ":objectDeletionState.deleted")
	fns := p.FuncsOfPkg(dsPkg)
	isMark := func(in ssa.Instruction) bool {
		mu, ok := in.(*ssa.MapUpdate)
		return ok && (IsLoadOfField(mu.Map, deleted) || IsLoadOfField(mu.Map, queued))
	}
	for _, w := range FieldWrites(fns, queued) {
		if w.Kind != "mapdelete" {
			continue
		}
		by, rr := MustPass(w.Fn, w.Instr, isMark, Returns(w.Fn), nil)
		detail := "every return after delete(queued, id) passes deleted[id] = … (or re-queues it)"
		if len(by) > 0 {
			detail = "a return is reachable after delete(queued, id) with the id in neither set: " + rr.Path(p, by[0])
		}
		c.Check(len(by) == 0, "C15.5-never-untracked", FuncName(w.Fn)+"|delete(queued, id)", p.Pos(InstrPos(w.Instr)), detail)
	}
	c.Min("C15.5-never-untracked", 1)
}

// runC17RecordKept — C17.3 addendum (round-5 seed C17-F): a stream's interest record
// (service.streams[id]) carries the interests of ALL spaces multiplexed on the stream; handlers of
// unsubscribe / stream close return early when the record is missing. Outside onStreamClose (the
// stream is gone) the record may be dropped only across streamInterest.total == 0.
func runC17RecordKept(c *Ctx, onStreamClose *ssa.Function) {
	p := c.P
	streams := p.Field(psPkg + ":service.streams")
	totalF := p.Field(psPkg + ":streamInterest.total")
	empty := GCmp("streamInterest.total == 0", func(a Atom) (bool, bool) {
		if a.Op != token.EQL && a.Op != token.NEQ {
			return false, false
		}
		x, y := a.X, a.Y
		if n, ok := IntConst(x); ok && n == 0 {
			x, y = y, x
		}
		if n, ok := IntConst(y); !ok || n != 0 || !IsLoadOfField(x, totalF) {
			return false, false
		}
		return true, a.Op == token.EQL
	})
	for _, w := range FieldWrites(p.FuncsOfPkg(psPkg), streams) {
		if w.Kind != "mapdelete" || effectiveOwner(p, w.Fn) == onStreamClose {
			continue
		}
		c.RequireGate("C17.3-record-dropped-only-when-empty", w.Fn, empty, []ssa.Instruction{w.Instr}, "delete(service.streams, id)")
	}
	c.Min("C17.3-record-dropped-only-when-empty", 1) // one site suffices: refactorings route every drop through pruneStream (benign4/C17/3)
}
