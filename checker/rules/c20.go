package rules

import (
	"fmt"
	"go/token"
	"go/types"
	"strings"

	"golang.org/x/tools/go/ssa"

	. "verif/checker/core"
)

func init() {
	register(&Pack{
		ID: "C20",
		Explanation: "Component container ordering decided on the SSA of app.App: (1) Start = forward Init loop over App.components, " +
			"then (dominated by the Init loop's normal exit) a forward Run loop over ComponentRunnables; an Init/Run error edge calls " +
			"closeServices(current index), never re-enters a loop and returns a non-nil error; closeServices counts down idx..0 calling " +
			"Close on ComponentRunnables only; (2) Close counts down from len-1 to 0, no early exit from the loop; (3) App.components is " +
			"written only by Register (append) repo-wide, Start/Close/lookup hold the RWMutex; (4) lookups walk app→parent with a forward scan, local first; " +
			"(5) Init/Run/Close of components are invoked only by Start/Close inside package app.",
		NotDecided: "Nothing of the statement beyond the assumption that App.Start/App.Close are the only drivers of component life-cycle (checked inside package app only); space-wiring use-before-init of individual components is reported as a note, not decided.",
		Run: runC20,
	})
}

func runC20(c *Ctx) {
	p := c.P
	compField := p.Field("app:App.components")
	parentField := p.Field("app:App.parent")
	mInit := p.Method("app:Component.Init")
	mRun := p.Method("app:ComponentRunnable.Run")
	mClose := p.Method("app:ComponentRunnable.Close")
	runnable := p.Type("app:ComponentRunnable")
	start := p.Func("app:(*App).Start")
	closeFn := p.Func("app:(*App).Close")
	register := p.Func("app:(*App).Register")
	c.Fn(FuncName(start))
	c.Fn(FuncName(closeFn))

	// ---- C20.1 Start
	loops := Loops(start)
	initCalls := CallSinks(start, CalleeIs(mInit), false)
	runCalls := CallSinks(start, CalleeIs(mRun), false)
	c.Min("C20.1-init-loop", 1)
	c.Min("C20.1-run-loop", 1)
	var l1, l2 *Loop
	if len(initCalls) != 1 {
		c.Violate("C20.1-init-loop", "app.(*App).Start|Init-call-count", p.Pos(start.Pos()), fmt.Sprintf("expected exactly one Component.Init call site in Start, found %d", len(initCalls)))
	} else {
		l1 = InnermostLoop(loops, initCalls[0])
		ok := l1 != nil && l1.ForwardOver(compField) && indexedBy(initCalls[0].(*ssa.Call).Call.Value, l1.Index, compField)
		c.Check(ok, "C20.1-init-loop", "app.(*App).Start|Init-forward-over-components", p.Pos(InstrPos(initCalls[0])),
			"Component.Init is invoked on components[i] inside a loop i=0..len(components)-1 ascending")
	}
	if len(runCalls) != 1 {
		c.Violate("C20.1-run-loop", "app.(*App).Start|Run-call-count", p.Pos(start.Pos()), fmt.Sprintf("expected exactly one ComponentRunnable.Run call site in Start, found %d", len(runCalls)))
	} else {
		l2 = InnermostLoop(loops, runCalls[0])
		ok := l2 != nil && l2.ForwardOver(compField) && assertedFrom(runCalls[0].(*ssa.Call).Call.Value, l2.Index, compField, runnable)
		c.Check(ok, "C20.1-run-loop", "app.(*App).Start|Run-forward-over-components", p.Pos(InstrPos(runCalls[0])),
			"ComponentRunnable.Run is invoked on components[i].(ComponentRunnable) inside a loop i=0..len-1 ascending")
	}
	if l1 != nil && l2 != nil && l1.Test != nil {
		// Run must be unreachable without taking the Init loop's normal exit edge
		// while having passed through the Init loop header.
		if l1 == l2 {
			c.Violate("C20.1-init-before-run", "app.(*App).Start|Run-after-all-Init", p.Pos(InstrPos(runCalls[0])), "Init and Run are invoked in the same loop: a component is run before later components are initialised")
		} else {
			removed := map[Edge]bool{{From: l1.Header, Succ: l1.ExitSucc}: true}
			r := Reach(start, ReachOpts{Removed: removed})
			ok := !r.Reachable(runCalls[0]) && !l1.Contains(runCalls[0])
			c.Check(ok, "C20.1-init-before-run", "app.(*App).Start|Run-after-all-Init", p.Pos(InstrPos(runCalls[0])),
				"the Run call is reachable only through the exhausted-exit edge of the Init loop (every Init precedes any Run)")
		}
	}
	// error edges
	var closeServices *ssa.Function
	for _, a := range start.AnonFuncs {
		if ContainsCall(a, CalleeIs(mClose)) {
			closeServices = a
		}
	}
	if closeServices == nil {
		// the rollback closure lifted to a method / function of the package
		for _, ci := range CallsIn(start) {
			if h := CalleeFunc(ci.Common()); h != nil && h.Blocks != nil && h != closeFn && IsRepoFunc(h) && len(CallSinks(h, CalleeIs(mClose), false)) > 0 {
				closeServices = h
			}
		}
	}
	// position of the index parameter (the only parameter of the closure; the last int
	// parameter of a method)
	idxPos := -1
	if closeServices != nil {
		for i, pm := range closeServices.Params {
			if bt, isB := pm.Type().Underlying().(*types.Basic); isB && bt.Kind() == types.Int {
				idxPos = i
			}
		}
	}
	if closeServices == nil {
		c.Violate("C20.1-error-edge", "app.(*App).Start|closeServices-exists", p.Pos(start.Pos()), "no closure of Start calls ComponentRunnable.Close (rollback of started components missing)")
	} else {
		c.Fn(FuncName(closeServices))
		for _, tc := range []struct {
			name string
			call []ssa.Instruction
			m    *types.Func
			l    *Loop
		}{{"Init", initCalls, mInit, l1}, {"Run", runCalls, mRun, l2}} {
			if len(tc.call) != 1 || tc.l == nil {
				continue
			}
			g := GErrNil(tc.name+"()==nil", CalleeIs(tc.m))
			edges, sites := g.PassEdges(start)
			key := "app.(*App).Start|" + tc.name + "-error-edge"
			if len(sites) == 0 {
				c.Violate("C20.1-error-edge", key, p.Pos(InstrPos(tc.call[0])), "the error result of "+tc.name+" is not tested")
				continue
			}
			// fail successors
			var starts []*ssa.BasicBlock
			for _, s := range sites {
				for si, succ := range s.Block().Succs {
					if !edges[Edge{From: s.Block(), Succ: si}] {
						starts = append(starts, succ)
					}
				}
			}
			cs := CalleeFn(closeServices)
			r := Reach(start, ReachOpts{Starts: starts})
			// (a) no loop re-entry, no further Init/Run from the fail edge
			bad := ""
			for _, in := range append(append([]ssa.Instruction{}, initCalls...), runCalls...) {
				if r.Reachable(in) {
					bad = "a further " + instrShort(in) + " is reachable after a failed " + tc.name + " (witness " + r.Path(p, in) + ")"
				}
			}
			// (b) every return from the fail edge passed closeServices(i) and is an error exit
			by, _ := MustPass(start, nil, CutAtCall(cs), Returns(start), nil)
			_ = by
			r2 := Reach(start, ReachOpts{Starts: starts, Cut: CutAtCall(cs)})
			for _, ret := range Returns(start) {
				if r2.Reachable(ret) {
					bad = "a return is reachable after a failed " + tc.name + " without closeServices (witness " + r2.Path(p, ret) + ")"
				}
				if r.Reachable(ret) && !IsErrorExit(ret.(*ssa.Return)) {
					bad = "after a failed " + tc.name + " Start can return a nil error at " + p.Pos(InstrPos(ret))
				}
			}
			// (c) the argument of closeServices is the current index
			n := 0
			for _, in := range CallSinks(start, cs, false) {
				if !r.Reachable(in) {
					continue
				}
				n++
				args := in.(*ssa.Call).Call.Args
				if idxPos < 0 || idxPos >= len(args) || args[idxPos] != tc.l.Index {
					bad = "closeServices is not called with the index of the failing component at " + p.Pos(InstrPos(in))
				}
			}
			if n == 0 && bad == "" {
				bad = "closeServices is not called on the " + tc.name + " error edge"
			}
			c.Check(bad == "", "C20.1-error-edge", key, p.Pos(InstrPos(tc.call[0])), orDefault(bad, "error edge of "+tc.name+": closeServices(i) with the current index, no further Init/Run, non-nil error returned"))
		}
		// closeServices shape
		cl := Loops(closeServices)
		closeCalls := CallSinks(closeServices, CalleeIs(mClose), false)
		ok := false
		detail := "closeServices(idx) counts down idx..0 and calls Close on components[i].(ComponentRunnable)"
		if len(closeCalls) == 1 {
			l := InnermostLoop(cl, closeCalls[0])
			if l != nil {
				if init, down := l.CountsDownToZero(); down {
					if idxPos >= 0 && isParamOrSpill(init, closeServices.Params[idxPos]) &&
						assertedFrom(closeCalls[0].(*ssa.Call).Call.Value, l.Index, compField, runnable) && loopExitsOnlyAtHeader(l) {
						ok = true
					}
				}
			}
		}
		c.Check(ok, "C20.1-closeServices-shape", "app.(*App).Start$closeServices|countdown", p.Pos(closeServices.Pos()), detail)
	}

	// ---- C20.2 Close
	{
		cl := Loops(closeFn)
		closeCalls := CallSinks(closeFn, CalleeIs(mClose), false)
		ok := false
		detail := "App.Close iterates i=len(components)-1..0 descending, one Close per index, no early exit"
		if len(closeCalls) == 1 {
			l := InnermostLoop(cl, closeCalls[0])
			if l != nil {
				if init, down := l.CountsDownToZero(); down && IsLenMinusOne(init, compField) &&
					assertedFrom(closeCalls[0].(*ssa.Call).Call.Value, l.Index, compField, runnable) && loopExitsOnlyAtHeader(l) {
					ok = true
				}
				// the other spelling: for n := len(components); n > 0; n-- { components[n-1] … }
				if init, down := l.CountsDownToOne(); !ok && down && IsLenOfField(init, compField) && loopExitsOnlyAtHeader(l) {
					for b := range l.Blocks {
						for _, in := range b.Instrs {
							bo, isBO := in.(*ssa.BinOp)
							if !isBO || bo.Op != token.SUB || bo.X != l.Index {
								continue
							}
							if k, isK := IntConst(bo.Y); isK && k == 1 && assertedFrom(closeCalls[0].(*ssa.Call).Call.Value, bo, compField, runnable) {
								ok = true
								detail = "App.Close iterates n=len(components)..1 descending and closes components[n-1], one Close per index, no early exit"
							}
						}
					}
				}
			}
		} else {
			detail = fmt.Sprintf("expected one ComponentRunnable.Close call site in App.Close, found %d", len(closeCalls))
			// third spelling: `for _, comp := range slices.Backward(app.components)` — the loop body is
			// a yield closure; it must close the yielded element and never stop the iteration early
			backward := false
			for _, ci := range CallsIn(closeFn) {
				if o := CalleeObj(ci.Common()); o != nil && o.Pkg() != nil && o.Pkg().Path() == "slices" && o.Name() == "Backward" && len(ci.Common().Args) == 1 && IsLoadOfField(ci.Common().Args[0], compField) {
					backward = true
				}
			}
			if backward && len(closeCalls) == 0 {
				for _, a := range closeFn.AnonFuncs {
					cc := CallSinks(a, CalleeIs(mClose), false)
					if len(cc) != 1 || len(a.Params) < 2 {
						continue
					}
					// the receiver is the yielded element asserted to ComponentRunnable
					okRecv := false
					if vals, _ := Origins(cc[0].(*ssa.Call).Call.Value); len(vals) == 1 {
						if ex, isEx := vals[0].(*ssa.Extract); isEx && ex.Index == 0 {
							if ta, isTA := ex.Tuple.(*ssa.TypeAssert); isTA && types.Identical(ta.AssertedType, runnable) && originatesFromParam(ta.X, a.Params[len(a.Params)-1]) {
								okRecv = true
							}
						}
					}
					noBreak := true
					for _, ri := range Returns(a) {
						if b, isC := BoolConst(ri.(*ssa.Return).Results[0]); !isC || !b {
							noBreak = false
						}
					}
					if okRecv && noBreak {
						ok = true
						detail = "App.Close ranges over slices.Backward(components) and closes every yielded runnable component, no early exit"
					}
				}
			}
		}
		c.Check(ok, "C20.2-close-reverse", "app.(*App).Close|reverse-countdown", p.Pos(closeFn.Pos()), detail)
	}

	// ---- C20.3 writers of components
	{
		repo := p.RepoFuncs()
		ws := FieldWrites(repo, compField)
		c.Min("C20.3-components-writers", 1)
		for _, w := range ws {
			okw := TopFunc(w.Fn) == register && w.Kind == "store"
			det := "App.components written in " + FuncName(w.Fn) + " (" + w.Kind + ")"
			if okw {
				// must be an append to the old value
				okw = isAppendOf(w.Val, compField)
				det += "; value is append(app.components, s)"
			}
			c.Check(okw, "C20.3-components-writers", FuncName(w.Fn)+"|"+w.Kind, p.Pos(InstrPos(w.Instr)), det)
		}
		// lock discipline: Start, Close hold RLock (deferred RUnlock) before touching components
		for _, fn := range []*ssa.Function{start, closeFn, register} {
			ok := locksFirst(fn)
			c.Check(ok, "C20.3-lock-held", FuncName(fn)+"|mu", p.Pos(fn.Pos()), "acquires app.mu before reading/writing components and releases it by defer")
		}
	}

	// ---- C20.4 lookup order
	for _, spec := range []string{"app:(*App).Component", "app:GetComponent"} {
		fn := p.Func(spec)
		c.Fn(FuncName(fn))
		// the walk may have been moved into a lookup helper (new since the anchor snapshot) called
		// on the same app
		shape := fn
		if len(Loops(fn)) == 0 {
			var cand *ssa.Function
			n := 0
			for _, ci := range CallsIn(fn) {
				h := CalleeFunc(ci.Common())
				if h == nil || h.Blocks == nil || !IsRepoFunc(h) || !IsNewFunc(h) || len(Loops(h)) == 0 {
					continue
				}
				if a := ci.Common().Args; len(a) == 0 || len(fn.Params) == 0 || !originatesFromParam(a[0], fn.Params[0]) {
					continue
				}
				if h != cand {
					n++
				}
				cand = h
			}
			if n == 1 {
				shape = cand
				c.Fn(FuncName(shape))
			}
		}
		ok, det := lookupShape(shape, compField, parentField)
		c.Check(ok, "C20.4-lookup-order", FuncName(fn)+"|local-first-then-parents", p.Pos(fn.Pos()), det)
		// every component the lookup hands out is read from a components slice during THIS walk:
		// an answer taken from anywhere else (a cache, a field) is not re-resolved "locally first,
		// then through the parents" and goes stale when a nearer container registers the name later
		var fromWalk func(v ssa.Value, d int) bool
		fromWalk = func(v ssa.Value, d int) bool {
			if v == nil || d > 12 {
				return false
			}
			if rvs := newHelperReturns(v); len(rvs) > 0 {
				// handed back by the lookup helper: judged by what the helper returns
				for _, rv := range rvs {
					if !fromWalk(rv, d+1) {
						return false
					}
				}
				return true
			}
			switch x := v.(type) {
			case *ssa.Const:
				return true
			case *ssa.Extract:
				return fromWalk(x.Tuple, d+1)
			case *ssa.TypeAssert:
				return fromWalk(x.X, d+1)
			case *ssa.ChangeInterface:
				return fromWalk(x.X, d+1)
			case *ssa.MakeInterface:
				return fromWalk(x.X, d+1)
			case *ssa.Phi:
				for _, e := range x.Edges {
					if !fromWalk(e, d+1) {
						return false
					}
				}
				return true
			case *ssa.UnOp:
				if ia, isIA := x.X.(*ssa.IndexAddr); isIA {
					return IsLoadOfField(ia.X, compField)
				}
				vals, unk := Origins(x)
				if unk || len(vals) == 0 || (len(vals) == 1 && vals[0] == v) {
					return false
				}
				for _, o := range vals {
					if IsZeroMarker(o) {
						continue
					}
					if !fromWalk(o, d+1) {
						return false
					}
				}
				return true
			}
			return IsZeroMarker(v)
		}
		badRet := ""
		for _, ri := range Returns(fn) {
			ret := ri.(*ssa.Return)
			if ret.Block() == fn.Recover {
				continue
			}
			if len(ret.Results) == 0 {
				continue
			}
			if rv := ret.Results[0]; !fromWalk(rv, 0) {
				badRet = "the value returned at " + p.Pos(InstrPos(ret)) + " is not an element read from a components slice during the walk (" + describeOperand(rv) + ")"
			}
		}
		c.Check(badRet == "", "C20.4-lookup-order", FuncName(fn)+"|answers come from the walk", p.Pos(fn.Pos()), orDefault(badRet, "every returned component is an element of a container's components slice read during this lookup"))
	}
	// the parent link: written only by ChildApp, and always to the app ChildApp
	// was called on (a child resolves through *every* ancestor)
	{
		childApp := p.Func("app:(*App).ChildApp")
		c.Fn(FuncName(childApp))
		ws := FieldWrites(p.RepoFuncs(), parentField)
		for _, w := range ws {
			ok := TopFunc(w.Fn) == childApp
			det := "App.parent written in " + FuncName(w.Fn)
			if ok {
				vals, unk := Origins(w.Val)
				ok = !unk && len(vals) == 1 && vals[0] == ssa.Value(childApp.Params[0])
				det += "; the value is ChildApp's receiver"
				if !ok {
					det = "App.parent is set to something other than the app ChildApp was called on: intermediate containers are skipped by lookups"
				}
			}
			c.Check(ok, "C20.4-parent-link", FuncName(w.Fn)+"|App.parent", p.Pos(InstrPos(w.Instr)), det)
		}
		c.Min("C20.4-parent-link", 1)
	}
	// generic instantiations share the body; MustComponent delegates
	for _, spec := range []string{"app:(*App).MustComponent", "app:MustComponent"} {
		fn := p.Func(spec)
		target := "Component"
		if spec == "app:MustComponent" {
			target = "GetComponent"
		}
		ok := false
		for _, cs := range CallsIn(fn) {
			if o := CalleeObj(cs.Common()); o != nil && o.Name() == target {
				ok = true
			}
		}
		c.Check(ok, "C20.4-lookup-order", FuncName(fn)+"|delegates-to-"+target, p.Pos(fn.Pos()), "delegates to "+target)
	}

	// ---- C20.5 who may drive the life-cycle inside package app
	{
		allowed := map[*ssa.Function]bool{start: true, closeFn: true}
		for _, cs := range Callers(p.FuncsOfPkg("app"), CalleeIs(mInit, mRun, mClose)) {
			ok := InSet(cs.Fn, allowed) || allowed[effectiveOwner(p, cs.Fn)]
			c.Check(ok, "C20.5-lifecycle-drivers", FuncName(cs.Fn)+"|"+ObjName(CalleeObj(cs.Instr.(ssa.CallInstruction).Common())), p.Pos(InstrPos(cs.Instr)),
				"component Init/Run/Close invoked only from App.Start / App.Close")
		}
		c.Min("C20.5-lifecycle-drivers", 4)
	}
}

func orDefault(s, d string) string {
	if s == "" {
		return d
	}
	return s
}

func instrShort(in ssa.Instruction) string {
	if c, ok := in.(ssa.CallInstruction); ok {
		if o := CalleeObj(c.Common()); o != nil {
			return o.Name() + " call"
		}
	}
	return in.String()
}

// indexedBy: recv is *(&field[idx]) (load of element idx of the loaded field slice).
func indexedBy(recv ssa.Value, idx ssa.Value, field *types.Var) bool {
	vals, _ := Origins(recv)
	if len(vals) != 1 {
		return false
	}
	ld, ok := vals[0].(*ssa.UnOp)
	if !ok || ld.Op != token.MUL {
		return false
	}
	ia, ok := ld.X.(*ssa.IndexAddr)
	if !ok {
		return false
	}
	if ia.Index != idx {
		// idx may be given as an offset form (counter-1): same operands, same operator
		want, isBO := idx.(*ssa.BinOp)
		got, isBO2 := ia.Index.(*ssa.BinOp)
		if !isBO || !isBO2 || want.Op != got.Op || want.X != got.X {
			return false
		}
		k1, ok1 := IntConst(want.Y)
		k2, ok2 := IntConst(got.Y)
		if !ok1 || !ok2 || k1 != k2 {
			return false
		}
	}
	return IsLoadOfField(ia.X, field)
}

// assertedFrom: recv is extract#0 of typeassert,ok components[idx].(iface),
// and the call is dominated by ok==true (guaranteed by gating on ok).
func assertedFrom(recv ssa.Value, idx ssa.Value, field *types.Var, iface *types.Named) bool {
	vals, _ := Origins(recv)
	if len(vals) != 1 {
		return false
	}
	ex, ok := vals[0].(*ssa.Extract)
	if !ok || ex.Index != 0 {
		return false
	}
	ta, ok := ex.Tuple.(*ssa.TypeAssert)
	if !ok || !types.Identical(ta.AssertedType, iface) {
		return false
	}
	return indexedBy(ta.X, idx, field)
}

func isParamOrSpill(v ssa.Value, param *ssa.Parameter) bool {
	vals, unk := Origins(v)
	if unk || len(vals) != 1 {
		return v == param
	}
	return vals[0] == param
}

// loopExitsOnlyAtHeader: the only edge leaving the loop is the header's exit.
func loopExitsOnlyAtHeader(l *Loop) bool {
	for b := range l.Blocks {
		for _, s := range b.Succs {
			if !l.Blocks[s] && b != l.Header {
				return false
			}
		}
		if len(b.Succs) == 0 { // return / panic inside loop
			return false
		}
	}
	return true
}

func isAppendOf(v ssa.Value, field *types.Var) bool {
	call, ok := v.(*ssa.Call)
	if !ok {
		return false
	}
	b, ok := call.Call.Value.(*ssa.Builtin)
	if !ok || b.Name() != "append" {
		return false
	}
	return IsLoadOfField(call.Call.Args[0], field)
}

// locksFirst: the first call of fn after spills is (R)Lock on a mutex field of
// the receiver and an (R)Unlock on the same field is deferred in the entry block.
func locksFirst(fn *ssa.Function) bool {
	if len(fn.Blocks) == 0 {
		return false
	}
	locked, deferred := false, false
	for _, b := range fn.Blocks {
		if !b.Dominates(b) {
			continue
		}
		_ = b
	}
	// scan blocks that dominate every return: entry block prefix up to the first branch
	b := fn.Blocks[0]
	for {
		for _, in := range b.Instrs {
			switch x := in.(type) {
			case *ssa.Call:
				if o := CalleeObj(&x.Call); o != nil && o.Pkg() != nil && o.Pkg().Path() == "sync" && (o.Name() == "Lock" || o.Name() == "RLock") {
					locked = true
				} else if !locked {
					if o != nil && o.Pkg() != nil && (o.Pkg().Path() == "go.uber.org/zap" || o.Name() == "Debug") {
						continue // logging before the lock
					}
					if _, isB := x.Call.Value.(*ssa.Builtin); isB {
						continue
					}
					return false
				}
			case *ssa.Defer:
				if o := CalleeObj(&x.Call); o != nil && o.Pkg() != nil && o.Pkg().Path() == "sync" && (o.Name() == "Unlock" || o.Name() == "RUnlock") {
					deferred = locked
				}
			}
			if locked && deferred {
				return true
			}
		}
		if len(b.Succs) != 1 {
			return false
		}
		b = b.Succs[0]
	}
}

// lookupShape: outer loop over `current` starting at the receiver/first param
// and advancing by current.parent while current != nil; inner forward loop
// over current.components; a return from inside the inner loop.
func lookupShape(fn *ssa.Function, compField, parentField *types.Var) (bool, string) {
	loops := Loops(fn)
	var outer, inner *Loop
	for _, l := range loops {
		for _, l2 := range loops {
			if l != l2 && l.Blocks[l2.Header] && len(l.Blocks) > len(l2.Blocks) {
				outer, inner = l, l2
			}
		}
	}
	libraryScan := false
	var libArg ssa.Value
	if outer == nil && len(loops) >= 1 {
		// the inner scan written as slices.IndexFunc(current.components, pred): first match in
		// slice order, the same local-first semantics
		for _, l := range loops {
			for b := range l.Blocks {
				for _, in := range b.Instrs {
					call, ok := in.(*ssa.Call)
					if !ok {
						continue
					}
					o := CalleeObj(&call.Call)
					if o != nil && o.Pkg() != nil && strings.HasSuffix(o.Pkg().Path(), "slices") && (o.Name() == "IndexFunc") && len(call.Call.Args) == 2 && IsLoadOfField(call.Call.Args[0], compField) {
						outer, libraryScan, libArg = l, true, call.Call.Args[0]
					}
				}
			}
		}
	}
	if outer == nil || (inner == nil && !libraryScan) {
		return false, "expected an outer parent-walk loop containing an inner component scan"
	}
	if !libraryScan && !inner.ForwardOver(compField) {
		return false, "inner scan is not a forward loop over current.components"
	}
	// outer: test current != nil; find the pointer phi or cell
	a := outer.TestAtom
	if outer.Test == nil || (a.Op != token.NEQ && a.Op != token.EQL) {
		return false, "outer loop is not controlled by a nil test"
	}
	var cur ssa.Value
	if IsNilConst(a.Y) {
		cur = a.X
	} else if IsNilConst(a.X) {
		cur = a.Y
	}
	if cur == nil {
		return false, "outer loop is not controlled by a nil test"
	}
	// entry values of the walked pointer must be the app itself; values carried
	// around the loop must be loads of .parent
	var entryVals, backVals []ssa.Value
	switch x := cur.(type) {
	case *ssa.Phi:
		if x.Block() != outer.Header {
			return false, "walked pointer is not a loop-carried value of the outer loop"
		}
		for i, e := range x.Edges {
			if outer.Blocks[x.Block().Preds[i]] {
				backVals = append(backVals, e)
			} else {
				entryVals = append(entryVals, e)
			}
		}
	case *ssa.UnOp:
		ri, ok := ReachingStores(x)
		if !ok || ri.Unknown() || ri.Zero() {
			return false, "cannot resolve the walked pointer"
		}
		for _, st := range ri.Stores() {
			if outer.Blocks[st.Block()] {
				backVals = append(backVals, st.Val)
			} else {
				entryVals = append(entryVals, st.Val)
			}
		}
	default:
		return false, "cannot resolve the walked pointer"
	}
	if len(entryVals) == 0 || len(backVals) == 0 {
		return false, "walk must start at the app itself and advance through .parent"
	}
	for _, ev := range entryVals {
		vals, unk := Origins(ev)
		if unk || len(vals) != 1 {
			return false, "walk does not start at the app itself"
		}
		if pm, ok := vals[0].(*ssa.Parameter); !ok || len(fn.Params) == 0 || pm != fn.Params[0] {
			return false, "walk does not start at the app itself (starts at " + vals[0].String() + ")"
		}
	}
	for _, bv := range backVals {
		vals, unk := Origins(bv)
		if unk || len(vals) == 0 {
			return false, "cannot resolve the loop-carried pointer"
		}
		for _, o := range vals {
			if f, _ := LoadedField(o); f != parentField {
				return false, "walk does not advance through current.parent"
			}
		}
	}
	// the slice scanned by the inner loop belongs to cur (not always to app)
	// inner.TestAtom.Y = len(load components of X); X must originate from cur's cell, checked via: base of the field load is not the bare parameter only
	var scanned ssa.Value
	if libraryScan {
		scanned = libArg
	} else {
		lenCall, _ := inner.TestAtom.Y.(*ssa.Call)
		if lenCall == nil {
			return false, "inner bound is not len(current.components)"
		}
		scanned = lenCall.Call.Args[0]
	}
	svals, _ := Origins(scanned)
	for _, sv := range svals {
		_, base := LoadedField(sv)
		bvals, _ := Origins(base)
		okBase := false
		for _, bv := range bvals {
			if f, _ := LoadedField(bv); f == parentField {
				okBase = true
			}
		}
		if !okBase {
			return false, "inner loop scans a fixed app's components instead of the walked one"
		}
	}
	// a return inside the inner loop (found → return immediately: local first)
	found := false
	if inner != nil {
		for b := range inner.Blocks {
			for _, s := range b.Succs {
				if !outer.Blocks[s] {
					found = true
				}
			}
			if len(b.Succs) == 0 {
				found = true
			}
		}
	}
	// some structured forms put the return in a block outside the natural loop
	if !found {
		for b := range outer.Blocks {
			for _, s := range b.Succs {
				if !outer.Blocks[s] && b != outer.Header {
					found = true
				}
			}
		}
	}
	if !found {
		return false, "no early return on the first match"
	}
	return true, "walks current=app; current!=nil; current=current.parent with a forward scan of current.components and returns on the first match (local first)"
}
