// Package rules holds one rule pack per property.
package rules

import "verif/checker/core"

// Pack is the rule pack of one property.
type Pack struct {
	ID          string
	Explanation string   // structural clauses decided
	NotDecided  string   // behavioural remainder not decided
	Assumptions []string // extra trusted base
	Run         func(c *core.Ctx)
}

// Packs is the registry, filled by init functions of the pack files.
var Packs = map[string]*Pack{}

func register(p *Pack) { Packs[p.ID] = p }
