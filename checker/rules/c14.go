package rules

import (
	"fmt"
	"go/token"
	"go/types"
	"strings"

	"golang.org/x/tools/go/ssa"

	. "verif/checker/core"
)

const hsPkg = "net/secureservice/handshake"
const hsProto = "net/secureservice/handshake/handshakeproto"
const ssPkg = "net/secureservice"

func init() {
	register(&Pack{
		ID: "C14",
		Explanation: "Connection handshake, decided on SSA: (1) success is gated — outgoingHandshake/incomingHandshake return (result, nil) only across CheckCredential()==nil, the own write*()==nil steps and the final remote ack.Error == Error_Null, reading frames only of the kinds the protocol step allows; " +
			"(2) credential check — peerSignVerifier.CheckCredential succeeds only across slices.Contains(compatibleVersions, cred.Version)==true, cred.Type == SignedPeerIds and pubKey.Verify()==true; the verified message is (remotePeerId ‖ own PeerId) while MakeCredentials signs (own PeerId ‖ remotePeerId) (mirror agreement of both operands); the returned Identity is the Identity of the very payload whose signature was verified; noVerifyChecker is built only by newNoVerifyChecker and also gates on the version list; HandshakeError values (which carry the wire error code) are constructed only inside package handshake, so a rejecting side never answers with a zero (Null) code; " +
			"(3) frame discipline — in readMsg the type whitelist test and size <= sizeLimit dominate the body allocation and read; " +
			"(4) pooled state — every driver defers release() before touching the connection, and every exported field of each pooled message (Credentials, Ack, Proto) that a decode can leave untouched is reset in release()/before decode (vtproto decoding does not clear absent fields); values handed out are copies; " +
			"(5) bounded wait — the four public drivers select on ctx.Done() and close the connection on that edge.",
		NotDecided: "That both ends reach the same verdict for every pair of implementations; behaviour under arbitrary chunking/corruption of the byte stream; concurrency of the sync.Pool beyond aliasing.",
		Run:        runC14,
	})
}

func runC14(c *Ctx) {
	p := c.P
	checkCred := p.Method(hsPkg + ":CredentialChecker.CheckCredential")
	h := func(n string) *ssa.Function { return p.Func(hsPkg + ":" + n) }
	writeAck, writeCred, writeProto, readMsg, release := h("(*handshake).writeAck"), h("(*handshake).writeCredentials"), h("(*handshake).writeProto"), h("(*handshake).readMsg"), h("(*handshake).release")
	_ = writeProto
	ackErrF := p.Field(hsProto + ":Ack.Error")
	nullAck := GCmp("remote ack.Error == Error_Null", func(a Atom) (bool, bool) {
		if a.Op != token.EQL && a.Op != token.NEQ {
			return false, false
		}
		k, ok := a.Y.(*ssa.Const)
		if !ok || k.Value == nil || k.Value.ExactString() != constVal(p, hsProto, "Error_Null") || !IsLoadOfField(a.X, ackErrF) {
			return false, false
		}
		return true, a.Op == token.EQL
	})

	// ---- C14.1 success is gated
	out := h("outgoingHandshake")
	in := h("incomingHandshake")
	for _, d := range []struct {
		fn    *ssa.Function
		gates []Gate
	}{
		{out, []Gate{GErrNil("CheckCredential()==nil", CalleeIs(checkCred)), GErrNil("writeCredentials()==nil", CalleeFn(writeCred)), GErrNil("writeAck()==nil", CalleeFn(writeAck)), GErrNil("readMsg()==nil", CalleeFn(readMsg)), nullAck}},
		{in, []Gate{GErrNil("readMsg()==nil", CalleeFn(readMsg)), GErrNil("CheckCredential()==nil", CalleeIs(checkCred)), GErrNil("writeCredentials()==nil", CalleeFn(writeCred)), GErrNil("writeAck()==nil", CalleeFn(writeAck)), nullAck}},
	} {
		sinks := SuccessReturns(d.fn)
		for _, g := range d.gates {
			c.RequireGate("C14.1-success-gated", d.fn, g, sinks, "return (result, nil)")
		}
		// the credential checked is the one just read; the result returned is CheckCredential's
		for _, cs := range CallSinks(d.fn, CalleeIs(checkCred), false) {
			args := callArgs(cs.(*ssa.Call).Common())
			ok := len(args) == 2 && IsLoadOfField(args[1], p.Field(hsPkg+":message.cred")) || fieldOfValue(args[1], p.Field(hsPkg+":message.cred"), nil)
			c.Check(ok, "C14.1-success-gated", FuncName(d.fn)+"|CheckCredential(received cred)", p.Pos(InstrPos(cs)), "the credentials checked are the ones just received")
		}
	}
	// frame kinds per step
	frameTable := map[string][][]string{
		"outgoingHandshake":      {{"msgTypeAck", "msgTypeCred"}, {"msgTypeAck"}},
		"incomingHandshake":      {{"msgTypeCred"}, {"msgTypeAck"}},
		"outgoingProtoHandshake": {{"msgTypeAck", "msgTypeProto"}},
		"incomingProtoHandshake": {{"msgTypeProto"}},
	}
	for name, steps := range frameTable {
		fn := h(name)
		calls := CallSinks(fn, CalleeFn(readMsg), false)
		ok := len(calls) == len(steps)
		det := fmt.Sprintf("%d readMsg steps with the allowed frame kinds %v", len(steps), steps)
		if ok {
			for i, cs := range calls {
				got := variadicConsts(cs.(*ssa.Call).Call.Args[1])
				want := map[string]bool{}
				for _, n := range steps[i] {
					want[constVal(p, hsPkg, n)] = true
				}
				if len(got) != len(want) {
					ok = false
				}
				for _, g := range got {
					if !want[g] {
						ok = false
					}
				}
			}
		}
		c.Check(ok, "C14.1-frame-kinds", FuncName(fn)+"|allowed frame kinds per step", p.Pos(fn.Pos()), det)
	}

	// ---- C14.2 credential check
	{
		cc := p.Func(ssPkg + ":(*peerSignVerifier).CheckCredential")
		sinks := SuccessReturns(cc)
		credVersion := p.Field(hsProto + ":Credentials.Version")
		compat := p.Field(ssPkg + ":peerSignVerifier.compatibleVersions")
		versionOK := func(compatF *types.Var) Gate {
			return GBool("slices.Contains(compatibleVersions, cred.Version)==true", func(cc *ssa.CallCommon) bool {
				o := CalleeObj(cc)
				if o == nil || o.Name() != "Contains" || len(cc.Args) != 2 {
					return false
				}
				return IsLoadOfField(cc.Args[0], compatF) && IsLoadOfField(cc.Args[1], credVersion)
			}, 0, true)
		}
		c.RequireGate("C14.2-credential-check", cc, versionOK(compat), sinks, "return (result, nil)")
		c.RequireGate("C14.2-credential-check", cc, fieldConstGate(p, p.Field(hsProto+":Credentials.Type"), hsProto, "CredentialsType_SignedPeerIds", true), sinks, "return (result, nil)")
		c.RequireGate("C14.2-credential-check", cc, GBool("pubKey.Verify(remotePeerId+ownPeerId, sign)==true", cryptoVerify, 0, true), sinks, "return (result, nil)")
		// verified message: remotePeerId (param) ‖ account.PeerId ; signature = msg.Sign of decoded payload
		peerIdF := p.Field("commonspace/object/accountdata:AccountKeys.PeerId")
		concat := func(v ssa.Value) (x, y ssa.Value, ok bool) {
			vals, _ := Origins(v)
			for _, o := range vals {
				cv, isConv := o.(*ssa.Convert)
				if isConv {
					o = cv.X
				}
				if bo, isBO := o.(*ssa.BinOp); isBO && bo.Op == token.ADD {
					return bo.X, bo.Y, true
				}
			}
			return nil, nil, false
		}
		for _, cs := range CallSinks(cc, cryptoVerify, false) {
			a := callArgs(cs.(*ssa.Call).Common())
			x, y, ok := concat(a[0])
			ok = ok && originatesFromParam(x, cc.Params[1]) && IsLoadOfField(y, peerIdF)
			c.Check(ok, "C14.2-credential-check", FuncName(cc)+"|verified message = remotePeerId ‖ own PeerId", p.Pos(InstrPos(cs)), "the signature is verified over (the peer's transport id ‖ the verifier's own peer id)")
			sig := p.Field(hsProto + ":PayloadSignedPeerIds.Sign")
			c.Check(IsLoadOfField(a[1], sig), "C14.2-credential-check", FuncName(cc)+"|signature operand", p.Pos(InstrPos(cs)), "the signature checked is PayloadSignedPeerIds.Sign of the decoded payload")
		}
		mk := p.Func(ssPkg + ":(*peerSignVerifier).MakeCredentials")
		sign := calleeMethod("util/crypto", "Sign")
		for _, cs := range CallSinks(mk, sign, false) {
			a := callArgs(cs.(*ssa.Call).Common())
			x, y, ok := concat(a[0])
			ok = ok && IsLoadOfField(x, peerIdF) && originatesFromParam(y, mk.Params[1])
			c.Check(ok, "C14.2-credential-check", FuncName(mk)+"|signed message = own PeerId ‖ remotePeerId", p.Pos(InstrPos(cs)), "MakeCredentials signs (own peer id ‖ remote peer id), the mirror of what the remote verifies")
		}
		// returned identity = msg.Identity of the verified payload; the key is decoded from the same field
		idF := p.Field(hsProto + ":PayloadSignedPeerIds.Identity")
		okId := false
		for _, w := range FieldWrites([]*ssa.Function{cc}, p.Field(hsPkg+":Result.Identity")) {
			okId = IsLoadOfField(w.Val, idF)
			if !okId {
				// handed back by the verifying helper (new since the anchor snapshot)
				vals, unk := Origins(w.Val)
				n := 0
				okId = !unk
				for _, o := range vals {
					if IsNilConst(o) {
						continue // the helper's error returns
					}
					n++
					if !IsLoadOfField(o, idF) {
						okId = false
					}
				}
				okId = okId && n > 0
			}
		}
		c.Check(okId, "C14.2-credential-check", FuncName(cc)+"|Result.Identity = verified payload identity", p.Pos(cc.Pos()), "the identity attached to the connection is the Identity field of the payload whose signature was verified")
		unm := p.PkgFunc("util/crypto:UnmarshalEd25519PublicKeyProto")
		for _, cs := range CallSinks(cc, CalleeIs(unm), false) {
			c.Check(IsLoadOfField(cs.(*ssa.Call).Call.Args[0], idF), "C14.2-credential-check", FuncName(cc)+"|verifying key = payload identity", p.Pos(InstrPos(cs)), "the verifying key is decoded from that same Identity field")
		}
		// noVerifyChecker
		nv := p.Func(ssPkg + ":(noVerifyChecker).CheckCredential")
		c.RequireGate("C14.2-credential-check", nv, versionOK(p.Field(ssPkg+":noVerifyChecker.compatibleVersions")), SuccessReturns(nv), "return (result, nil)")
		nvT := p.Type(ssPkg + ":noVerifyChecker")
		newNV := p.Func(ssPkg + ":newNoVerifyChecker")
		for _, fn := range prodFuncs(p) {
			Instrs(fn, func(in ssa.Instruction) {
				al, ok := in.(*ssa.Alloc)
				if !ok {
					return
				}
				pt, ok := al.Type().(*types.Pointer)
				if !ok || !types.Identical(pt.Elem(), nvT) {
					return
				}
				top := TopFunc(fn)
				okc := top == newNV || (top.Signature.Recv() != nil && strings.Contains(top.Signature.Recv().Type().String(), "noVerifyChecker"))
				c.Check(okc, "C14.2-noverify-construction", FuncName(fn)+"|constructs noVerifyChecker", p.Pos(InstrPos(in)), "noVerifyChecker is constructed only by newNoVerifyChecker")
			})
		}
		// HandshakeError constructed only in package handshake
		heT := p.Type(hsPkg + ":HandshakeError")
		n := 0
		// scope: what a CredentialChecker can hand to tryWriteErrAndClose
		checkers := StaticClosure(p.Implementers(checkCred), func(f *ssa.Function) bool { return IsRepoFunc(f) && !isTestSupport(p, f) })
		c.Check(len(checkers) >= 2, "C14.2-handshake-error-construction", "CredentialChecker implementers", "-", fmt.Sprintf("%d functions in the closure of the CheckCredential implementations", len(checkers)))
		for _, fn := range checkers {
			Instrs(fn, func(in ssa.Instruction) {
				var t types.Type
				switch x := in.(type) {
				case *ssa.Alloc:
					if pt, ok := x.Type().(*types.Pointer); ok {
						t = pt.Elem()
					}
				default:
					return
				}
				if t == nil || !types.Identical(t, heT) {
					return
				}
				// only composite literals (an Alloc whose fields are stored)
				isLit := false
				for _, ref := range *in.(*ssa.Alloc).Referrers() {
					if fa, ok := ref.(*ssa.FieldAddr); ok {
						for _, r2 := range *fa.Referrers() {
							if _, isSt := r2.(*ssa.Store); isSt {
								isLit = true
							}
						}
					}
				}
				if !isLit {
					return
				}
				n++
				top := TopFunc(fn)
				okc := top.Pkg != nil && strings.HasSuffix(top.Pkg.Pkg.Path(), hsPkg)
				c.Check(okc, "C14.2-handshake-error-construction", FuncName(fn)+"|constructs HandshakeError", p.Pos(InstrPos(in)), "HandshakeError (whose unexported code is what tryWriteErrAndClose puts on the wire) is constructed only inside package handshake; an error built elsewhere carries code 0 = Error_Null and is read as success by the peer")
			})
		}
		// tryWriteErrAndClose: unknown errors map to Error_Unexpected
		tw := h("(*handshake).tryWriteErrAndClose")
		okUnexp := false
		unexp := constVal(p, hsProto, "Error_Unexpected")
		// the code handed to writeAck may be Error_Unexpected: directly (phi of the type switch)
		// or as a possible result of the helper that maps the error
		var mayBeUnexp func(v ssa.Value, d int) bool
		mayBeUnexp = func(v ssa.Value, d int) bool {
			vals, _ := Origins(v)
			for _, o := range vals {
				if k, isK := o.(*ssa.Const); isK && k.Value != nil && k.Value.ExactString() == unexp {
					return true
				}
				if call, isCall := o.(*ssa.Call); isCall && d < 2 {
					if hf := CalleeFunc(&call.Call); hf != nil && hf.Blocks != nil && IsRepoFunc(hf) {
						for _, ri := range Returns(hf) {
							if rs := ri.(*ssa.Return).Results; len(rs) > 0 && mayBeUnexp(rs[0], d+1) {
								return true
							}
						}
					}
				}
			}
			return false
		}
		for _, cs := range CallSinks(tw, CalleeFn(h("(*handshake).writeAck")), false) {
			if args := cs.(*ssa.Call).Call.Args; len(args) == 2 && mayBeUnexp(args[1], 0) {
				okUnexp = true
			}
		}
		c.Check(okUnexp, "C14.2-handshake-error-construction", FuncName(tw)+"|foreign errors → Error_Unexpected", p.Pos(tw.Pos()), "errors that are not HandshakeError are reported to the peer as Error_Unexpected")
	}

	// ---- C14.3 frame discipline in readMsg
	{
		containsCall := GBool("slices.Contains(allowedTypes, type)==true", func(cc *ssa.CallCommon) bool {
			o := CalleeObj(cc)
			return o != nil && o.Name() == "Contains" && len(cc.Args) == 2 && originatesFromParam(cc.Args[0], readMsg.Params[1])
		}, 0, true)
		// the same membership test written as a loop: a boolean that is true only on the edge
		// from `allowedTypes[i] == type`
		contains := GCmp(containsCall.Name, func(a Atom) (bool, bool) {
			if m, pwt := containsCall.Match(a); m {
				return true, pwt
			}
			phi, ok := a.X.(*ssa.Phi)
			if !ok || a.Op != token.ILLEGAL {
				return false, false
			}
			sawTrue := false
			for i, e := range phi.Edges {
				b, isC := BoolConst(e)
				if !isC {
					return false, false
				}
				if !b {
					continue
				}
				// the predecessor carrying `true` lies behind an element == x test over the parameter
				pr := phi.Block().Preds[i]
				found := false
				for _, blk := range readMsg.Blocks {
					iff, isIf := blk.Instrs[len(blk.Instrs)-1].(*ssa.If)
					if !isIf {
						continue
					}
					at := AtomOf(iff)
					if at.Op != token.EQL && at.Op != token.NEQ {
						continue
					}
					isElem := func(v ssa.Value) bool {
						u, isU := v.(*ssa.UnOp)
						if !isU {
							return false
						}
						ia, isIA := u.X.(*ssa.IndexAddr)
						return isIA && originatesFromParam(ia.X, readMsg.Params[1])
					}
					if !isElem(at.X) && !isElem(at.Y) {
						continue
					}
					ts := at.TrueSucc()
					if at.Op == token.NEQ {
						ts = 1 - ts
					}
					eqSucc := blk.Succs[ts]
					if eqSucc == pr || eqSucc.Dominates(pr) || eqSucc == phi.Block() && blk == pr {
						found = true
					}
				}
				if !found {
					return false, false
				}
				sawTrue = true
			}
			return sawTrue, true
		})
		sizeOK := GCmp("size <= sizeLimit", func(a Atom) (bool, bool) {
			lim := constVal(p, hsPkg, "sizeLimit")
			isLim := func(v ssa.Value) bool {
				k, ok := v.(*ssa.Const)
				return ok && k.Value != nil && k.Value.ExactString() == lim
			}
			switch a.Op {
			case token.GTR:
				if isLim(a.Y) {
					return true, false
				}
			case token.LEQ:
				if isLim(a.Y) {
					return true, true
				}
			case token.LSS:
				if isLim(a.X) {
					return true, false
				}
			case token.GEQ:
				if isLim(a.X) {
					return true, true
				}
			}
			return false, false
		})
		// body read = the second io.ReadFull; body allocation = slices.Grow with the decoded size
		var bodySinks []ssa.Instruction
		// (a header read moved into a new helper still counts as the first read)
		reads := CallSinksX(readMsg, CalleeIs(p.PkgFunc("io:ReadFull")), false)
		if len(reads) >= 2 {
			bodySinks = append(bodySinks, reads[1:]...)
		}
		wireSized := func(v ssa.Value) bool {
			var srcs []string
			var leaves []ssa.Value
			sizeSources(v, map[ssa.Value]bool{}, &srcs, &leaves)
			if len(srcs) > 0 {
				return true
			}
			for {
				if cv, ok := v.(*ssa.Convert); ok {
					v = cv.X
					continue
				}
				break
			}
			vals, _ := Origins(v) // through a header-parsing helper that returns the size
			for _, o := range vals {
				if o != v {
					sizeSources(o, map[ssa.Value]bool{}, &srcs, &leaves)
				}
			}
			return len(srcs) > 0
		}
		for _, cs := range CallsIn(readMsg) {
			if o := CalleeObj(cs.Common()); o != nil && o.Name() == "Grow" && wireSized(cs.Common().Args[1]) {
				bodySinks = append(bodySinks, cs)
			}
		}
		bodySinks = append(bodySinks, CallSinksX(readMsg, func(cc *ssa.CallCommon) bool {
			o := CalleeObj(cc)
			return o != nil && o.Name() == "UnmarshalVT"
		}, false)...)
		c.RequireGate("C14.3-frame-discipline", readMsg, contains, bodySinks, "body allocation/read/decode")
		c.RequireGate("C14.3-frame-discipline", readMsg, sizeOK, bodySinks, "body allocation/read/decode")
	}

	// ---- C14.4 pooled state
	{
		for _, name := range []string{"outgoingHandshake", "incomingHandshake", "outgoingProtoHandshake", "incomingProtoHandshake"} {
			fn := h(name)
			ok := false
			if len(fn.Blocks) > 0 {
				for _, in := range fn.Blocks[0].Instrs {
					if d, isD := in.(*ssa.Defer); isD && CalleeFn(release)(&d.Call) {
						ok = true
						break
					}
					if _, isCall := in.(*ssa.Call); isCall {
						break
					}
				}
			}
			c.Check(ok, "C14.4-pooled-state", FuncName(fn)+"|defer release() first", p.Pos(fn.Pos()), "the pooled handshake is released on every exit (deferred before any I/O)")
		}
		// reset coverage
		holders := map[string]string{"remoteCred": "Credentials", "remoteAck": "Ack", "localAck": "Ack", "remoteProto": "Proto"}
		for hn, mt := range holders {
			hf := p.Field(hsPkg + ":handshake." + hn)
			st := p.Type(hsProto + ":" + mt).Underlying().(*types.Struct)
			for i := 0; i < st.NumFields(); i++ {
				f := st.Field(i)
				if !f.Exported() {
					continue
				}
				reset := false
				for _, fn := range []*ssa.Function{release, readMsg} {
					Instrs(fn, func(in ssa.Instruction) {
						st, ok := in.(*ssa.Store)
						if !ok {
							return
						}
						fa, ok := st.Addr.(*ssa.FieldAddr)
						if ok && FieldOf(fa) == f && IsLoadOfField(fa.X, hf) {
							reset = true
						}
					})
				}
				if hn == "localAck" && f.Name() != "Error" {
					continue
				}
				c.Check(reset, "C14.4-pooled-state", "handshake."+hn+"|reset "+mt+"."+f.Name(), p.Pos(release.Pos()),
					"field "+f.Name()+" of the pooled "+mt+" is reset in release()/readMsg: a peer that omits it must not be judged with the previous connection's value")
			}
		}
		c.Min("C14.4-pooled-state", 10)
		// values handed out are not the pooled objects
		for _, name := range []string{"outgoingProtoHandshake", "incomingProtoHandshake"} {
			fn := h(name)
			bad := ""
			for _, r := range Returns(fn) {
				v := r.(*ssa.Return).Results[0]
				vals, _ := Origins(v)
				for _, o := range vals {
					if f, _ := LoadedField(o); f != nil && (f.Name() == "proto" || f.Name() == "remoteProto") {
						bad = "returns the pooled Proto message itself at " + p.Pos(InstrPos(r))
					}
				}
			}
			c.Check(bad == "", "C14.4-pooled-state", FuncName(fn)+"|result does not alias pooled message", p.Pos(fn.Pos()), orDefault(bad, "the Proto handed to the caller is a copy / fresh value"))
		}
	}

	// ---- C14.5 bounded wait
	for _, name := range []string{"OutgoingHandshake", "IncomingHandshake", "OutgoingProtoHandshake", "IncomingProtoHandshake"} {
		fn := h(name)
		// (the wait may sit in a driver shared by both directions, new since the anchor snapshot)
		fn, _ = descendTo(fn, calleeMethod("context", "Done"))
		c.Fn(FuncName(fn))
		ok := false
		Instrs(fn, func(in ssa.Instruction) {
			sel, isSel := in.(*ssa.Select)
			if !isSel || !sel.Blocking {
				return
			}
			for si, st := range sel.States {
				if !valueIsResultOf(st.Chan, calleeMethod("context", "Done")) {
					continue
				}
				// the branch taken for this case closes the connection
				for _, cs := range CallsIn(fn) {
					if o := CalleeObj(cs.Common()); o != nil && o.Name() == "Close" && selectCaseDominates(sel, si, cs) {
						ok = true
					}
				}
			}
		})
		c.Check(ok, "C14.5-bounded-wait", FuncName(fn)+"|ctx.Done ⇒ conn.Close", p.Pos(fn.Pos()), "the driver waits on ctx.Done() and closes the connection on that edge (no unbounded wait)")
	}

	// ---- C14.4b the identity attached to the connection must not alias pooled memory: the byte
	// slice stored into handshake.Result.Identity (it outlives the handshake, in the connection
	// context) is not a field of an object taken from a sync.Pool nor of the pooled *Credentials
	// parameter — such an object is reused by the next handshake, which would overwrite the
	// identity an earlier connection was established with.
	{
		rule := "C14.4-result-not-pooled"
		fIdent := p.Field(hsPkg + ":Result.Identity")
		isPoolGet := func(v ssa.Value) bool {
			call, ok := v.(*ssa.Call)
			if !ok {
				return false
			}
			o := CalleeObj(&call.Call)
			return o != nil && o.Pkg() != nil && o.Pkg().Path() == "sync" && o.Name() == "Get"
		}
		var fns []*ssa.Function
		fns = append(fns, p.FuncsOfPkg(hsPkg)...)
		fns = append(fns, p.FuncsOfPkg(ssPkg)...)
		n := 0
		for _, w := range FieldWrites(fns, fIdent) {
			if isTestSupport(p, w.Fn) {
				continue
			}
			n++
			c.Fn(FuncName(w.Fn))
			bad := ""
			vals, _ := Origins(w.Val)
			for _, o := range vals {
				f, base := LoadedField(o)
				if f == nil {
					continue
				}
				if usesValue(base, isPoolGet) {
					bad = "Result.Identity is the " + f.Name() + " slice of an object taken from a sync.Pool: the next handshake that reuses the object overwrites the identity of this connection"
				}
				if pm, ok := base.(*ssa.Parameter); ok && strings.HasSuffix(pm.Type().String(), "handshakeproto.Credentials") {
					bad = "Result.Identity aliases a byte slice of the pooled *Credentials parameter"
				}
			}
			c.Check(bad == "", rule, FuncName(w.Fn)+"|Result.Identity is not pooled memory", p.Pos(InstrPos(w.Instr)), orDefault(bad, "the identity bytes come from a message decoded for this handshake only"))
		}
		c.Min(rule, 1)
	}
}

// variadicConsts returns the constant values stored into the backing array of
// a variadic argument slice.
func variadicConsts(v ssa.Value) []string {
	sl, ok := v.(*ssa.Slice)
	if !ok {
		return nil
	}
	al, ok := sl.X.(*ssa.Alloc)
	if !ok {
		return nil
	}
	var out []string
	for _, ref := range *al.Referrers() {
		ia, ok := ref.(*ssa.IndexAddr)
		if !ok {
			continue
		}
		for _, r2 := range *ia.Referrers() {
			if st, ok := r2.(*ssa.Store); ok {
				val := st.Val
				if mi, isMI := val.(*ssa.MakeInterface); isMI {
					val = mi.X
				}
				if k, isK := val.(*ssa.Const); isK && k.Value != nil {
					out = append(out, k.Value.ExactString())
				} else {
					out = append(out, "?")
				}
			}
		}
	}
	return out
}
