package rules

import (
	"fmt"
	"go/token"
	"go/types"
	"reflect"
	"strconv"
	"strings"

	"golang.org/x/tools/go/ssa"

	. "verif/checker/core"
)

func init() {
	register(&Pack{
		ID: "C03",
		Explanation: "ACL log, decided on SSA: (1) raw-bytes verification on every accepted record — verifyRaw returns nil only across pubKey.Verify(rawRec.Payload, rawRec.Signature)==true and cidutil.VerifyCid(recWithId.Payload, recWithId.Id)==true on exactly those fields of its own parameters; UnmarshallWithId returns a record only across verifyRaw()==nil and (root id ∨ VerifyAcceptor()==nil), with the acceptor check before any decode of the record data; Unmarshall (consensus/preflight) only across Verify over the raw payload; recordVerifier.VerifyAcceptor only across identity.Equals(networkKey) and Verify(rec.Payload, rec.AcceptorSignature); " +
			"(2) chain extension — applyChangeData is reachable only across lastRecordId == record.PrevId, lastRecordId is advanced only after applyChangeData()==nil, AddRawRecord only across an index miss; " +
			"(3) apply-on-copy — every ApplyRecord receiver in package list originates from AclState.Copy()/newAclState* (or a parameter whose callers satisfy the same), never from the live aclList.aclState, and setState / records / indexes are written only across ApplyRecord()==nil; " +
			"(4) RecordsAfter/RecordsBefore build payloads only from StorageRecord.RawRecord delivered by storage and never touch aclList.records or MarshalVT; " +
			"(5) loadRecords returns the index-scan result only across isContiguousChain()==true; (6) the keep-identity partial decoder's field-number constants equal the protobuf struct tags and AclState.Copy re-makes every map field.",
		NotDecided: "Equality of the resulting state across apply modes (one at a time, batches, partial decode, rebuild, catch-up) — a pure-function equality over values; depth of Copy beyond map/slice re-making.",
		Run:        runC03,
	})
}

// fieldOfValue: every origin of v is a load of `field` whose base object
// satisfies base.
func fieldOfValue(v ssa.Value, field *types.Var, base func(ssa.Value) bool) bool {
	vals, unk := Origins(v)
	if unk || len(vals) == 0 {
		return false
	}
	for _, o := range vals {
		f, b := LoadedField(o)
		if f != field {
			return false
		}
		if base != nil && !base(b) {
			// the holder may come out of a producing helper: judge what the helper returns
			bv, bunk := Origins(b)
			if bunk || len(bv) == 0 {
				return false
			}
			nb := 0
			for _, ob := range bv {
				if IsNilConst(ob) {
					continue // the helper's error path; a field of nil cannot be loaded
				}
				nb++
				if ob == b || !base(ob) {
					return false
				}
			}
			if nb == 0 {
				return false
			}
		}
	}
	return true
}

func isParam(fn *ssa.Function, idx int) func(ssa.Value) bool {
	return func(v ssa.Value) bool {
		if idx >= len(fn.Params) {
			return false
		}
		return originatesFromParam(v, fn.Params[idx])
	}
}

func cryptoVerify(c *ssa.CallCommon) bool {
	o := CalleeObj(c)
	return o != nil && o.Name() == "Verify" && o.Pkg() != nil && strings.HasSuffix(o.Pkg().Path(), "util/crypto")
}

// callArgs returns the explicit arguments of a call (without receiver).
func callArgs(c *ssa.CallCommon) []ssa.Value {
	if c.IsInvoke() {
		return c.Args
	}
	if c.Signature().Recv() != nil && len(c.Args) > 0 {
		return c.Args[1:]
	}
	return c.Args
}

func runC03(c *Ctx) {
	p := c.P
	cons := "consensus/consensusproto"
	verifyCid := p.PkgFunc("util/cidutil:VerifyCid")
	rawPayload := p.Field(cons + ":RawRecord.Payload")
	rawSig := p.Field(cons + ":RawRecord.Signature")
	rawAccSig := p.Field(cons + ":RawRecord.AcceptorSignature")
	widPayload := p.Field(cons + ":RawRecordWithId.Payload")
	widId := p.Field(cons + ":RawRecordWithId.Id")

	// ---- C03.1 raw-bytes verification
	{
		fn := p.Func(aclList + ":verifyRaw")
		sinks := SuccessReturns(fn)
		c.RequireGate("C03.1-verify-raw", fn, GBool("pubKey.Verify(payload, signature)==true", cryptoVerify, 0, true), sinks, "nil return")
		c.RequireGate("C03.1-verify-raw", fn, GBool("cidutil.VerifyCid(payload, id)==true", CalleeIs(verifyCid), 0, true), sinks, "nil return")
		for _, cs := range CallSinks(fn, cryptoVerify, false) {
			a := callArgs(cs.(*ssa.Call).Common())
			ok := len(a) == 2 && fieldOfValue(a[0], rawPayload, isParam(fn, 1)) && fieldOfValue(a[1], rawSig, isParam(fn, 1))
			c.Check(ok, "C03.1-verify-raw", FuncName(fn)+"|Verify-operands", p.Pos(InstrPos(cs)), "signature is verified over rawRec.Payload with rawRec.Signature of the same raw record (raw bytes, not re-marshalled)")
		}
		for _, cs := range CallSinks(fn, CalleeIs(verifyCid), false) {
			a := cs.(*ssa.Call).Call.Args
			ok := len(a) == 2 && fieldOfValue(a[0], widPayload, isParam(fn, 2)) && fieldOfValue(a[1], widId, isParam(fn, 2))
			c.Check(ok, "C03.1-verify-raw", FuncName(fn)+"|VerifyCid-operands", p.Pos(InstrPos(cs)), "the id is verified as the hash of recWithId.Payload (the outer bytes) against recWithId.Id")
		}
		c.Min("C03.1-verify-raw", 4)
	}
	{
		fn := p.Func(aclList + ":(*aclRecordBuilder).UnmarshallWithId")
		verifyRaw := p.Func(aclList + ":verifyRaw")
		sinks := SuccessReturns(fn)
		c.RequireGate("C03.1-unmarshal-gated", fn, GErrNil("verifyRaw()==nil", CalleeFn(verifyRaw)), sinks, "non-error return")
		va := p.Method("commonspace/object/acl/recordverifier:AcceptorVerifier.VerifyAcceptor")
		idField := p.Field(aclList + ":aclRecordBuilder.id")
		isRoot := GCmp("rawIdRecord.Id == builder.id (root)", func(a Atom) (bool, bool) {
			if a.Op != token.EQL && a.Op != token.NEQ {
				return false, false
			}
			if (IsLoadOfField(a.X, widId) && IsLoadOfField(a.Y, idField)) || (IsLoadOfField(a.Y, widId) && IsLoadOfField(a.X, idField)) {
				return true, a.Op == token.EQL
			}
			return false, false
		})
		c.RequireAnyGate("C03.1-unmarshal-gated", fn, []Gate{GErrNil("VerifyAcceptor()==nil", CalleeIs(va)), isRoot}, nil, sinks, "non-error return", nil, false)
		// acceptor check precedes decoding the record's data
		decode := p.Func(aclList + ":(*aclRecordBuilder).decodeAclData")
		c.RequireGate("C03.1-unmarshal-gated", fn, GErrNil("VerifyAcceptor()==nil", CalleeIs(va)), CallSinksX(fn, CalleeFn(decode), false), "decode of record data")
		// verifyRaw operands: (pubKey, rawRec decoded from rawIdRecord.Payload, rawIdRecord)
		for _, cs := range CallSinks(fn, CalleeFn(verifyRaw), false) {
			a := cs.(*ssa.Call).Call.Args
			ok := len(a) == 3 && originatesFromParam(a[2], fn.Params[1])
			c.Check(ok, "C03.1-unmarshal-gated", FuncName(fn)+"|verifyRaw-operands", p.Pos(InstrPos(cs)), "verifyRaw receives the record-with-id that was passed in")
		}
		// VerifyAcceptor argument is the raw record decoded from the input payload
		n := 0
		for _, cs := range CallSinks(fn, CalleeIs(va), false) {
			n++
			a := callArgs(cs.(*ssa.Call).Common())
			okArg := false
			if len(a) == 1 {
				// same value as verifyRaw's second operand
				for _, vr := range CallSinks(fn, CalleeFn(verifyRaw), false) {
					if vr.(*ssa.Call).Call.Args[1] == a[0] {
						okArg = true
					}
				}
			}
			c.Check(okArg, "C03.1-unmarshal-gated", FuncName(fn)+"|VerifyAcceptor-operand", p.Pos(InstrPos(cs)), "the acceptor signature is checked on the same raw record whose signature and id are verified")
		}
		_ = n
	}
	{
		fn := p.Func(aclList + ":(*aclRecordBuilder).Unmarshall")
		c.RequireGate("C03.1-unmarshal-gated", fn, GBool("pubKey.Verify(payload, signature)==true", cryptoVerify, 0, true), SuccessReturns(fn), "non-error return")
		for _, cs := range CallSinks(fn, cryptoVerify, false) {
			a := callArgs(cs.(*ssa.Call).Common())
			ok := len(a) == 2 && fieldOfValue(a[0], rawPayload, isParam(fn, 1)) && fieldOfValue(a[1], rawSig, isParam(fn, 1))
			c.Check(ok, "C03.1-unmarshal-gated", FuncName(fn)+"|Verify-operands", p.Pos(InstrPos(cs)), "signature verified over rawRecord.Payload / rawRecord.Signature of the input")
		}
	}
	{
		fn := p.Func("commonspace/object/acl/recordverifier:(*recordVerifier).VerifyAcceptor")
		sinks := SuccessReturns(fn)
		nk := p.Field("commonspace/object/acl/recordverifier:recordVerifier.networkKey")
		eq := boolCallGate("identity.Equals(networkKey)==true", "util/crypto", "Equals", 0, true, func(cc *ssa.CallCommon) bool {
			for _, a := range cc.Args {
				if IsLoadOfField(a, nk) {
					return true
				}
			}
			return false
		})
		c.RequireGate("C03.1-acceptor", fn, eq, sinks, "nil return")
		c.RequireGate("C03.1-acceptor", fn, GBool("identity.Verify(payload, acceptorSignature)==true", cryptoVerify, 0, true), sinks, "nil return")
		for _, cs := range CallSinks(fn, cryptoVerify, false) {
			a := callArgs(cs.(*ssa.Call).Common())
			ok := len(a) == 2 && fieldOfValue(a[0], rawPayload, isParam(fn, 1)) && fieldOfValue(a[1], rawAccSig, isParam(fn, 1))
			c.Check(ok, "C03.1-acceptor", FuncName(fn)+"|Verify-operands", p.Pos(InstrPos(cs)), "acceptor signature verified over rec.Payload with rec.AcceptorSignature")
		}
	}

	// ---- C03.2 chain extension
	applyRecord := p.Func(aclList + ":(*AclState).ApplyRecord")
	applyData := p.Func(aclList + ":(*AclState).applyChangeData")
	lastRec := p.Field(aclList + ":AclState.lastRecordId")
	{
		prevId := p.Field(aclList + ":AclRecord.PrevId")
		chain := GCmp("lastRecordId == record.PrevId", func(a Atom) (bool, bool) {
			if a.Op != token.EQL && a.Op != token.NEQ {
				return false, false
			}
			if (IsLoadOfField(a.X, lastRec) && IsLoadOfField(a.Y, prevId)) || (IsLoadOfField(a.Y, lastRec) && IsLoadOfField(a.X, prevId)) {
				return true, a.Op == token.EQL
			}
			return false, false
		})
		c.RequireGate("C03.2-chain-extension", applyRecord, chain, CallSinksX(applyRecord, CalleeFn(applyData), false), "call applyChangeData")
		var stores []ssa.Instruction
		for _, w := range FieldWrites([]*ssa.Function{applyRecord}, lastRec) {
			stores = append(stores, w.Instr)
		}
		c.RequireGate("C03.2-chain-extension", applyRecord, GErrNil("applyChangeData()==nil", CalleeFn(applyData)), stores, "store lastRecordId")
		// lastRecordId writers: ApplyRecord, root application, Copy
		for _, w := range FieldWrites(p.FuncsOfPkg(aclList), lastRec) {
			if w.Kind == "init" {
				continue
			}
			n := TopFunc(w.Fn).Name()
			ok := n == "ApplyRecord" || n == "applyRoot" || n == "Copy" || n == "setOneToOneAcl"
			c.Check(ok, "C03.2-chain-extension", FuncName(w.Fn)+"|lastRecordId-writer", p.Pos(InstrPos(w.Instr)), "lastRecordId is advanced only by ApplyRecord / root application / Copy")
		}
		addRaw := p.Func(aclList + ":(*aclList).AddRawRecord")
		c.RequireGate("C03.2-chain-extension", addRaw, mapOkGate(p.Field(aclList+":aclList.indexes"), false), CallSinksX(addRaw, CalleeFn(applyRecord), false), "call ApplyRecord")
	}

	// ---- C03.3 apply on a copy, swap on success
	{
		copyFn := p.Func(aclList + ":(*AclState).Copy")
		fresh := func(cc *ssa.CallCommon) bool {
			f := CalleeFunc(cc)
			if f == nil {
				return false
			}
			return f == copyFn || strings.HasPrefix(f.Name(), "newAclState")
		}
		n := 0
		for _, cs := range Callers(prodFuncs(p), CalleeFn(applyRecord)) {
			n++
			recv := cs.Instr.(ssa.CallInstruction).Common().Args[0]
			vals, unk := Origins(recv)
			ok := !unk && len(vals) > 0
			how := "receiver is a fresh copy / freshly built state"
			for _, o := range vals {
				if call, _, isRes := CallResult(o); isRes && fresh(&call.Call) {
					continue
				}
				if pm, isP := o.(*ssa.Parameter); isP && pm != cs.Fn.Params[0] {
					how = "receiver is a parameter (state under construction handed in by the builder)"
					// callers of that function must pass a fresh state
					for _, c2 := range Callers(prodFuncs(p), CalleeFn(cs.Fn)) {
						for i, a := range c2.Instr.(ssa.CallInstruction).Common().Args {
							if i < len(cs.Fn.Params) && cs.Fn.Params[i] == pm {
								v2, u2 := Origins(a)
								for _, o2 := range v2 {
									if call, _, isRes := CallResult(o2); !(isRes && fresh(&call.Call)) {
										ok = false
									}
								}
								if u2 {
									ok = false
								}
							}
						}
					}
					continue
				}
				ok = false
			}
			c.Check(ok, "C03.3-apply-on-copy", FuncName(cs.Fn)+"|ApplyRecord-receiver", p.Pos(InstrPos(cs.Instr)), orDefault(ifs(!ok, "ApplyRecord is applied to a state that is not a fresh copy (a rejected record would leave the observable state changed)"), how))
		}
		c.Min("C03.3-apply-on-copy", 4)
		addRaw := p.Func(aclList + ":(*aclList).AddRawRecord")
		setState := p.FuncOpt(aclList + ":(*aclList).setState") // may have been inlined into its only caller
		var sinks []ssa.Instruction
		if setState != nil {
			sinks = append(sinks, CallSinksX(addRaw, CalleeFn(setState), false)...)
		}
		// direct writes, also inside a commit helper new since the anchor snapshot
		listWrite := map[ssa.Instruction]bool{}
		for _, f := range []string{"records", "indexes", "aclState"} {
			for _, w := range FieldWrites(regionFuncs(addRaw), p.Field(aclList+":aclList."+f)) {
				listWrite[w.Instr] = true
			}
		}
		for _, s := range InstrSinksX(addRaw, func(in ssa.Instruction) bool { return listWrite[in] }) {
			dup := false
			for _, x := range sinks {
				if x == s {
					dup = true
				}
			}
			if !dup {
				sinks = append(sinks, s)
			}
		}
		c.RequireGate("C03.3-apply-on-copy", addRaw, GErrNil("ApplyRecord()==nil", CalleeFn(applyRecord)), sinks, "list mutation (setState / records / indexes)")
		// who writes aclList.aclState
		for _, w := range FieldWrites(p.FuncsOfPkg(aclList), p.Field(aclList+":aclList.aclState")) {
			if w.Kind == "init" {
				continue
			}
			n := TopFunc(w.Fn).Name()
			ok := n == "setState" || n == "build"
			if !ok && setState == nil {
				// setState inlined: the write belongs to AddRawRecord (or a part of it split off since)
				ok = allowedVia(p, w.Fn, func(f *ssa.Function) bool { return f == addRaw })
			}
			c.Check(ok, "C03.3-apply-on-copy", FuncName(w.Fn)+"|aclState-writer", p.Pos(InstrPos(w.Instr)), "aclList.aclState replaced only by setState / build")
		}
	}

	// ---- C03.4 serve raw bytes from storage
	for _, name := range []string{"RecordsAfter", "RecordsBefore"} {
		fn := p.Func(aclList + ":(*aclList)." + name)
		fns := regionFuncs(fn) // closures, and helpers new since the snapshot (e.g. the iterator built by a factory)
		bad := ""
		recordsF := p.Field(aclList + ":aclList.records")
		if len(FieldReads(fns, recordsF)) > 0 {
			bad = "reads aclList.records (the shrunken in-memory view) while serving peers"
		}
		for _, f := range fns {
			for _, cs := range CallsIn(f) {
				if o := CalleeObj(cs.Common()); o != nil && strings.HasPrefix(o.Name(), "Marshal") {
					bad = "re-marshals a record (" + o.Name() + ") instead of serving stored bytes"
				}
			}
		}
		// every RawRecordWithId.Payload store takes a value derived from the StorageRecord parameter of the iterator
		srRaw := p.Field(aclList + ":StorageRecord.RawRecord")
		n := 0
		for _, f := range fns {
			for _, w := range FieldWrites([]*ssa.Function{f}, widPayload) {
				n++
				if !derivesFromField(w.Val, srRaw) {
					bad = "RawRecordWithId.Payload at " + p.Pos(InstrPos(w.Instr)) + " is not derived from StorageRecord.RawRecord"
				}
			}
		}
		if n == 0 && bad == "" {
			bad = "no RawRecordWithId payload is produced"
		}
		c.Check(bad == "", "C03.4-serve-from-storage", FuncName(fn), p.Pos(fn.Pos()), orDefault(bad, "payloads are copies of StorageRecord.RawRecord delivered by storage; aclList.records and Marshal* are not touched"))
	}

	// ---- C03.5 load path cross-check
	{
		fn := p.Func(aclList + ":loadRecords")
		scan := p.Func(aclList + ":loadRecordsByScan")
		chainOK := p.Func(aclList + ":isContiguousChain")
		byPrev := p.Func(aclList + ":loadRecordsByPrevId")
		var sinks []ssa.Instruction
		for _, r := range Returns(fn) {
			if valueIsResultOf(r.(*ssa.Return).Results[0], CalleeFn(scan)) {
				sinks = append(sinks, r)
			}
		}
		c.RequireGate("C03.5-load-crosscheck", fn, GBool("isContiguousChain()==true", CalleeFn(chainOK), 0, true), sinks, "return of the index-scan result")
		// every other return hands back loadRecordsByPrevId's result
		ok := true
		for _, r := range Returns(fn) {
			v := r.(*ssa.Return).Results[0]
			if !valueIsResultOf(v, CalleeFn(scan)) && !valueIsResultOf(v, CalleeFn(byPrev)) {
				ok = false
			}
		}
		c.Check(ok, "C03.5-load-crosscheck", FuncName(fn)+"|fallback", p.Pos(fn.Pos()), "any other return is the PrevId walk's result")
	}

	// ---- C03.6 partial-decode table agreement + Copy coverage
	{
		table := map[string][2]string{
			"fieldAclDataContent":             {"AclData", "AclContent"},
			"fieldContentReadKeyChange":       {"AclContentValue_ReadKeyChange", "ReadKeyChange"},
			"fieldContentAccountRemove":       {"AclContentValue_AccountRemove", "AccountRemove"},
			"fieldRkcAccountKeys":             {"AclReadKeyChange", "AccountKeys"},
			"fieldRkcMetadataPubKey":          {"AclReadKeyChange", "MetadataPubKey"},
			"fieldRkcEncryptedMetadataPriv":   {"AclReadKeyChange", "EncryptedMetadataPrivKey"},
			"fieldRkcEncryptedOldReadKey":     {"AclReadKeyChange", "EncryptedOldReadKey"},
			"fieldRkcInviteKeys":              {"AclReadKeyChange", "InviteKeys"},
			"fieldAccountRemoveIdentities":    {"AclAccountRemove", "Identities"},
			"fieldAccountRemoveReadKeyChange": {"AclAccountRemove", "ReadKeyChange"},
			"fieldEncReadKeyIdentity":         {"AclEncryptedReadKey", "Identity"},
			"fieldEncReadKeyEncryptedKey":     {"AclEncryptedReadKey", "EncryptedReadKey"},
		}
		scope := p.Pkg(aclList).Types.Scope()
		seen := 0
		for _, n := range scope.Names() {
			k, ok := scope.Lookup(n).(*types.Const)
			if !ok || !strings.HasPrefix(n, "field") {
				continue
			}
			tf, known := table[n]
			if !known {
				c.Violate("C03.6-field-numbers", "keepidentity|"+n, p.Pos(k.Pos()), "field-number constant "+n+" is not in the checker's table: add the proto field it stands for")
				continue
			}
			seen++
			st := p.Type(aclProto + ":" + tf[0]).Underlying().(*types.Struct)
			tagNum := ""
			for i := 0; i < st.NumFields(); i++ {
				if st.Field(i).Name() == tf[1] {
					tag := reflect.StructTag(st.Tag(i)).Get("protobuf")
					parts := strings.Split(tag, ",")
					if len(parts) >= 2 {
						tagNum = parts[1]
					}
				}
			}
			c.Check(tagNum != "" && tagNum == k.Val().ExactString(), "C03.6-field-numbers", "keepidentity|"+n, p.Pos(k.Pos()),
				fmt.Sprintf("%s = %s; generated %s.%s carries protobuf field number %s", n, k.Val().ExactString(), tf[0], tf[1], strconv.Quote(tagNum)))
		}
		c.Min("C03.6-field-numbers", 12)
		// Copy re-makes every map field of AclState
		copyFn := p.Func(aclList + ":(*AclState).Copy")
		st := p.Type(aclList + ":AclState").Underlying().(*types.Struct)
		for i := 0; i < st.NumFields(); i++ {
			f := st.Field(i)
			if _, isMap := f.Type().Underlying().(*types.Map); !isMap {
				continue
			}
			fresh := false
			for _, w := range FieldWrites([]*ssa.Function{copyFn}, f) {
				if _, isMake := w.Val.(*ssa.MakeMap); isMake {
					fresh = true
				}
			}
			filled := false
			for _, w := range FieldWrites([]*ssa.Function{copyFn}, f) {
				if w.Kind == "mapupdate" {
					filled = true
				}
			}
			c.Check(fresh && filled, "C03.6-copy-coverage", FuncName(copyFn)+"|"+f.Name(), p.Pos(copyFn.Pos()), "map field "+f.Name()+" is re-made and refilled in Copy (a shared map would let a rejected record mutate the live state)")
		}
		// slices of AclState are re-appended, not shared
		for i := 0; i < st.NumFields(); i++ {
			f := st.Field(i)
			if _, isSlice := f.Type().Underlying().(*types.Slice); !isSlice {
				continue
			}
			ok := false
			for _, w := range FieldWrites([]*ssa.Function{copyFn}, f) {
				if call, isCall := w.Val.(*ssa.Call); isCall {
					if b, isB := call.Call.Value.(*ssa.Builtin); isB && b.Name() == "append" {
						ok = true
					}
				}
			}
			c.Check(ok, "C03.6-copy-coverage", FuncName(copyFn)+"|"+f.Name(), p.Pos(copyFn.Pos()), "slice field "+f.Name()+" is copied by append in Copy")
		}
		c.Min("C03.6-copy-coverage", 6)
	}

	// ---- C03.7 the partial (memory-saving) decode keeps our own read key by the SAME identity
	// test the state machine applies (PubKeyFromProto + Equals): in isOurIdentity a `false`
	// answer is produced only by the failing edge of PubKeyFromProto, a missing own key, or by
	// Equals itself — never by a shortcut on the raw bytes, which would make the state depend
	// on the encoding of an identity (partial decode ≠ full decode).
	{
		rule := "C03.7-partial-decode-identity"
		fn := p.Func(aclList + ":(*aclRecordBuilder).isOurIdentity")
		c.Fn(FuncName(fn))
		pkFromProto := calleeMethod("util/crypto", "PubKeyFromProto")
		fOurPub := p.Field(aclList + ":aclRecordBuilder.ourPubKey")
		semFail := map[Edge]bool{}
		gErr := GErrNil("PubKeyFromProto()==nil", pkFromProto)
		for e := range gErr.FailEdges(fn) {
			semFail[e] = true
		}
		for e := range GNil("ourPubKey!=nil", fieldLoad(fOurPub), false).FailEdges(fn) {
			semFail[e] = true
		}
		_, errSites := gErr.PassEdges(fn)
		usesEquals := false
		for _, ci := range CallsIn(fn) {
			if o := CalleeObj(ci.Common()); o != nil && o.Name() == "Equals" {
				usesEquals = true
			}
		}
		r := Reach(fn, ReachOpts{Removed: semFail})
		bad := ""
		isFalse := func(v ssa.Value) bool { b, ok := BoolConst(v); return ok && !b }
		for _, ri := range Returns(fn) {
			ret := ri.(*ssa.Return)
			if len(ret.Results) != 1 {
				continue
			}
			switch v := ret.Results[0].(type) {
			case *ssa.Const:
				if isFalse(v) && r.Reachable(ret) {
					bad = "`return false` at " + p.Pos(InstrPos(ret)) + " is reachable without a failed PubKeyFromProto / Equals (witness " + r.Path(p, ret) + ")"
				}
			case *ssa.Phi:
				for i, e := range v.Edges {
					if !isFalse(e) {
						continue
					}
					pr := v.Block().Preds[i]
					viaSem := false
					for si, s := range pr.Succs {
						if s == v.Block() && semFail[Edge{pr, si}] {
							viaSem = true
						}
					}
					if !viaSem && len(pr.Instrs) > 0 && r.Reachable(pr.Instrs[0]) {
						bad = "the answer `false` produced at " + p.Pos(InstrPos(pr.Instrs[len(pr.Instrs)-1])) + " does not come from PubKeyFromProto failing, a missing own key or Equals"
					}
				}
			}
		}
		if len(errSites) == 0 || !usesEquals {
			bad = "isOurIdentity no longer decides by PubKeyFromProto + Equals (the test AclState.applyReadKeyChange applies)"
		}
		c.Check(bad == "", rule, FuncName(fn)+"|negative answer is semantic", p.Pos(fn.Pos()), orDefault(bad, "an identity is declared foreign only after PubKeyFromProto failed or Equals said so (same test as the full decode path)"))
	}
}

// derivesFromField: v is built (through append / slice / make+copy / phi) from
// loads of the given field only (plus constants and fresh allocations).
func derivesFromField(v ssa.Value, field *types.Var) bool {
	seen := map[ssa.Value]bool{}
	found := false
	var walk func(v ssa.Value) bool
	walk = func(v ssa.Value) bool {
		if seen[v] {
			return true
		}
		seen[v] = true
		switch x := v.(type) {
		case *ssa.Const, *ssa.MakeSlice, *ssa.Alloc:
			return true
		case *ssa.Slice:
			return walk(x.X)
		case *ssa.Phi:
			for _, e := range x.Edges {
				if !walk(e) {
					return false
				}
			}
			return true
		case *ssa.Call:
			if b, ok := x.Call.Value.(*ssa.Builtin); ok && b.Name() == "append" {
				for _, a := range x.Call.Args {
					if !walk(a) {
						return false
					}
				}
				return true
			}
			if o := CalleeObj(&x.Call); o != nil && o.Pkg() != nil && (o.Pkg().Path() == "bytes" && o.Name() == "Clone" || o.Pkg().Path() == "slices" && o.Name() == "Clone") {
				return walk(x.Call.Args[0])
			}
			return false
		}
		vals, unk := Origins(v)
		if unk || len(vals) == 0 {
			return false
		}
		for _, o := range vals {
			if o == v {
				f, _ := LoadedField(o)
				if f == field {
					found = true
					continue
				}
				return false
			}
			if !walk(o) {
				return false
			}
		}
		return true
	}
	return walk(v) && found
}
