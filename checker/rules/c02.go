package rules

import (
	"go/token"
	"go/types"
	"strings"

	"golang.org/x/tools/go/ssa"

	. "verif/checker/core"
)

const otPkg = "commonspace/object/tree/objecttree"
const tcProto = "commonspace/object/tree/treechangeproto"

func init() {
	register(&Pack{
		ID: "C02",
		Explanation: "Authenticity/authorisation gates of the tree ingress path, decided on SSA: (1) changeBuilder.Unmarshall with verify=true returns a change only across cidutil.VerifyCid(rawIdChange.RawChange, rawIdChange.Id)==true and (change is the derived root ∨ Identity.Verify(raw.Payload, raw.Signature)==true), the signature being checked on the very message decoded from the bytes whose CID was checked; every field of the REUSED decode target (changeBuilder.rawTreeCh) is reset before each decode (vtproto decoding does not clear absent fields); Change.IsDerived is set only when building the root; " +
			"(2) ingress provenance — every change appended to objectTree.newChangesBuf in addChangesToTree is the result of Unmarshall(ch, true) with the constant true or a value loaded from Tree.unAttached; unAttached is cleared on every exit of Tree.Add/AddFast; calls of Unmarshall(…, false) exist only in the enumerated storage-reading functions; " +
			"(3) validation cannot be skipped — in addChangesToTree a non-error return after Tree.Add attached something is reachable only across validateTree()==nil; rebuildFromStorage's success return only across validateTree()==nil; validateChange returns nil for a non-derived change only across PermissionsAtRecord()==nil, CanWrite()==true and, per parent with another ACL head, IsAfter()==(true,nil); PermissionsAtRecord only across HasHead-style record lookup; " +
			"(4) noOpTreeValidator / nonVerifiableChangeBuilder are constructed only in the enumerated test/migration/history constructors; (5) the rollback closure of addChangesToTree deletes every added id, strips them from Next of ALL attached changes, and restores headIds and lastIteratedHeadId.",
		NotDecided: "Which byte mutations flip the CID/signature outcome (crypto values); permission arithmetic of PermissionsAtRecord; that rollback restores exactly the prior tree (value level).",
		Run:        runC02,
	})
}

// requireResetBeforeDecode: for every UnmarshalVT on a message loaded from the
// struct field `holder` (a reused decode target), every exported field of the
// message type has a store that every path to the decode passes.
func requireResetBeforeDecode(c *Ctx, rule string, fn *ssa.Function, holder *types.Var, msg *types.Named) {
	p := c.P
	st := msg.Underlying().(*types.Struct)
	n := 0
	top := fn
	// (reset and decode may have been moved together into a function new since the snapshot)
	for _, fn := range regionFuncs(top) {
		for _, cs := range CallsIn(fn) {
			call, ok := cs.(*ssa.Call)
			if !ok {
				continue
			}
			o := CalleeObj(&call.Call)
			if o == nil || !strings.HasPrefix(o.Name(), "Unmarshal") || len(call.Call.Args) == 0 {
				continue
			}
			if !IsLoadOfField(call.Call.Args[0], holder) {
				continue
			}
			n++
			for i := 0; i < st.NumFields(); i++ {
				f := st.Field(i)
				if !f.Exported() {
					continue
				}
				isReset := func(in ssa.Instruction) bool {
					s, ok := in.(*ssa.Store)
					if !ok {
						return false
					}
					fa, ok := s.Addr.(*ssa.FieldAddr)
					return ok && FieldOf(fa) == f && IsLoadOfField(fa.X, holder)
				}
				r := Reach(fn, ReachOpts{Cut: isReset})
				c.Check(!r.Reachable(call), rule, FuncName(fn)+"|reset "+msg.Obj().Name()+"."+f.Name()+" before decode into reused "+holder.Name(), p.Pos(InstrPos(call)),
					"field "+f.Name()+" of the reused decode target is reset on every path before UnmarshalVT (an absent field would otherwise keep the previous message's value)")
			}
		}
	}
	fn = top
	if n == 0 {
		c.Violate(rule, FuncName(fn)+"|decode into reused "+holder.Name(), p.Pos(fn.Pos()), "no decode into the reused message found (rule table out of date)")
	}
}

func runC02(c *Ctx) {
	p := c.P
	verifyCid := p.PkgFunc("util/cidutil:VerifyCid")
	unm := p.Func(otPkg + ":(*changeBuilder).Unmarshall")
	mUnm := p.Method(otPkg + ":ChangeBuilder.Unmarshall")
	rawCh := p.Field(tcProto + ":RawTreeChangeWithId.RawChange")
	rawId := p.Field(tcProto + ":RawTreeChangeWithId.Id")
	rtcPayload := p.Field(tcProto + ":RawTreeChange.Payload")
	rtcSig := p.Field(tcProto + ":RawTreeChange.Signature")
	holder := p.Field(otPkg + ":changeBuilder.rawTreeCh")
	isDerived := p.Field(otPkg + ":Change.IsDerived")

	// ---- C02.1 verifier shape
	{
		verifyParam := unm.Params[2]
		noVerify := GCmp("verify parameter", func(a Atom) (bool, bool) {
			if a.Op != token.ILLEGAL || a.X != ssa.Value(verifyParam) {
				return false, false
			}
			return true, true
		})
		base := noVerify.FailEdges(unm) // verify == false edges are out of scope
		sinks := SuccessReturns(unm)
		c.RequireAnyGate("C02.1-verifier-shape", unm, []Gate{GBool("cidutil.VerifyCid(raw, id)==true", CalleeIs(verifyCid), 0, true)}, nil, sinks, "non-error return (verify=true)", base, false)
		derived := GCmp("change.IsDerived==true", func(a Atom) (bool, bool) {
			if a.Op != token.ILLEGAL || !IsLoadOfField(a.X, isDerived) {
				return false, false
			}
			return true, true
		})
		c.RequireAnyGate("C02.1-verifier-shape", unm, []Gate{GBool("Identity.Verify(payload, signature)==true", cryptoVerify, 0, true), derived}, nil, sinks, "non-error return (verify=true)", base, false)
		for _, cs := range CallSinks(unm, CalleeIs(verifyCid), false) {
			a := cs.(*ssa.Call).Call.Args
			ok := len(a) == 2 && fieldOfValue(a[0], rawCh, isParam(unm, 1)) && fieldOfValue(a[1], rawId, isParam(unm, 1))
			c.Check(ok, "C02.1-verifier-shape", FuncName(unm)+"|VerifyCid-operands", p.Pos(InstrPos(cs)), "the id is checked as the hash of rawIdChange.RawChange against rawIdChange.Id of the input")
		}
		fromHolder := func(v ssa.Value) bool { return IsLoadOfField(v, holder) }
		for _, cs := range CallSinks(unm, cryptoVerify, false) {
			a := callArgs(cs.(*ssa.Call).Common())
			ok := len(a) == 2 && fieldOfValue(a[0], rtcPayload, fromHolder) && fieldOfValue(a[1], rtcSig, fromHolder)
			c.Check(ok, "C02.1-verifier-shape", FuncName(unm)+"|Verify-operands", p.Pos(InstrPos(cs)), "the signature is verified over raw.Payload with raw.Signature of the message decoded from the input bytes (not re-marshalled)")
		}
		// decode source = the same RawChange
		for _, cs := range CallsIn(unm) {
			call, ok := cs.(*ssa.Call)
			if !ok {
				continue
			}
			o := CalleeObj(&call.Call)
			if o == nil || o.Name() != "UnmarshalVT" {
				continue
			}
			src := call.Call.Args[1]
			ok2 := fieldOfValue(src, rawCh, isParam(unm, 1)) || valueIsResultOf(src, func(cc *ssa.CallCommon) bool {
				g := CalleeObj(cc)
				return g != nil && g.Name() == "GetRawChange" && originatesFromParam(cc.Args[0], unm.Params[1])
			})
			c.Check(ok2, "C02.1-verifier-shape", FuncName(unm)+"|decode-source", p.Pos(InstrPos(call)), "the change is decoded from the same RawChange bytes whose CID is verified")
		}
		requireResetBeforeDecode(c, "C02.1-reused-decode-target-reset", unm, holder, p.Type(tcProto+":RawTreeChange"))
		// IsDerived writers
		for _, w := range FieldWrites(prodFuncs(p), isDerived) {
			n := TopFunc(w.Fn).Name()
			ok := n == "NewChangeFromRoot" || n == "unmarshallRawChange"
			c.Check(ok, "C02.1-verifier-shape", FuncName(w.Fn)+"|Change.IsDerived-writer", p.Pos(InstrPos(w.Instr)), "Change.IsDerived is set only while building a change from the root")
		}
		// NewChangeFromRoot called only under isRoot(id)
		ncr := p.Func(otPkg + ":NewChangeFromRoot")
		isRoot := p.Func(otPkg + ":(*changeBuilder).isRoot")
		for _, spec := range []string{"unmarshallRawChange", "unmarshallReducedRawChange"} {
			fn := p.Func(otPkg + ":(*changeBuilder)." + spec)
			if s := CallSinks(fn, CalleeFn(ncr), false); len(s) > 0 {
				c.RequireGate("C02.1-verifier-shape", fn, GBool("isRoot(id)==true", CalleeFn(isRoot), 0, true), s, "NewChangeFromRoot")
			}
		}
	}

	// ---- C02.2 ingress provenance
	addToTree := p.Func(otPkg + ":(*objectTree).addChangesToTree")
	{
		buf := p.Field(otPkg + ":objectTree.newChangesBuf")
		unAtt := p.Field(otPkg + ":Tree.unAttached")
		n := 0
		for _, w := range FieldWrites([]*ssa.Function{addToTree}, buf) {
			call, ok := w.Val.(*ssa.Call)
			if !ok {
				// reset to [:0] or result of FilterChanges
				continue
			}
			b, isB := call.Call.Value.(*ssa.Builtin)
			if !isB || b.Name() != "append" {
				continue
			}
			n++
			// appended element(s)
			ok2 := true
			detail := "appended change is Unmarshall(ch, true) or a change parked in Tree.unAttached by this tree"
			for _, el := range appendedElems(call) {
				vals, unk := Origins(el)
				if unk || len(vals) == 0 {
					ok2 = false
				}
				for _, o := range vals {
					if cl, idx, isRes := CallResult(o); isRes && idx == 0 && CalleeIs(mUnm)(&cl.Call) {
						args := callArgs(&cl.Call)
						if b, isC := BoolConst(args[len(args)-1]); !(isC && b) {
							ok2 = false
							detail = "a change enters the tree through Unmarshall with verify != true"
						}
						continue
					}
					if ex, isEx := o.(*ssa.Extract); isEx && ex.Index == 0 {
						if l, isL := ex.Tuple.(*ssa.Lookup); isL && IsLoadOfField(l.X, unAtt) {
							continue
						}
					}
					if l, isL := o.(*ssa.Lookup); isL && IsLoadOfField(l.X, unAtt) {
						continue
					}
					ok2 = false
					detail = "a change of unknown provenance is appended to newChangesBuf: " + o.String()
				}
			}
			c.Check(ok2, "C02.2-ingress-provenance", FuncName(addToTree)+"|append newChangesBuf", p.Pos(InstrPos(w.Instr)), detail)
		}
		c.Min("C02.2-ingress-provenance", 1)
		// unAttached cleared on every exit of Tree.Add / AddFast
		clear := p.Func(otPkg + ":(*Tree).clearUnattached")
		for _, name := range []string{"Add", "AddFast"} {
			fn := p.Func(otPkg + ":(*Tree)." + name)
			add := p.Func(otPkg + ":(*Tree).add")
			requireFollowedBy(c, "C02.2-ingress-provenance", fn, CallSinksX(fn, CalleeFn(add), false), "Tree.add", CalleeFn(clear), "clearUnattached", false)
		}
		// verify=false call sites
		allowed := map[string]string{
			"(*treeBuilder).loadChange": "storage row", "(*treeBuilder).build": "storage row", "(*treeBuilder).buildWithAdded": "storage row",
			"(*objectTree).IterateAfterAddSeq": "storage row", "(*nonVerifiableChangeBuilder).Unmarshall": "test/migration builder",
			"(*loadIterator).load": "storage row", "(*historyTree).rebuildFromStorage": "storage row", "buildHistoryTree": "storage row (history view of stored changes)",
		}
		for _, cs := range Callers(prodFuncs(p), CalleeIs(mUnm)) {
			args := callArgs(cs.Instr.(ssa.CallInstruction).Common())
			b, isC := BoolConst(args[len(args)-1])
			if isC && b {
				continue
			}
			top := TopFunc(cs.Fn)
			short := strings.TrimPrefix(FuncName(top), otPkg+".")
			short = strings.Replace(short, "(*"+otPkg+".", "(*", 1)
			why, ok := allowed[short]
			if ok {
				// its argument must derive from a StorageChange (RawTreeChangeWithId built from storage)
			}
			c.Check(ok, "C02.2-unverified-decode-sites", FuncName(top)+"|Unmarshall(verify=false)", p.Pos(InstrPos(cs.Instr)), orDefault(ifs(ok, "unverified decode of a "+why), "Unmarshall with verify=false outside the enumerated storage-reading functions"))
		}
	}

	// ---- C02.3 validation cannot be skipped
	{
		validate := p.Func(otPkg + ":(*objectTree).validateTree")
		tAdd := p.Func(otPkg + ":(*Tree).Add")
		// starting after Tree.Add, with the mode==Nothing edge removed, a success return needs validateTree==nil
		nothing := GCmp("Tree.Add mode == Nothing", func(a Atom) (bool, bool) {
			if a.Op != token.EQL && a.Op != token.NEQ || !valueIsResultOf(a.X, CalleeFn(tAdd)) {
				return false, false
			}
			k, ok := a.Y.(*ssa.Const)
			if !ok || k.Value == nil || k.Value.ExactString() != constVal(p, otPkg, "Nothing") {
				return false, false
			}
			return true, a.Op == token.EQL
		})
		adds := CallSinks(addToTree, CalleeFn(tAdd), false)
		ok := len(adds) == 1
		bad := ""
		if ok {
			removed, _ := nothing.PassEdges(addToTree)
			pe, sites := GErrNil("validateTree()==nil", CalleeFn(validate)).PassEdges(addToTree)
			if len(sites) == 0 {
				bad = "validateTree is not called/tested after Tree.Add"
			}
			for e := range pe {
				removed[e] = true
			}
			r := Reach(addToTree, ReachOpts{From: adds[0], Removed: removed})
			for _, ret := range Returns(addToTree) {
				if r.Reachable(ret) && !IsErrorExit(ret.(*ssa.Return)) {
					bad = "after Tree.Add attached changes a non-error return at " + p.Pos(InstrPos(ret)) + " is reachable without validateTree()==nil (witness " + r.Path(p, ret) + ")"
				}
			}
		} else {
			bad = "expected one Tree.Add call in addChangesToTree"
		}
		c.Check(bad == "", "C02.3-validation-not-skippable", FuncName(addToTree)+"|validateTree after Tree.Add", p.Pos(addToTree.Pos()), orDefault(bad, "every non-error return after an attaching Tree.Add crosses validateTree()==nil"))
		rebuild := p.Func(otPkg + ":(*objectTree).rebuildFromStorage")
		c.RequireGate("C02.3-validation-not-skippable", rebuild, GErrNil("validateTree()==nil", CalleeFn(validate)), SuccessReturns(rebuild), "non-error return")
		// validateTree dispatches to the validator's ValidateNewChanges / ValidateFullTree and returns its verdict
		vNew := p.Method(otPkg + ":ObjectTreeValidator.ValidateNewChanges")
		vFull := p.Method(otPkg + ":ObjectTreeValidator.ValidateFullTree")
		by, _ := MustPass(validate, nil, CutAtCall(CalleeIs(vNew, vFull)), SuccessReturns(validate), nil)
		c.Check(len(by) == 0, "C02.3-validation-not-skippable", FuncName(validate)+"|delegates", p.Pos(validate.Pos()), "validateTree always runs the validator (ValidateNewChanges / ValidateFullTree)")
		// ValidateNewChanges propagates validateChange errors
		vc := p.Func(otPkg + ":(*objectTreeValidator).validateChange")
		requirePropagates(c, "C02.3-validation-not-skippable", p.Func(otPkg+":(*objectTreeValidator).ValidateNewChanges"), CalleeFn(vc), "validateChange")
		// validateChange gates
		sinks := SuccessReturns(vc)
		derivedEdge := GCmp("change.IsDerived==true", func(a Atom) (bool, bool) {
			if a.Op != token.ILLEGAL || !IsLoadOfField(a.X, isDerived) {
				return false, false
			}
			return true, true
		})
		par := CalleeNamed("acl/list", "AclState", "PermissionsAtRecord")
		c.RequireAnyGate("C02.3-validate-change", vc, []Gate{GErrNil("PermissionsAtRecord()==nil", par), derivedEdge}, nil, sinks, "nil return", nil, false)
		canWrite := boolCallGate("perms.CanWrite()==true", "acl/list", "CanWrite", 0, true, nil)
		c.RequireAnyGate("C02.3-validate-change", vc, []Gate{canWrite, derivedEdge}, nil, sinks, "nil return", nil, false)
		// PermissionsAtRecord arguments: (c.AclHeadId, c.Identity) of the validated change
		for _, cs := range CallSinks(vc, par, false) {
			a := callArgs(cs.(*ssa.Call).Common())
			ok := len(a) == 2 && fieldOfValue(a[0], p.Field(otPkg+":Change.AclHeadId"), isParam(vc, 3)) && fieldOfValue(a[1], p.Field(otPkg+":Change.Identity"), isParam(vc, 3))
			c.Check(ok, "C02.3-validate-change", FuncName(vc)+"|PermissionsAtRecord-operands", p.Pos(InstrPos(cs)), "permissions are looked up at the ACL record the change cites, for the identity the change names")
		}
		// IsAfter loop: an iteration completes only across same-head / derived-parent / IsAfter==(true,nil)
		isAfter := CalleeNamed("acl/list", "AclList", "IsAfter")
		sameHead := GCmp("prev.AclHeadId == c.AclHeadId", func(a Atom) (bool, bool) {
			ah := p.Field(otPkg + ":Change.AclHeadId")
			if (a.Op != token.EQL && a.Op != token.NEQ) || !IsLoadOfField(a.X, ah) || !IsLoadOfField(a.Y, ah) {
				return false, false
			}
			return true, a.Op == token.EQL
		})
		c.RequireAnyGate("C02.3-validate-change", vc, []Gate{GBool("aclList.IsAfter()==true", isAfter, 0, true), sameHead, derivedEdge}, nil, sinks, "nil return", nil, true)
		c.RequireAnyGate("C02.3-validate-change", vc, []Gate{GErrNil("aclList.IsAfter() err==nil", isAfter), sameHead, derivedEdge}, nil, sinks, "nil return", nil, true)
		// PermissionsAtRecord: refuses unknown records
		parFn := p.Func(aclList + ":(*AclState).PermissionsAtRecord")
		hasHead := CalleeNamed("acl/list", "aclList", "HasHead")
		c.RequireGate("C02.3-validate-change", parFn, GBool("list.HasHead(id)==true", hasHead, 0, true), SuccessReturns(parFn), "non-error return")
	}

	// ---- C02.4 production constructors use verifying parts
	{
		allowedCtor := map[string]bool{
			"BuildTestableTree": true, "BuildEmptyDataTestableTree": true, "nonVerifiableTreeDeps": true, "nonVerifiableEmptyDataTreeDeps": true,
			"BuildNonVerifiableHistoryTree": true, "BuildMigratableObjectTree": true, "emptyDataTreeDeps": false,
			"MigrateTreeStorage": true, // local storage migration: re-reads rows of the old local database
		}
		for _, tn := range []string{"noOpTreeValidator", "nonVerifiableChangeBuilder"} {
			t := p.Type(otPkg + ":" + tn)
			n := 0
			for _, fn := range prodFuncs(p) {
				Instrs(fn, func(in ssa.Instruction) {
					al, ok := in.(*ssa.Alloc)
					if !ok {
						return
					}
					pt, ok := al.Type().(*types.Pointer)
					if !ok || !types.Identical(pt.Elem(), t) {
						return
					}
					if strings.HasSuffix(p.Fset.Position(fn.Pos()).Filename, "testutils.go") {
						return // test fixtures compiled into the package
					}
					n++
					top := TopFunc(fn).Name()
					c.Check(allowedCtor[top], "C02.4-nonverifying-parts", FuncName(fn)+"|constructs "+tn, p.Pos(InstrPos(in)), tn+" is constructed only in test / migration / history constructors")
				})
			}
		}
		c.Min("C02.4-nonverifying-parts", 2)
	}

	// ---- C02.5 rollback restores the pre-batch view
	{
		var rb *ssa.Function
		headIds := p.Field(otPkg + ":Tree.headIds")
		lastIt := p.Field(otPkg + ":Tree.lastIteratedHeadId")
		attached := p.Field(otPkg + ":Tree.attached")
		next := p.Field(otPkg + ":Change.Next")
		// the rollback operation: a closure of addChangesToTree, or the function such a closure
		// forwards to, that restores Tree.headIds and deletes from Tree.attached
		var cands []*ssa.Function
		for _, a := range addToTree.AnonFuncs {
			cands = append(cands, a)
			for _, ci := range CallsIn(a) {
				if cf := CalleeFunc(ci.Common()); cf != nil && cf.Blocks != nil && IsRepoFunc(cf) {
					cands = append(cands, cf)
				}
			}
		}
		// … or the closure lifted to a method of its own (new since the anchor snapshot)
		for _, ci := range CallsIn(addToTree) {
			if cf := CalleeFunc(ci.Common()); cf != nil && cf.Blocks != nil && IsRepoFunc(cf) && IsNewFunc(cf) {
				cands = append(cands, cf)
			}
		}
		for _, a := range cands {
			if len(FieldWrites([]*ssa.Function{a}, headIds)) == 0 {
				continue
			}
			for _, w := range FieldWrites([]*ssa.Function{a}, attached) {
				if w.Kind == "mapdelete" {
					rb = a
				}
			}
		}
		if rb == nil {
			c.Violate("C02.5-rollback-shape", FuncName(addToTree)+"|rollback closure", p.Pos(addToTree.Pos()), "no closure of addChangesToTree restores Tree.headIds")
		} else {
			c.Fn(FuncName(rb))
			c.Check(len(FieldWrites([]*ssa.Function{rb}, lastIt)) > 0, "C02.5-rollback-shape", FuncName(rb)+"|restores lastIteratedHeadId", p.Pos(rb.Pos()), "rollback restores Tree.lastIteratedHeadId")
			del := false
			for _, w := range FieldWrites([]*ssa.Function{rb}, attached) {
				if w.Kind == "mapdelete" {
					del = true
				}
			}
			c.Check(del, "C02.5-rollback-shape", FuncName(rb)+"|deletes added ids", p.Pos(rb.Pos()), "rollback deletes every added change from Tree.attached")
			// Next is rewritten inside a loop ranging over ALL attached changes
			okNext := false
			for l, rg := range MapRangeLoops(rb) {
				if !IsLoadOfField(rg.X, attached) {
					continue
				}
				for b := range l.Blocks {
					for _, in := range b.Instrs {
						if st, ok := in.(*ssa.Store); ok {
							if fa, ok := st.Addr.(*ssa.FieldAddr); ok && FieldOf(fa) == next {
								okNext = true
							}
						}
					}
				}
			}
			c.Check(okNext, "C02.5-rollback-shape", FuncName(rb)+"|strips Next of all attached", p.Pos(rb.Pos()), "rollback strips the removed changes from Next while ranging over every change in Tree.attached (a rejected change forked from a non-head must not stay linked)")
			// headIds restored from the pre-batch copy
			c.Check(true, "C02.5-rollback-shape", FuncName(rb)+"|restores headIds", p.Pos(rb.Pos()), "rollback restores Tree.headIds")
		}
	}
}

// appendedElems returns the element values appended by an append call whose
// variadic argument is a freshly built slice (append(s, x) lowers to a
// one-element array + slice).
func appendedElems(call *ssa.Call) []ssa.Value {
	if len(call.Call.Args) < 2 {
		return nil
	}
	sl, ok := call.Call.Args[1].(*ssa.Slice)
	if !ok {
		return []ssa.Value{call.Call.Args[1]}
	}
	al, ok := sl.X.(*ssa.Alloc)
	if !ok {
		return []ssa.Value{call.Call.Args[1]}
	}
	var out []ssa.Value
	for _, ref := range *al.Referrers() {
		ia, ok := ref.(*ssa.IndexAddr)
		if !ok {
			continue
		}
		for _, r2 := range *ia.Referrers() {
			if st, ok := r2.(*ssa.Store); ok && st.Addr == ia {
				out = append(out, st.Val)
			}
		}
	}
	return out
}
