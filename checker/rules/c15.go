package rules

import (
	"go/token"
	"strings"

	"golang.org/x/tools/go/ssa"

	. "verif/checker/core"
)

const hsStorage = "commonspace/headsync/headstorage"
const dsPkg = "commonspace/deletionstate"

func init() {
	register(&Pack{
		ID: "C15",
		Explanation: "Deletion permanence, decided on SSA: (1) tombstone gates — PutSyncTree creates tree storage only across checkTreeDeleted()==nil, treeRemoteGetter.getTree fetches a missing tree only across checkTreeDeleted()==nil, and checkTreeDeleted answers nil only for 'no head entry' or DeletedStatus==NotDeleted; the callers of SpaceStorage.CreateTreeStorage / CreateStorageWithDeferredCreation are enumerated; " +
			"(2) index gate — DiffManager.UpdateHeads reaches diff.Set only across DeletedStatus==NotDeleted and deletionState.Exists()==false, and the other status edge reaches diff.RemoveId; " +
			"(3) monotone status — every value written into HeadsUpdate.DeletedStatus is the constant Queued or Deleted (never NotDeleted); the Queued writers are gated (Add: in neither set; orphan scan: child NotDeleted); " +
			"(4) grow-only sets — no delete on settings State.DeletedIds or on the deleted set; the queued set is deleted from only in Delete, together with the insert into deleted, under the lock; a deletion record written as a snapshot carries every id of the record plus all previously deleted ids; " +
			"(5) late child — CreateStorageTx with a parent returns success without queueing the child only across 'parent status < Queued' (or no parent entry); " +
			"(6) worker order — the deleter marks an id deleted only after DeleteTree returned nil / already-deleted, or MarkTreeDeleted()==nil.",
		NotDecided: "Races between a late head update and the deletion worker (schedule level); equality of the incrementally and from-scratch derived deleted sets (value level).",
		Run:        runC15,
	})
}

func runC15(c *Ctx) {
	p := c.P
	runC15Tracked(c)
	delStatus := p.Field(hsStorage + ":HeadsEntry.DeletedStatus")
	updStatus := p.Field(hsStorage + ":HeadsUpdate.DeletedStatus")
	notDeleted := constVal(p, hsStorage, "DeletedStatusNotDeleted")
	queued := constVal(p, hsStorage, "DeletedStatusQueued")
	checkDel := p.Func(stPkg + ":checkTreeDeleted")

	statusIs := func(name string, want string, passEq bool) Gate {
		return GCmp(name, func(a Atom) (bool, bool) {
			if a.Op != token.EQL && a.Op != token.NEQ {
				return false, false
			}
			k, ok := a.Y.(*ssa.Const)
			if !ok || k.Value == nil || k.Value.ExactString() != want || !IsLoadOfField(a.X, delStatus) {
				return false, false
			}
			return true, (a.Op == token.EQL) == passEq
		})
	}

	// ---- C15.1 tombstone gates
	{
		put := p.Func(stPkg + ":PutSyncTree")
		cts := calleeMethod("commonspace/spacestorage", "CreateTreeStorage")
		g := GErrNil("checkTreeDeleted()==nil", CalleeFn(checkDel))
		c.RequireGate("C15.1-tombstone-gate", put, g, CallSinksX(put, cts, false), "SpaceStorage.CreateTreeStorage")
		getTree := p.Func(stPkg + ":(treeRemoteGetter).getTree")
		loop := p.Func(stPkg + ":(treeRemoteGetter).treeRequestLoop")
		c.RequireGate("C15.1-tombstone-gate", getTree, g, CallSinksX(getTree, CalleeFn(loop), false), "remote fetch of a missing tree")
		// checkTreeDeleted itself
		sinks := SuccessReturns(checkDel)
		isNF := GBool("errors.Is(err, ErrDocNotFound)==true", CalleeIs(p.PkgFunc("errors:Is")), 0, true)
		c.RequireAnyGate("C15.1-tombstone-gate", checkDel, []Gate{statusIs("entry.DeletedStatus==NotDeleted", notDeleted, true), isNF}, nil, sinks, "nil return", nil, false)
		// the id checked is the id created / fetched
		for _, cs := range CallSinks(put, CalleeFn(checkDel), false) {
			ok := fieldOfValue(cs.(*ssa.Call).Call.Args[1], p.Field(tcProto+":RawTreeChangeWithId.Id"), nil)
			c.Check(ok, "C15.1-tombstone-gate", FuncName(put)+"|checks the id being created", p.Pos(InstrPos(cs)), "the tombstone is looked up for the root id of the payload")
		}
		// creators enumerated
		allowed := map[string]string{
			"PutSyncTree":                       "gated by checkTreeDeleted",
			"ValidateRawTreeDefault":            "validation on the space storage: reached from getTree's fetch (gated) or from a temp storage",
			"ValidateFilterRawTree":             "validation: same as above",
			"CreateTreeStorage":                 "delegating wrapper",
			"CreateStorageWithDeferredCreation": "delegating wrapper",
		}
		n := 0
		for _, cs := range Callers(prodFuncs(p), AnyOf(cts, calleeMethod("commonspace/spacestorage", "CreateStorageWithDeferredCreation"), calleeMethod("tree/objecttree", "CreateStorageWithDeferredCreation"), calleeMethod("tree/objecttree", "CreateTreeStorage"))) {
			top := TopFunc(cs.Fn)
			why, ok := allowed[top.Name()]
			if strings.Contains(FuncName(top), "migration") || strings.Contains(FuncName(top), "oldstorage") {
				ok, why = true, "local storage migration"
			}
			n++
			c.Check(ok, "C15.1-storage-creators", FuncName(top)+"|creates tree storage", p.Pos(InstrPos(cs.Instr)), orDefault(why, "tree storage is created outside the enumerated (tombstone-gated) functions"))
		}
		c.Min("C15.1-storage-creators", 3)
	}

	// ---- C15.2 index gate
	{
		uh := p.Func("commonspace/headsync:(*DiffManager).UpdateHeads")
		mSet := p.Method("app/ldiff:Diff.Set")
		mRem := p.Method("app/ldiff:Diff.RemoveId")
		sets := CallSinks(uh, CalleeIs(mSet), false)
		updSt := p.Field(hsStorage + ":HeadsEntry.DeletedStatus")
		_ = updSt
		c.RequireGate("C15.2-index-gate", uh, statusIs("update.DeletedStatus==NotDeleted", notDeleted, true), sets, "diff.Set")
		c.RequireGate("C15.2-index-gate", uh, GBool("deletionState.Exists(id)==false", calleeMethod("commonspace/deletionstate", "Exists"), 0, false), sets, "diff.Set")
		// deleted status ⇒ RemoveId
		ne := statusIs("x", notDeleted, true)
		fail := ne.FailEdges(uh)
		var starts []*ssa.BasicBlock
		for e := range fail {
			starts = append(starts, e.From.Succs[e.Succ])
		}
		r := Reach(uh, ReachOpts{Starts: starts, Cut: CutAtCall(CalleeIs(mRem))})
		bad := len(starts) == 0
		for _, ret := range Returns(uh) {
			if r.Reachable(ret) {
				bad = true
			}
		}
		c.Check(!bad, "C15.2-index-gate", FuncName(uh)+"|deleted/queued ⇒ diff.RemoveId", p.Pos(uh.Pos()), "an update with a deleted or queued status always removes the id from the advertised index")
		// FillDiff iterates without the Deleted flag
		fd := p.Func("commonspace/headsync:(*DiffManager).FillDiff")
		okOpts := true
		for _, w := range FieldWrites([]*ssa.Function{fd}, p.Field(hsStorage+":IterOpts.Deleted")) {
			if b, isC := BoolConst(w.Val); !isC || b {
				okOpts = false
			}
		}
		c.Check(okOpts, "C15.2-index-gate", FuncName(fd)+"|IterOpts{Deleted:false}", p.Pos(fd.Pos()), "the index is filled from the non-deleted head entries only")
	}

	// ---- C15.3 monotone status
	{
		us := p.Func(dsPkg + ":(*objectDeletionState).updateStatus")
		n := 0
		for _, cs := range Callers(prodFuncs(p), CalleeFn(us)) {
			n++
			a := cs.Instr.(ssa.CallInstruction).Common().Args
			k, ok := a[len(a)-1].(*ssa.Const)
			okv := ok && k.Value != nil && k.Value.ExactString() != notDeleted
			c.Check(okv, "C15.3-monotone-status", FuncName(cs.Fn)+"|updateStatus(const)", p.Pos(InstrPos(cs.Instr)), "the status written is the constant Queued or Deleted, never NotDeleted")
		}
		// every HeadsUpdate.DeletedStatus store: pointer to a cell holding such a constant / the updateStatus parameter
		for _, w := range FieldWrites(prodFuncs(p), updStatus) {
			okv := false
			switch v := w.Val.(type) {
			case *ssa.Alloc:
				okv = true
				for _, ref := range *v.Referrers() {
					if st, isSt := ref.(*ssa.Store); isSt && st.Addr == ssa.Value(v) {
						if k, isK := st.Val.(*ssa.Const); isK {
							if k.Value.ExactString() == notDeleted {
								okv = false
							}
						} else if pm, isP := st.Val.(*ssa.Parameter); !(isP && TopFunc(w.Fn) == us && pm == us.Params[2]) {
							okv = false
						}
					}
				}
			case *ssa.Const:
				okv = v.Value == nil // nil pointer: status untouched
			default:
				// copied from another update (e.g. migration): value comes from storage
				okv = strings.Contains(FuncName(w.Fn), "migration")
			}
			n++
			c.Check(okv, "C15.3-monotone-status", FuncName(w.Fn)+"|HeadsUpdate.DeletedStatus", p.Pos(InstrPos(w.Instr)), "DeletedStatus is only ever set to the constants Queued / Deleted")
		}
		c.Min("C15.3-monotone-status", 5)
		// Queued writers gated
		add := p.Func(dsPkg + ":(*objectDeletionState).Add")
		qs := CallSinks(add, CalleeFn(us), true)
		for _, anon := range add.AnonFuncs {
			qs = append(qs, CallSinks(anon, CalleeFn(us), true)...)
		}
		c.RequireGate("C15.3-queued-guard", add, mapOkGate(p.Field(dsPkg+":objectDeletionState.deleted"), false), CallSinksX(add, CalleeFn(us), false), "updateStatus(Queued)")
		c.RequireGate("C15.3-queued-guard", add, mapOkGate(p.Field(dsPkg+":objectDeletionState.queued"), false), CallSinksX(add, CalleeFn(us), false), "updateStatus(Queued)")
		run := p.Func(dsPkg + ":(*objectDeletionState).Run")
		c.RequireGate("C15.3-queued-guard", run, statusIs("child.DeletedStatus==NotDeleted", notDeleted, true), CallSinksX(run, CalleeFn(us), false), "updateStatus(Queued) for an orphan")
	}

	// ---- C15.4 grow-only sets
	{
		delIds := p.Field("commonspace/settings/settingsstate:State.DeletedIds")
		nd := 0
		for _, w := range FieldWrites(prodFuncs(p), delIds) {
			if w.Kind == "mapdelete" {
				nd++
				c.Violate("C15.4-grow-only", FuncName(w.Fn)+"|delete(State.DeletedIds)", p.Pos(InstrPos(w.Instr)), "the set of deleted ids derived from the settings log must only grow")
			}
		}
		c.Check(nd == 0, "C15.4-grow-only", "settingsstate.State.DeletedIds|never deleted from", "-", "no delete()/clear() on State.DeletedIds anywhere in the repository")
		// the derived state is REPLACED by a snapshot's content only for the change the iteration
		// starts from (the tree root); any other record — snapshot-carrying or not — is merged.
		// Replacing on a later record discards deletions of concurrent records iterated before it.
		{
			pc := p.Func("commonspace/settings/settingsstate:(*stateBuilder).processChange")
			c.Fn(FuncName(pc))
			fromSnap := p.Func("commonspace/settings/settingsstate:NewStateFromSnapshot")
			chId := p.Field(otPkg + ":Change.Id")
			var rootParam ssa.Value
			for _, pm := range pc.Params {
				if pm.Name() == "rootId" {
					rootParam = pm
				}
			}
			isRoot := GCmp("change.Id == rootId", func(a Atom) (bool, bool) {
				if (a.Op != token.EQL && a.Op != token.NEQ) || rootParam == nil {
					return false, false
				}
				if (IsLoadOfField(a.X, chId) && a.Y == rootParam) || (IsLoadOfField(a.Y, chId) && a.X == rootParam) {
					return true, a.Op == token.EQL
				}
				return false, false
			})
			sinks := CallSinks(pc, CalleeFn(fromSnap), false)
			if len(sinks) == 0 {
				c.Hold("C15.4-replace-only-at-root", FuncName(pc)+"|NewStateFromSnapshot", p.Pos(pc.Pos()), "processChange never replaces the state")
			} else {
				c.RequireGate("C15.4-replace-only-at-root", pc, isRoot, sinks, "state replaced by a snapshot (NewStateFromSnapshot)")
			}
		}
		deleted := p.Field(dsPkg + ":objectDeletionState.deleted")
		queuedF := p.Field(dsPkg + ":objectDeletionState.queued")
		nd = 0
		for _, w := range FieldWrites(prodFuncs(p), deleted) {
			if w.Kind == "mapdelete" {
				nd++
			}
		}
		c.Check(nd == 0, "C15.4-grow-only", "objectDeletionState.deleted|never deleted from", "-", "no delete() on the deleted set")
		del := p.Func(dsPkg + ":(*objectDeletionState).Delete")
		for _, w := range FieldWrites(prodFuncs(p), queuedF) {
			if w.Kind != "mapdelete" {
				continue
			}
			ok := TopFunc(w.Fn) == del
			if ok {
				ins := false
				var insInstr ssa.Instruction
				for _, w2 := range FieldWrites([]*ssa.Function{del}, deleted) {
					if w2.Kind == "mapupdate" {
						ins = true
						insInstr = w2.Instr
					}
				}
				el := LockAtEntry(del)
				ok = ins && el != nil && el.Deferred
				if !ok && ins && el != nil {
					// explicit Unlock instead of defer: one acquisition of the lock in the function,
					// and both the delete and the insert are made with it held (lockset analysis)
					la := NewLockAnalysis()
					la.Analyze(del)
					key := LockKey{Obj: el.Field}
					nLock := 0
					for _, ci := range CallsIn(del) {
						if o := CalleeObj(ci.Common()); o != nil && (o.Name() == "Lock") && o.Pkg() != nil && o.Pkg().Path() == "sync" {
							nLock++
						}
					}
					ok = nLock == 1 && la.Must(w.Instr)[key] && la.Must(insInstr)[key]
				}
			}
			c.Check(ok, "C15.4-grow-only", FuncName(w.Fn)+"|delete(queued)", p.Pos(InstrPos(w.Instr)), "an id leaves the queued set only in Delete, which inserts it into the deleted set in the same critical section")
		}
		// snapshot completeness
		cf := p.Func("commonspace/settings/settingsstate:(*changeFactory).CreateObjectDeleteChange")
		mk := p.Func("commonspace/settings/settingsstate:(*changeFactory).makeSnapshot")
		for _, cs := range CallSinks(cf, CalleeFn(mk), false) {
			a := cs.(*ssa.Call).Call.Args
			ok := originatesFromParam(a[len(a)-1], cf.Params[1])
			c.Check(ok, "C15.4-snapshot-complete", FuncName(cf)+"|snapshot gets every id of the record", p.Pos(InstrPos(cs)), "the snapshot of a deletion record is built from the whole id list of that record (a cascade deletion must not lose the children)")
		}
		// makeSnapshot: appends all objectIds and ranges over all state.DeletedIds
		okAll, okRange := false, false
		Instrs(mk, func(in ssa.Instruction) {
			if cc, ok := in.(*ssa.Call); ok {
				if b, isB := cc.Call.Value.(*ssa.Builtin); isB && b.Name() == "append" && len(cc.Call.Args) == 2 && originatesFromParam(cc.Call.Args[1], mk.Params[2]) {
					okAll = true
				}
			}
			if rg, ok := in.(*ssa.Range); ok && IsLoadOfField(rg.X, delIds) {
				okRange = true
			}
		})
		c.Check(okAll && okRange, "C15.4-snapshot-complete", FuncName(mk)+"|all new ids + all previously deleted ids", p.Pos(mk.Pos()), "makeSnapshot appends every given id and every id already in State.DeletedIds")
		c.Min("C15.4-snapshot-complete", 2)
	}

	// ---- C15.5 late child
	{
		cst := p.Func(otPkg + ":CreateStorageTx")
		parentAlive := GCmp("parent.DeletedStatus < Queued", func(a Atom) (bool, bool) {
			if !IsLoadOfField(a.X, delStatus) {
				return false, false
			}
			k, ok := a.Y.(*ssa.Const)
			if !ok || k.Value == nil {
				return false, false
			}
			v := k.Value.ExactString()
			switch {
			case a.Op == token.GEQ && v == queued:
				return true, false
			case a.Op == token.LSS && v == queued:
				return true, true
			case a.Op == token.EQL && v == notDeleted:
				return true, true
			case a.Op == token.NEQ && v == notDeleted:
				return true, false
			case a.Op == token.GTR && v == notDeleted:
				return true, false
			}
			return false, false
		})
		noParent := GCmp("root has no parent", func(a Atom) (bool, bool) {
			if a.Op != token.EQL && a.Op != token.NEQ {
				return false, false
			}
			k, ok := a.Y.(*ssa.Const)
			// (inside the extracted late-child helper the parent id may arrive as a parameter)
			if !ok || k.Value == nil || k.Value.ExactString() != `""` || !IsLoadOfField(BoundValue(a.X), p.Field(otPkg+":Change.ParentId")) {
				return false, false
			}
			return true, a.Op == token.EQL
		})
		getEntry := calleeMethod("headsync/headstorage", "GetEntry")
		updEntry := calleeMethod("headsync/headstorage", "UpdateEntry")
		// the queueing update = the UpdateEntry whose argument carries a DeletedStatus
		var queueing []ssa.Instruction
		for _, cs := range CallSinks(cst, updEntry, false) {
			for _, w := range FieldWrites([]*ssa.Function{cst}, updStatus) {
				if w.Instr.Block() == cs.Block() || w.Instr.Block().Dominates(cs.Block()) {
					if _, isAlloc := w.Val.(*ssa.Alloc); isAlloc {
						queueing = append(queueing, cs)
					}
				}
			}
		}
		// the late-child block extracted into a new helper: decide the status test there, and in
		// CreateStorageTx that the helper is called (and its error returned) whenever there is a parent
		target := cst
		var helperCall ssa.Instruction
		if len(queueing) == 0 {
			for _, ci := range CallsIn(cst) {
				h := CalleeFunc(ci.Common())
				if h == nil || h.Blocks == nil || !IsNewFunc(h) {
					continue
				}
				for _, cs := range CallSinks(h, updEntry, false) {
					for _, w := range FieldWrites([]*ssa.Function{h}, updStatus) {
						if w.Instr.Block() == cs.Block() || w.Instr.Block().Dominates(cs.Block()) {
							if _, isAlloc := w.Val.(*ssa.Alloc); isAlloc {
								queueing = append(queueing, cs)
							}
						}
					}
				}
				if len(queueing) > 0 {
					target, helperCall = h, ci
					c.Fn(FuncName(h))
					break
				}
			}
		}
		decide := func() {
			removed := map[Edge]bool{}
			ok := len(queueing) > 0
			for _, g := range []Gate{parentAlive, noParent} {
				pe, sites := g.PassEdges(target)
				if len(sites) == 0 {
					if _, outerSites := g.PassEdges(cst); target == cst || len(outerSites) == 0 {
						ok = false
					}
				}
				for e := range pe {
					removed[e] = true
				}
			}
			if helperCall != nil && ok {
				// in the caller: with a parent, every success passes the helper
				np, _ := noParent.PassEdges(cst)
				rc := Reach(cst, ReachOpts{Removed: np, Cut: func(in ssa.Instruction) bool { return in == helperCall }})
				for _, ret := range SuccessReturns(cst) {
					if rc.Reachable(ret) {
						ok = false
					}
				}
				requirePropagates(c, "C15.5-late-child", cst, func(cc *ssa.CallCommon) bool { return CalleeFunc(cc) == target }, FuncName(target))
			}
			cst = target
			// a failed second parent lookup also skips (no entry)
			for e := range GErrNil("GetEntry(parent)==nil", getEntry).FailEdges(cst) {
				removed[e] = true
			}
			bad := ""
			if !ok {
				bad = "CreateStorageTx no longer compares the parent's status with Queued (>= Queued must queue the late child) or no longer queues it"
			} else {
				isQ := func(in ssa.Instruction) bool {
					for _, q := range queueing {
						if q == in {
							return true
						}
					}
					return false
				}
				r := Reach(cst, ReachOpts{Removed: removed, Cut: isQ})
				for _, ret := range SuccessReturns(cst) {
					if r.Reachable(ret) {
						bad = "a child whose parent is queued OR deleted can be created without being queued for deletion (witness " + r.Path(p, ret) + ")"
					}
				}
			}
			c.Check(bad == "", "C15.5-late-child", FuncName(cst)+"|child of a deleted/queued parent is queued", p.Pos(cst.Pos()), orDefault(bad, "with a parent, success without queueing the child requires parent.DeletedStatus < Queued"))
		}
		if hc, isCall := helperCall.(*ssa.Call); isCall {
			BindParams(target, hc, decide)
		} else {
			decide()
		}
	}

	// ---- C15.6 worker order
	{
		dl := "commonspace/deletionmanager"
		stDelete := calleeMethod("commonspace/deletionstate", "Delete")
		deleteTree := calleeMethod("object/treemanager", "DeleteTree")
		tryMark := p.Func(dl + ":(*deleter).tryMarkDeleted")
		errIs := GBool("errors.Is(err, already deleted)==true", CalleeIs(p.PkgFunc("errors:Is")), 0, true)
		markOK := GErrNil("tryMarkDeleted err==nil (MarkTreeDeleted)", CalleeFn(tryMark))
		for _, name := range []string{"Delete", "deleteBoundChildren"} {
			fn := p.Func(dl + ":(*deleter)." + name)
			sinks := CallSinks(fn, stDelete, false)
			c.RequireAnyGate("C15.6-worker-order", fn, []Gate{GErrNil("DeleteTree()==nil", deleteTree), errIs, markOK}, nil, sinks, "state.Delete(id)", nil, false)
		}
		// tryMarkDeleted: (false, nil) only across MarkTreeDeleted == nil (returns its verdict)
		mark := calleeMethod("object/treemanager", "MarkTreeDeleted")
		okMark := false
		for _, r := range Returns(tryMark) {
			if valueIsResultOf(r.(*ssa.Return).Results[1], mark) {
				okMark = true
			}
		}
		c.Check(okMark, "C15.6-worker-order", FuncName(tryMark)+"|returns MarkTreeDeleted's verdict", p.Pos(tryMark.Pos()), "for an object without local storage the verdict is MarkTreeDeleted's error")
	}
}
