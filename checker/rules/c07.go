package rules

import (
	"fmt"
	"go/token"
	"go/types"
	"strings"

	"golang.org/x/tools/go/ssa"

	. "verif/checker/core"
)

const ldPkg = "app/ldiff"

func init() {
	register(&Pack{
		ID: "C07",
		Explanation: "Range-hash diff, structural clauses decided on SSA: (1) wire adapters agree with the in-process types — in the four conversion functions (headsync remote.Ranges / HandleRangeRequest, key-value remote.Ranges / HandleRangeRequest) every field of ldiff.Range, ldiff.RangeResult and ldiff.Element is read where the type is encoded and written where it is rebuilt; " +
			"(2) parameter clamps — ldiff.diff is constructed only in newDiff, with divideFactor >= 2 and compareThreshold >= 1 enforced by phi/guard shape, and the same values reach newHashRanges; " +
			"(3) a malformed remote answer is rejected — in Diff/CompareDiff compareResults is reachable only across len(otherRes)==len(toSend) && len(myRes)==len(toSend), errors of Remote.Ranges are returned, ctx.Done() is polled each round, and the two drivers call the same callees; " +
			"(4) each result list (new / changed / theirChanged / removed) is appended to only in the two compareElements functions, presence of an id on the other side is decided by map membership or id equality (never by the head's value), and the per-range hashes the comparison relies on are kept fresh: every exit of addElement/removeElement leaves a dirty mark that no later delete can erase.",
		NotDecided: "Termination of the range recursion and exactness ('each id once, nothing else') of the reported sets for all index pairs and parameters — values of the recursion over hashes.",
		Run:        runC07,
	})
}

// dirtyMarkSurvives: every return of fn is preceded by a write into
// hashRanges.dirty, and after the last such write on a path no
// delete(h.dirty, k) follows unless k is a `.parent` field load.
func dirtyMarkSurvives(c *Ctx, rule string, fn *ssa.Function) {
	p := c.P
	dirty := p.Field(ldPkg + ":hashRanges.dirty")
	parentF := p.Field(ldPkg + ":hashRange.parent")
	isMark := func(in ssa.Instruction) bool {
		mu, ok := in.(*ssa.MapUpdate)
		return ok && IsLoadOfField(mu.Map, dirty)
	}
	// functions of the package that (transitively, statically) delete from h.dirty: a call of
	// one of them may erase marks made earlier on the path
	var pkgFns []*ssa.Function
	for _, f := range p.FuncsOfPkg(ldPkg) {
		pkgFns = append(pkgFns, f)
	}
	deleters := map[*ssa.Function]bool{}
	for changed := true; changed; {
		changed = false
		for _, f := range pkgFns {
			if deleters[f] || f == fn {
				continue
			}
			for _, ci := range CallsIn(f) {
				cc := ci.Common()
				erases := false
				if b, ok := cc.Value.(*ssa.Builtin); ok && b.Name() == "delete" && IsLoadOfField(cc.Args[0], dirty) {
					erases = true
				} else if cf := CalleeFunc(cc); cf != nil && deleters[cf] {
					erases = true
				}
				if !erases {
					continue
				}
				// only if the callee can return without re-marking after that erase
				// (makeBottomRanges moves the mark from the range to its divided child)
				in, ok := ci.(ssa.Instruction)
				if !ok {
					continue
				}
				rr := Reach(f, ReachOpts{From: in, Cut: isMark})
				for _, ret := range Returns(f) {
					if rr.Reachable(ret) {
						deleters[f] = true
					}
				}
				if deleters[f] {
					changed = true
					break
				}
			}
		}
	}
	isBadDelete := func(in ssa.Instruction) bool {
		cc, ok := in.(*ssa.Call)
		if !ok {
			return false
		}
		if cf := CalleeFunc(&cc.Call); cf != nil && deleters[cf] {
			return true
		}
		b, ok := cc.Call.Value.(*ssa.Builtin)
		if !ok || b.Name() != "delete" || !IsLoadOfField(cc.Call.Args[0], dirty) {
			return false
		}
		return !IsLoadOfField(cc.Call.Args[1], parentF)
	}
	c.Fn(FuncName(fn))
	bad := ""
	// (a) some mark on every path
	r := Reach(fn, ReachOpts{Cut: isMark})
	for _, ret := range Returns(fn) {
		if r.Reachable(ret) {
			bad = "an exit is reachable without marking any range dirty: its hash stays stale"
		}
	}
	// (b) from every non-parent delete, a later mark must follow before exit
	Instrs(fn, func(in ssa.Instruction) {
		if !isBadDelete(in) {
			return
		}
		r2 := Reach(fn, ReachOpts{From: in, Cut: isMark})
		for _, ret := range Returns(fn) {
			if r2.Reachable(ret) {
				bad = "after delete(h.dirty, …) at " + p.Pos(InstrPos(in)) + " an exit is reachable without a new dirty mark: a mark made earlier on the path may have been erased, the range keeps a stale hash"
			}
		}
	})
	c.Check(bad == "", rule, FuncName(fn)+"|dirty mark survives to exit", p.Pos(fn.Pos()), orDefault(bad, "every exit is preceded by a dirty mark that no later delete erases"))
}

func runC07(c *Ctx) {
	p := c.P
	// C07.5 (shared with C08.1): a hash-only answer carries the range's element counter and
	// compareResults reads Count==0 as "the other side holds nothing here": the counters must track
	// set cardinality — addElement only when the skip list reported the element absent,
	// removeElement only when it reported it present (round-5 seed C07-E: refused removal decrements).
	importShared(c, "C08", runC08, "C08.1-count-pairing", "", "C07.5-count-pairing", 2)
	rangeT := p.Type(ldPkg + ":Range").Underlying().(*types.Struct)
	resT := p.Type(ldPkg + ":RangeResult").Underlying().(*types.Struct)
	elT := p.Type(ldPkg + ":Element").Underlying().(*types.Struct)

	// ---- C07.1 wire adapters
	type site struct {
		spec                   string
		readRange, writeRange  bool
		readRes, writeRes      bool
	}
	sites := []site{
		{"commonspace/headsync:(*remote).Ranges", true, false, false, true},
		{"commonspace/headsync:HandleRangeRequest", false, true, true, false},
		{"commonspace/object/keyvalue:(*remote).Ranges", true, false, false, true},
		{"commonspace/object/keyvalue:HandleRangeRequest", false, true, true, false},
	}
	for _, s := range sites {
		fn := p.Func(s.spec)
		fns := regionFuncs(fn)
		chk := func(st *types.Struct, tname string, read bool) {
			for i := 0; i < st.NumFields(); i++ {
				f := st.Field(i)
				ok := false
				if read {
					ok = len(FieldReads(fns, f)) > 0
				} else {
					ok = len(FieldWrites(fns, f)) > 0
				}
				dir := "written (rebuilt from the wire)"
				if read {
					dir = "read (encoded to the wire)"
				}
				c.Check(ok, "C07.1-wire-adapters", FuncName(fn)+"|"+tname+"."+f.Name()+" "+strings.Fields(dir)[0], p.Pos(fn.Pos()), "ldiff."+tname+"."+f.Name()+" is "+dir+" — a dropped field silently changes which branch compareResults takes")
			}
		}
		if s.readRange {
			chk(rangeT, "Range", true)
		}
		if s.writeRange {
			chk(rangeT, "Range", false)
		}
		if s.readRes {
			chk(resT, "RangeResult", true)
			chk(elT, "Element", true)
		}
		if s.writeRes {
			chk(resT, "RangeResult", false)
			chk(elT, "Element", false)
		}
	}
	c.Min("C07.1-wire-adapters", 36)

	// ---- C07.2 parameter clamps
	{
		newDiff := p.Func(ldPkg + ":newDiff")
		diffT := p.Type(ldPkg + ":diff")
		for _, fn := range p.FuncsOfPkg(ldPkg) {
			Instrs(fn, func(in ssa.Instruction) {
				al, ok := in.(*ssa.Alloc)
				if !ok {
					return
				}
				pt, ok := al.Type().(*types.Pointer)
				if !ok || !types.Identical(pt.Elem(), diffT) {
					return
				}
				c.Check(TopFunc(fn) == newDiff, "C07.2-parameter-clamps", FuncName(fn)+"|constructs diff", p.Pos(InstrPos(in)), "the diff container is constructed only by newDiff (where its parameters are clamped)")
			})
		}
		for _, spec := range []struct {
			field string
			min   int64
		}{{"divideFactor", 2}, {"compareThreshold", 1}} {
			fld := p.Field(ldPkg + ":diff." + spec.field)
			for _, w := range FieldWrites([]*ssa.Function{newDiff}, fld) {
				ok, det := lowerBounded(newDiff, w.Val, spec.min)
				c.Check(ok, "C07.2-parameter-clamps", FuncName(newDiff)+"|"+spec.field+" >= "+fmt.Sprint(spec.min), p.Pos(InstrPos(w.Instr)), det)
			}
		}
		// the same clamped values reach newHashRanges
		nhr := p.Func(ldPkg + ":newHashRanges")
		for _, cs := range CallSinks(newDiff, CalleeFn(nhr), false) {
			a := cs.(*ssa.Call).Call.Args
			ok1, _ := lowerBounded(newDiff, a[0], 2)
			ok2, _ := lowerBounded(newDiff, a[1], 1)
			c.Check(ok1 && ok2, "C07.2-parameter-clamps", FuncName(newDiff)+"|newHashRanges(clamped)", p.Pos(InstrPos(cs)), "the range table is built with the clamped divide factor and threshold")
		}
		c.Min("C07.2-parameter-clamps", 4)
	}

	// ---- C07.3 malformed remote answer rejected
	{
		compareResults := p.Func(ldPkg + ":(*diff).compareResults")
		toSend := p.Field(ldPkg + ":diffCtx.toSend")
		lenEq := func(name string, fld *types.Var) Gate {
			return GCmp(name, func(a Atom) (bool, bool) {
				if a.Op != token.EQL && a.Op != token.NEQ {
					return false, false
				}
				isLen := func(v ssa.Value, f *types.Var) bool {
					call, ok := v.(*ssa.Call)
					if !ok {
						return false
					}
					b, ok := call.Call.Value.(*ssa.Builtin)
					return ok && b.Name() == "len" && IsLoadOfField(call.Call.Args[0], f)
				}
				if (isLen(a.X, fld) && isLen(a.Y, toSend)) || (isLen(a.Y, fld) && isLen(a.X, toSend)) {
					return true, a.Op == token.EQL
				}
				return false, false
			})
		}
		var seqs []string
		// the round loop lives in the public drivers themselves or in a helper they share: the
		// obligations attach to whichever ldiff function calls compareResults
		var drivers []*ssa.Function
		for _, f := range p.FuncsOfPkg(ldPkg) {
			if f.Parent() == nil && len(CallSinks(f, CalleeFn(compareResults), false)) > 0 {
				drivers = append(drivers, f)
			}
		}
		for _, name := range []string{"Diff", "CompareDiff"} {
			pub := p.Func(ldPkg + ":(*diff)." + name)
			reaches := false
			for _, d := range drivers {
				if d == pub || len(CallSinks(pub, CalleeFn(d), false)) > 0 {
					reaches = true
				}
			}
			c.Check(reaches, "C07.3-mismatch-rejected", FuncName(pub)+"|runs the checked round loop", p.Pos(pub.Pos()), "the public driver is, or calls, the function that runs the checked round loop")
		}
		for _, fn := range drivers {
			sinks := CallSinks(fn, CalleeFn(compareResults), false)
			c.RequireGate("C07.3-mismatch-rejected", fn, lenEq("len(otherRes)==len(toSend)", p.Field(ldPkg+":diffCtx.otherRes")), sinks, "compareResults")
			c.RequireGate("C07.3-mismatch-rejected", fn, lenEq("len(myRes)==len(toSend)", p.Field(ldPkg+":diffCtx.myRes")), sinks, "compareResults")
			rr := calleeMethod("app/ldiff", "Ranges")
			c.RequireGate("C07.3-mismatch-rejected", fn, GErrNil("Ranges()==nil", rr), sinks, "compareResults")
			// ctx polled in the round loop
			polled := false
			Instrs(fn, func(in ssa.Instruction) {
				if sel, ok := in.(*ssa.Select); ok && !sel.Blocking && InnermostLoop(Loops(fn), in) != nil {
					for _, st := range sel.States {
						if valueIsResultOf(st.Chan, calleeMethod("context", "Done")) {
							polled = true
						}
					}
				}
			})
			c.Check(polled, "C07.3-mismatch-rejected", FuncName(fn)+"|ctx.Done polled per round", p.Pos(fn.Pos()), "each round of the diff loop polls ctx.Done()")
			var names []string
			for _, cs := range CallsIn(fn) {
				if o := CalleeObj(cs.Common()); o != nil && o.Pkg() != nil && strings.HasSuffix(o.Pkg().Path(), ldPkg) {
					names = append(names, o.Name())
				}
			}
			seqs = append(seqs, strings.Join(names, ","))
		}
		same := len(seqs) >= 1
		for _, s := range seqs {
			if s != seqs[0] {
				same = false
			}
		}
		first := ""
		if len(seqs) > 0 {
			first = seqs[0]
		}
		c.Check(same, "C07.3-mismatch-rejected", "ldiff round-loop drivers|same callee sequence", "-", fmt.Sprintf("the %d function(s) running the round loop call the same ldiff callees in the same order (%s)", len(seqs), first))
	}

	// ---- C07.4 result lists, presence, freshness
	{
		cmpEq := p.Func(ldPkg + ":(*diff).compareElementsEqual")
		cmpGt := p.Func(ldPkg + ":(*diff).compareElementsGreater")
		allowed := fset(cmpEq, cmpGt)
		for _, name := range []string{"newIds", "changedIds", "theirChangedIds", "removedIds"} {
			fld := p.Field(ldPkg + ":diffCtx." + name)
			n := 0
			for _, w := range FieldWrites(p.FuncsOfPkg(ldPkg), fld) {
				if w.Kind == "init" {
					continue
				}
				n++
				c.Check(InSet(w.Fn, allowed), "C07.4-result-writers", FuncName(w.Fn)+"|"+name, p.Pos(InstrPos(w.Instr)), "diffCtx."+name+" is appended to only by the compareElements functions")
			}
		}
		c.Min("C07.4-result-writers", 6)
		// presence: the 'has' verdict of the find helpers
		idF := p.Field(ldPkg + ":Element.Id")
		doneFind := map[*ssa.Function]bool{}
		for _, fn := range []*ssa.Function{cmpEq, cmpGt} {
			// the find closures, or the functions they were lifted to (new since the anchor snapshot)
			for _, find := range regionFuncs(fn)[1:] {
				res := find.Signature.Results()
				if res.Len() < 2 || doneFind[find] {
					continue
				}
				doneFind[find] = true
				if b, ok := res.At(0).Type().Underlying().(*types.Basic); !ok || b.Kind() != types.Bool {
					continue
				}
				var trueRets []ssa.Instruction
				okShape := true
				for _, r := range Returns(find) {
					v := r.(*ssa.Return).Results[0]
					if b, isC := BoolConst(v); isC {
						if b {
							trueRets = append(trueRets, r)
						}
						continue
					}
					// non-constant verdict: must be the comma-ok of a map lookup
					vals, _ := Origins(v)
					for _, o := range vals {
						ex, isEx := o.(*ssa.Extract)
						if !isEx || ex.Index != 1 {
							okShape = false
							continue
						}
						if _, isL := ex.Tuple.(*ssa.Lookup); !isL {
							okShape = false
						}
					}
				}
				present := GCmp("id present on the other side (map hit / id equality)", func(a Atom) (bool, bool) {
					if a.Op == token.ILLEGAL {
						if ex, ok := a.X.(*ssa.Extract); ok && ex.Index == 1 {
							if _, isL := ex.Tuple.(*ssa.Lookup); isL {
								return true, true
							}
						}
						return false, false
					}
					if (a.Op == token.EQL || a.Op == token.NEQ) && IsLoadOfField(a.X, idF) && IsLoadOfField(a.Y, idF) {
						return true, a.Op == token.EQL
					}
					// library search by id: idx := slices.IndexFunc(list, func(el) bool { return el.Id == target.Id })
					if call, ok := a.X.(*ssa.Call); ok && a.Y != nil {
						if o := CalleeObj(&call.Call); o != nil && o.Pkg() != nil && strings.HasSuffix(o.Pkg().Path(), "slices") && o.Name() == "IndexFunc" && searchesById(call, idF) {
							if k, isK := IntConst(a.Y); isK {
								switch {
								case a.Op == token.LSS && k == 0, a.Op == token.EQL && k == -1:
									return true, false
								case a.Op == token.GEQ && k == 0, a.Op == token.NEQ && k == -1, a.Op == token.GTR && k == -1:
									return true, true
								}
							}
						}
					}
					return false, false
				})
				if len(trueRets) > 0 {
					c.RequireGate("C07.4-presence", find, present, trueRets, "return has=true")
				}
				c.Check(okShape, "C07.4-presence", FuncName(find)+"|has is membership, not a head value", p.Pos(find.Pos()), "the 'present' verdict comes from map membership / id equality (an element with an empty head is still present)")
			}
		}
		// a find helper inlined into the comparing function tests membership directly: each of
		// the two functions must decide presence by a find helper or a comma-ok map lookup of its own
		for _, fn := range []*ssa.Function{cmpEq, cmpGt} {
			n := 0
			for _, f := range regionFuncs(fn) {
				if f != fn && f.Signature.Results().Len() >= 2 {
					n++ // a find helper, decided above
				}
			}
			Instrs(fn, func(in ssa.Instruction) {
				if lk, ok := in.(*ssa.Lookup); ok && lk.CommaOk {
					if _, isMap := lk.X.Type().Underlying().(*types.Map); isMap {
						n++
					}
				}
			})
			c.Check(n > 0, "C07.4-presence", FuncName(fn)+"|presence is tested", p.Pos(fn.Pos()), fmt.Sprintf("%d membership test(s) (find helper / comma-ok lookup) decide which ids are missing on the other side", n))
		}
		c.Min("C07.4-presence", 2)
		dirtyMarkSurvives(c, "C07.4-hash-freshness", p.Func(ldPkg+":(*hashRanges).addElement"))
		dirtyMarkSurvives(c, "C07.4-hash-freshness", p.Func(ldPkg+":(*hashRanges).removeElement"))
	}

	// ---- C07.5 an absent hash proves nothing: compareResults may return without comparing or
	// descending ("ranges are equal") only when a hash is present. getRange leaves Hash nil both
	// for an empty indexed range and for a range that is not in the index (elements listed
	// instead), so nil == nil must not count as equality (finding F18).
	{
		rule := "C07.5-absent-hash-proves-nothing"
		cr := p.Func(ldPkg + ":(*diff).compareResults")
		c.Fn(FuncName(cr))
		hashF := p.Field(ldPkg + ":RangeResult.Hash")
		prepareF := p.Field(ldPkg + ":diffCtx.prepare")
		cmpF := p.Field(ldPkg + ":diffCtx.compareFunc")
		present := GCmp("a RangeResult.Hash is present (len != 0 / != nil)", func(a Atom) (bool, bool) {
			if a.Op != token.NEQ && a.Op != token.EQL && a.Op != token.GTR {
				return false, false
			}
			if IsLenOfField(a.X, hashF) {
				if k, ok := IntConst(a.Y); ok && k == 0 {
					return true, a.Op != token.EQL
				}
			}
			if IsNilConst(a.Y) && IsLoadOfField(a.X, hashF) && a.Op != token.GTR {
				return true, a.Op == token.NEQ
			}
			return false, false
		})
		isWork := func(in ssa.Instruction) bool {
			switch x := in.(type) {
			case *ssa.Store:
				if fa, ok := x.Addr.(*ssa.FieldAddr); ok && FieldOf(fa) == prepareF {
					return true
				}
			case *ssa.Call:
				if !x.Call.IsInvoke() && IsLoadOfField(x.Call.Value, cmpF) {
					return true
				}
			}
			return false
		}
		nWork := 0
		Instrs(cr, func(in ssa.Instruction) {
			if isWork(in) {
				nWork++
			}
		})
		// entering the loop that schedules the sub-ranges counts as work: genTupleRanges returns
		// divideFactor (>= 2, C07.2) tuples, the zero-iteration path is infeasible
		workHeader := map[ssa.Instruction]bool{}
		for _, l := range Loops(cr) {
			has := false
			for b := range l.Blocks {
				for _, in := range b.Instrs {
					if isWork(in) {
						has = true
					}
				}
			}
			if has && len(l.Header.Instrs) > 0 {
				workHeader[l.Header.Instrs[0]] = true
			}
		}
		pass, sites := present.PassEdges(cr)
		r := Reach(cr, ReachOpts{Removed: pass, Cut: func(in ssa.Instruction) bool { return isWork(in) || workHeader[in] }})
		bad := ""
		for _, ret := range Returns(cr) {
			if r.Reachable(ret) {
				bad = "compareResults can return at " + p.Pos(InstrPos(ret)) + " without comparing elements or scheduling sub-ranges although no hash was present (witness " + r.Path(p, ret) + "): two absent hashes (empty range vs. a range that is not in the index) are taken for equal ranges and the ids one side lists are never reported"
			}
		}
		if nWork < 3 {
			bad = fmt.Sprintf("compareResults contains only %d compare/descend sites (rule table out of date)", nWork)
		}
		c.Check(bad == "", rule, FuncName(cr)+"|do-nothing return requires a present hash", p.Pos(cr.Pos()), orDefault(bad, fmt.Sprintf("every return that neither compares nor descends crosses one of %d hash-presence test(s)", len(sites))))
	}
}

// lowerBounded: v >= min by construction: a constant >= min, or a phi of such
// constants and a value taken only on the false edge of `v < min`.
func lowerBounded(fn *ssa.Function, v ssa.Value, min int64) (bool, string) {
	if k, ok := IntConst(v); ok {
		return k >= min, fmt.Sprintf("constant %d", k)
	}
	phi, ok := v.(*ssa.Phi)
	if !ok {
		return false, fmt.Sprintf("value is not clamped to >= %d", min)
	}
	for i, e := range phi.Edges {
		if k, isK := IntConst(e); isK {
			if k < min {
				return false, fmt.Sprintf("may be the constant %d < %d", k, min)
			}
			continue
		}
		pred := phi.Block().Preds[i]
		guarded := false
		for _, b := range fn.Blocks {
			if len(b.Instrs) == 0 {
				continue
			}
			iff, isIf := b.Instrs[len(b.Instrs)-1].(*ssa.If)
			if !isIf {
				continue
			}
			a := AtomOf(iff)
			if a.X != e {
				continue
			}
			z, isZ := IntConst(a.Y)
			if !isZ {
				continue
			}
			var okSucc int
			switch {
			case a.Op == token.LSS && z == min, a.Op == token.LEQ && z == min-1:
				okSucc = 1 - a.TrueSucc()
			case a.Op == token.GEQ && z == min, a.Op == token.GTR && z == min-1:
				okSucc = a.TrueSucc()
			default:
				continue
			}
			if (b == pred && b.Succs[okSucc] == phi.Block()) || b.Succs[okSucc].Dominates(pred) {
				guarded = true
			}
		}
		if !guarded {
			return false, fmt.Sprintf("the parameter can reach the store without the `< %d` clamp", min)
		}
	}
	return true, fmt.Sprintf("clamped: a constant >= %d or the parameter on the >= %d edge of its guard", min, min)
}

// searchesById: the predicate handed to slices.IndexFunc / ContainsFunc compares
// Element.Id of its argument with another Element.Id.
func searchesById(call *ssa.Call, idF *types.Var) bool {
	if len(call.Call.Args) < 2 {
		return false
	}
	var pred *ssa.Function
	switch x := call.Call.Args[1].(type) {
	case *ssa.MakeClosure:
		pred, _ = x.Fn.(*ssa.Function)
	case *ssa.Function:
		pred = x
	}
	if pred == nil {
		return false
	}
	ok := false
	for _, ri := range Returns(pred) {
		ret := ri.(*ssa.Return)
		if len(ret.Results) != 1 {
			return false
		}
		bo, isB := ret.Results[0].(*ssa.BinOp)
		if !isB || bo.Op != token.EQL || !IsLoadOfField(bo.X, idF) || !IsLoadOfField(bo.Y, idF) {
			return false
		}
		ok = true
	}
	return ok
}
