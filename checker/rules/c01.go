package rules

import (
	"fmt"
	"go/token"
	"go/types"
	"strings"

	"golang.org/x/tools/go/ssa"

	. "verif/checker/core"
)

const stPkg = "commonspace/object/tree/synctree"

func init() {
	register(&Pack{
		ID: "C01",
		Explanation: "Three structural necessary conditions of convergence, decided on SSA: (1) ancestor closure — Tree.attached gains an entry only in Tree.add (first element) and Tree.attach; every call of attach is reachable only across canAttachOrRemove()==(attach=true); canAttachOrRemove reports attach=true only when its per-parent loop found every PreviousIds element in Tree.attached (the loop-carried flag is cleared on the miss edge) and across the lookup hit of SnapshotId; what a rebuild persists is what the tree builder reports as attached; " +
			"(2) divergence always produces a request — HandleHeadUpdate reaches a nil/nil return only across hasHeads()==true or UnsortedEquals(res.Heads, update.Heads)==true, otherwise through CreateFullSyncRequest; HandleStreamRequest answers a non-probe request with diverging heads only after creating a counter request; errors of NewResponse / ProtoMessage / send are returned; " +
			"(3) persist before advertise — syncTree broadcasts a head update only across the ==nil edge of the ObjectTree.Add* call; AddRawChangesWithUpdater returns success only across storage.AddAll()==nil; the tree lock taken in the sync handler is released on every exit and is not held while sending.",
		NotDecided: "Equality of head sets / stored sets after the network drains (outcome of schedules and DAG values); correctness of common-snapshot computation and of rebuildFromStorage's result; liveness of the anti-entropy phase.",
		Run:        runC01,
	})
}

func runC01(c *Ctx) {
	p := c.P
	attachedF := p.Field(otPkg + ":Tree.attached")
	tAdd := p.Func(otPkg + ":(*Tree).add")
	tAttach := p.Func(otPkg + ":(*Tree).attach")
	canAttach := p.Func(otPkg + ":(*Tree).canAttachOrRemove")
	otFuncs := p.FuncsOfPkg(otPkg)

	// ---- C01.1 ancestor closure
	{
		for _, w := range FieldWrites(otFuncs, attachedF) {
			if strings.HasSuffix(p.Fset.Position(w.Fn.Pos()).Filename, "testutils.go") {
				continue
			}
			top := TopFunc(w.Fn)
			switch w.Kind {
			case "mapupdate":
				ok := top == tAttach
				c.Check(ok, "C01.1-attached-writers", FuncName(w.Fn)+"|attached[id]=…", p.Pos(InstrPos(w.Instr)), "entries are inserted into Tree.attached only by Tree.attach")
			case "store", "init":
				ok := top == tAdd || top.Name() == "makeRootAndRemove" || top.Name() == "LeaveOnlyBefore" || top.Name() == "reduceTree"
				c.Check(ok, "C01.1-attached-writers", FuncName(w.Fn)+"|attached=map", p.Pos(InstrPos(w.Instr)), "Tree.attached is replaced only when the first element is added / the tree is reduced")
			}
		}
		c.Min("C01.1-attached-writers", 2)
		// attach gated by canAttachOrRemove attach==true
		g := GBool("canAttachOrRemove().attach==true", CalleeFn(canAttach), 0, true)
		for _, fn := range []*ssa.Function{tAdd, tAttach} {
			c.RequireGate("C01.1-attach-gated", fn, g, CallSinksX(fn, CalleeFn(tAttach), false), "call Tree.attach")
		}
		// who may call attach
		whoMayCall(c, "C01.1-attach-gated", otFuncs, CalleeFn(tAttach), "Tree.attach", map[*ssa.Function]string{tAdd: "gated", tAttach: "wait-list, gated"})
		// canAttachOrRemove: attach=true result
		hit := mapOkGate(attachedF, true)
		var trueRets []ssa.Instruction
		for _, r := range Returns(canAttach) {
			ret := r.(*ssa.Return)
			if b, isC := BoolConst(ret.Results[0]); isC && !b {
				continue
			}
			if knownFalseAt(ret.Results[0], ret.Block()) {
				continue
			}
			trueRets = append(trueRets, r)
		}
		// (a) the flag: a bool phi in the parent-loop header, initial true; on the miss edge it becomes false
		flagOK, detail := attachFlagShape(canAttach, attachedF)
		c.Check(flagOK, "C01.1-canattach-shape", FuncName(canAttach)+"|all-parents-attached flag", p.Pos(canAttach.Pos()), detail)
		// (b) snapshot lookup hit gates the (true, …) return; sites ≥ 2 (parents + snapshot)
		c.RequireAnyGate("C01.1-canattach-shape", canAttach, []Gate{hit}, []int{2}, trueRets, "return attach=true", nil, false)
		// the snapshot lookup specifically: key is c.SnapshotId
		snap := p.Field(otPkg + ":Change.SnapshotId")
		found := false
		Instrs(canAttach, func(in ssa.Instruction) {
			if l, ok := in.(*ssa.Lookup); ok && l.CommaOk && IsLoadOfField(l.X, attachedF) && IsLoadOfField(l.Index, snap) {
				found = true
			}
		})
		c.Check(found, "C01.1-canattach-shape", FuncName(canAttach)+"|snapshot base attached", p.Pos(canAttach.Pos()), "the snapshot base of the change is looked up in Tree.attached")
		// what the rebuild path reports as added is what AddFast attached
		bwa := p.Func(otPkg + ":(*treeBuilder).buildWithAdded")
		addFast := p.Func(otPkg + ":(*Tree).AddFast")
		bwa, _ = descendTo(bwa, CalleeFn(addFast)) // the second half of the builder may have been split off
		okb := false
		detailb := "the changes reported as added by buildWithAdded are drawn from the slice Tree.AddFast returned (only attached changes are persisted)"
		for _, l := range Loops(bwa) {
			if l.Test == nil {
				continue
			}
			lc, isCall := l.TestAtom.Y.(*ssa.Call)
			if !isCall || len(lc.Call.Args) != 1 {
				continue
			}
			if valueIsResultOf(lc.Call.Args[0], CalleeFn(addFast)) {
				okb = true
			}
		}
		if len(CallSinks(bwa, CalleeFn(addFast), false)) == 0 {
			okb = false
			detailb = "buildWithAdded no longer calls Tree.AddFast (rule table out of date)"
		}
		c.Check(okb, "C01.1-rebuild-persists-attached-only", FuncName(bwa)+"|added ⊆ AddFast result", p.Pos(bwa.Pos()), detailb)
	}

	// ---- C01.2 divergence always produces a request
	{
		hh := p.Func(stPkg + ":(*syncHandler).HandleHeadUpdate")
		hasHeads := p.Func(stPkg + ":(*syncHandler).hasHeads")
		unsortedEq := p.PkgFunc("util/slice:UnsortedEquals")
		cfr := calleeMethod("tree/synctree", "CreateFullSyncRequest")
		removed := map[Edge]bool{}
		for _, g := range []Gate{GBool("hasHeads()==true", CalleeFn(hasHeads), 0, true), GBool("UnsortedEquals(res.Heads, update.Heads)==true", CalleeIs(unsortedEq), 0, true)} {
			e, sites := g.PassEdges(hh)
			c.Check(len(sites) > 0, "C01.2-divergence-requests", FuncName(hh)+"|tests "+g.Name, p.Pos(hh.Pos()), "the handler compares the peer's heads with the local ones ("+g.Name+")")
			for k := range e {
				removed[k] = true
			}
		}
		r := Reach(hh, ReachOpts{Removed: removed, Cut: CutAtCall(cfr)})
		bad := ""
		for _, ret := range Returns(hh) {
			if r.Reachable(ret) && !IsErrorExit(ret.(*ssa.Return)) {
				bad = "a return without error at " + p.Pos(InstrPos(ret)) + " is reachable without the heads matching and without CreateFullSyncRequest (a lost update would never be repaired by this pair); witness " + r.Path(p, ret)
			}
		}
		c.Check(bad == "", "C01.2-divergence-requests", FuncName(hh)+"|mismatch ⇒ full-sync request", p.Pos(hh.Pos()), orDefault(bad, "every non-error exit either saw matching heads or created a full-sync request"))
		// the request that was created is what gets returned: the deferred closure copies objectRequest into req when err == nil
		okDefer := false
		for _, a := range hh.AnonFuncs {
			Instrs(a, func(in ssa.Instruction) {
				if st, ok := in.(*ssa.Store); ok {
					if _, isFV := st.Addr.(*ssa.FreeVar); isFV && strings.Contains(st.Val.Type().String(), "Request") {
						okDefer = true
					}
					if mi, isMI := st.Val.(*ssa.MakeInterface); isMI && strings.Contains(mi.X.Type().String(), "Request") {
						okDefer = true
					}
				}
			})
		}
		if !okDefer {
			// or it is returned directly (possibly out of a helper that creates it)
			for _, ri := range Returns(hh) {
				ret := ri.(*ssa.Return)
				if len(ret.Results) == 0 {
					continue
				}
				vals, _ := Origins(ret.Results[0])
				for _, o := range vals {
					if call, _, isCall := CallResult(o); isCall && cfr(&call.Call) {
						okDefer = true
					}
				}
			}
		}
		c.Check(okDefer, "C01.2-divergence-requests", FuncName(hh)+"|request returned", p.Pos(hh.Pos()), "the created request is what the handler returns (published into the named result by the deferred closure, or returned directly)")

		hs := p.Func(stPkg + ":(*syncHandler).HandleStreamRequest")
		isLen := func(v ssa.Value) bool {
			call, ok := v.(*ssa.Call)
			if !ok {
				return false
			}
			b, ok := call.Call.Value.(*ssa.Builtin)
			return ok && b.Name() == "len"
		}
		lenEq := GCmp("len(curHeads)==len(request.Heads)", func(a Atom) (bool, bool) {
			if (a.Op != token.EQL && a.Op != token.NEQ) || !isLen(a.X) || !isLen(a.Y) {
				return false, false
			}
			return true, a.Op == token.EQL
		})
		reqHeads := p.Field(tcProto + ":TreeFullSyncRequest.Heads")
		headsEmpty := GCmp("len(request.Heads)==0", func(a Atom) (bool, bool) {
			if (a.Op != token.EQL && a.Op != token.NEQ) || !isLen(a.X) {
				return false, false
			}
			if k, ok := IntConst(a.Y); !ok || k != 0 {
				return false, false
			}
			if !IsLoadOfField(a.X.(*ssa.Call).Call.Args[0], reqHeads) {
				return false, false
			}
			return true, a.Op == token.EQL
		})
		probeF := p.Field(tcProto + ":TreeFullSyncRequest.Probe")
		probe := GCmp("request.Probe==true", func(a Atom) (bool, bool) {
			if a.Op != token.ILLEGAL || !IsLoadOfField(a.X, probeF) {
				return false, false
			}
			return true, true
		})
		respSinks := CallSinks(hs, AnyOf(CalleeNamed("synctree/response", "ResponseProducer", "EmptyResponse"), CalleeNamed("synctree/response", "ResponseProducer", "NewResponse")), false)
		c.RequireAnyGate("C01.2-divergence-requests", hs, []Gate{GErrNil("CreateFullSyncRequest()==nil", cfr), lenEq, headsEmpty, probe}, nil, respSinks, "response production", nil, false)
		// errors of the response pipeline are returned
		send := func(cc *ssa.CallCommon) bool {
			pm, ok := cc.Value.(*ssa.Parameter)
			return ok && pm.Name() == "send"
		}
		for _, m := range []struct {
			n string
			m CallMatcher
		}{{"producer.NewResponse", CalleeNamed("synctree/response", "ResponseProducer", "NewResponse")}, {"ProtoMessage", CalleeNamed("synctree/response", "Response", "ProtoMessage")}, {"send", send}} {
			requirePropagatesOrReturned(c, "C01.2-response-errors-returned", hs, m.m, m.n)
		}
	}

	// ---- C01.4 the snapshot path a replica announces belongs to its current root
	{
		spf := p.Field(otPkg + ":objectTree.snapshotPath")
		actual := p.Func(otPkg + ":(*objectTree).snapshotPathIsActual")
		rootId := p.Func(otPkg + ":(*Tree).RootId")
		c.Fn(FuncName(actual))
		ok := true
		n := 0
		var leaves func(v ssa.Value, seen map[ssa.Value]bool)
		leaves = func(v ssa.Value, seen map[ssa.Value]bool) {
			if seen[v] {
				return
			}
			seen[v] = true
			if phi, isPhi := v.(*ssa.Phi); isPhi {
				for _, e := range phi.Edges {
					leaves(e, seen)
				}
				return
			}
			if b, isC := BoolConst(v); isC && !b {
				return
			}
			n++
			bo, isBO := v.(*ssa.BinOp)
			if !isBO || bo.Op != token.EQL {
				ok = false
				return
			}
			isFirst := func(x ssa.Value) bool {
				ld, isLd := x.(*ssa.UnOp)
				if !isLd || ld.Op != token.MUL {
					return false
				}
				ia, isIA := ld.X.(*ssa.IndexAddr)
				if !isIA {
					return false
				}
				k, isK := IntConst(ia.Index)
				return isK && k == 0 && IsLoadOfField(ia.X, spf)
			}
			isRoot := func(x ssa.Value) bool { return valueIsResultOf(x, CalleeFn(rootId)) }
			if !((isFirst(bo.X) && isRoot(bo.Y)) || (isFirst(bo.Y) && isRoot(bo.X))) {
				ok = false
			}
		}
		for _, r := range Returns(actual) {
			leaves(r.(*ssa.Return).Results[0], map[ssa.Value]bool{})
		}
		c.Check(ok && n > 0, "C01.4-snapshot-path-cache", FuncName(actual)+"|valid iff path[0]==RootId()", p.Pos(actual.Pos()),
			"the cached snapshot path is reported valid only when its first element equals the tree's current root (a root that moved back must invalidate it)")
		sp := p.Func(otPkg + ":(*objectTree).SnapshotPath")
		var cachedRets []ssa.Instruction
		for _, r := range Returns(sp) {
			if IsLoadOfField(r.(*ssa.Return).Results[0], spf) {
				cachedRets = append(cachedRets, r)
			}
		}
		c.RequireGate("C01.4-snapshot-path-cache", sp, GBool("snapshotPathIsActual()==true", CalleeFn(actual), 0, true), cachedRets, "return of the cached path")
		// the cache is written only by SnapshotPath (recomputed from storage)
		for _, w := range FieldWrites(otFuncs, spf) {
			if w.Kind == "init" {
				continue
			}
			okw := TopFunc(w.Fn) == sp
			c.Check(okw, "C01.4-snapshot-path-cache", FuncName(w.Fn)+"|snapshotPath writer", p.Pos(InstrPos(w.Instr)), "objectTree.snapshotPath is written only by SnapshotPath after walking storage from the current root")
		}
	}

	// ---- C01.3 persist before advertise
	{
		bc := calleeMethod("tree/synctree", "Broadcast")
		chu := calleeMethod("tree/synctree", "CreateHeadUpdate")
		addC := calleeMethod("tree/objecttree", "AddContentWithValidator")
		fn := p.Func(stPkg + ":(*syncTree).AddContentWithValidator")
		c.RequireGate("C01.3-persist-before-advertise", fn, GErrNil("ObjectTree.AddContentWithValidator()==nil", addC), CallSinksX(fn, AnyOf(bc, chu), false), "head update creation/broadcast")
		fn2 := p.Func(stPkg + ":(*syncTree).AddRawChangesFromPeer")
		addRaw := p.Func(stPkg + ":(*syncTree).AddRawChanges")
		c.RequireGate("C01.3-persist-before-advertise", fn2, GErrNil("AddRawChanges()==nil", CalleeFn(addRaw)), CallSinksX(fn2, AnyOf(bc, chu), false), "head update creation/broadcast")
		// AddRawChanges delegates to AddRawChangesWithUpdater and returns its verdict
		arwu := calleeMethod("tree/objecttree", "AddRawChangesWithUpdater")
		by, _ := MustPass(addRaw, nil, CutAtCall(arwu), SuccessReturns(addRaw), nil)
		c.Check(len(by) == 0, "C01.3-persist-before-advertise", FuncName(addRaw)+"|delegates", p.Pos(addRaw.Pos()), "AddRawChanges returns the verdict of ObjectTree.AddRawChangesWithUpdater")
		// object tree: success only across storage.AddAll == nil (or nothing to add)
		ot := p.Func(otPkg + ":(*objectTree).AddRawChangesWithUpdater")
		add2 := p.Func(otPkg + ":(*objectTree).addChangesToTree")
		_ = add2
		c.RequireGate("C01.3-persist-before-advertise", ot, GErrNil("storage.AddAll()==nil", isStorageAddAll), SuccessReturns(ot), "non-error return")
		oc := p.Func(otPkg + ":(*objectTree).AddContentWithValidator")
		c.RequireGate("C01.3-persist-before-advertise", oc, GErrNil("storage.AddAll()==nil", isStorageAddAll), SuccessReturns(oc), "non-error return")

		// tree lock in the handlers
		la := NewLockAnalysis()
		for _, name := range []string{"HandleHeadUpdate", "HandleStreamRequest", "HandleResponse"} {
			h := p.Func(stPkg + ":(*syncHandler)." + name)
			s := la.Analyze(h)
			_ = s
			// the tree lock is an interface method (SyncTree.Lock): pair Lock/Unlock calls on paths
			lock := CalleeNamed("tree/synctree", "SyncTree", "Lock")
			unlock := CalleeNamed("tree/synctree", "SyncTree", "Unlock")
			lk := func(cc *ssa.CallCommon) bool {
				o := CalleeObj(cc)
				return o != nil && o.Name() == "Lock" && cc.IsInvoke()
			}
			ul := func(cc *ssa.CallCommon) bool {
				o := CalleeObj(cc)
				return o != nil && o.Name() == "Unlock" && cc.IsInvoke()
			}
			_, _ = lock, unlock
			locks := CallSinks(h, lk, false)
			if len(locks) == 0 {
				c.Violate("C01.3-tree-lock", FuncName(h)+"|takes tree lock", p.Pos(h.Pos()), "handler no longer takes the tree lock")
				continue
			}
			bad := ""
			for _, l := range locks {
				if deferredAfter(h, l, ul) {
					continue
				}
				r := Reach(h, ReachOpts{From: l, Cut: CutAtCall(ul)})
				for _, ret := range Returns(h) {
					if r.Reachable(ret) {
						bad = "exit at " + p.Pos(InstrPos(ret)) + " reachable with the tree lock still held (witness " + r.Path(p, ret) + ")"
					}
				}
				// no send while holding the lock (a deferred unlock keeps it held)
				r2 := Reach(h, ReachOpts{From: l, Cut: func(in ssa.Instruction) bool {
					cc, isCall := in.(*ssa.Call)
					return isCall && ul(&cc.Call)
				}})
				for _, cs := range CallsIn(h) {
					if pm, ok := cs.Common().Value.(*ssa.Parameter); ok && pm.Name() == "send" && r2.Reachable(cs) {
						bad = "send is called while the tree lock is held at " + p.Pos(InstrPos(cs))
					}
				}
			}
			c.Check(bad == "", "C01.3-tree-lock", FuncName(h)+"|released on all exits, not held across send", p.Pos(h.Pos()), orDefault(bad, "tree lock released on every exit; no send under the lock"))
		}
	}
	runC01OwnNode(c)
	runC01Realign(c)
	runC01CommonSnapshot(c)
}

// runC01CommonSnapshot — C01.6: with several heads, reduceTree re-roots at the
// snapshot of the first head's path that is common to ALL heads, i.e. at the
// MAXIMUM over the heads of the index at which each head's snapshot chain meets
// that path. The index handed to makeRootAndRemove(path[k]) must therefore be a
// max-accumulator: a new value replaces it only across `new > current` (or via
// the max builtin). Taking the last head's index instead drops changes that
// replicas reducing correctly keep.
func runC01CommonSnapshot(c *Ctx) {
	p := c.P
	rule := "C01.6-common-snapshot-max"
	fn := p.Func(otPkg + ":(*Tree).reduceTree")
	mrr := p.Func(otPkg + ":(*Tree).makeRootAndRemove")
	c.Fn(FuncName(fn))
	var k ssa.Value
	for _, cs := range CallSinks(fn, CalleeFn(mrr), false) {
		arg := cs.(*ssa.Call).Call.Args[1]
		if u, ok := arg.(*ssa.UnOp); ok {
			if ia, ok := u.X.(*ssa.IndexAddr); ok {
				if _, isConst := ia.Index.(*ssa.Const); !isConst {
					k = ia.Index
				}
			}
		}
	}
	if k == nil {
		c.Hold(rule, FuncName(fn)+"|root index is a maximum", p.Pos(fn.Pos()), "reduceTree no longer re-roots at an indexed element of the snapshot path: shape not recognised, clause not decided")
		c.Note("C01.6: shape not recognised; not decided")
		return
	}
	web := map[ssa.Value]bool{}
	var grow func(v ssa.Value)
	grow = func(v ssa.Value) {
		if web[v] {
			return
		}
		if ph, ok := v.(*ssa.Phi); ok {
			web[v] = true
			for _, e := range ph.Edges {
				if _, isPhi := e.(*ssa.Phi); isPhi {
					grow(e)
				}
			}
		}
	}
	grow(k)
	bad := ""
	if len(web) == 0 {
		bad = "the index of the new root is not accumulated over the heads (it is " + describeOperand(k) + ")"
	}
	inWeb := func(v ssa.Value) bool { return web[v] }
	guarded := func(v ssa.Value, pred *ssa.BasicBlock) bool {
		if call, ok := v.(*ssa.Call); ok {
			if b, ok := call.Call.Value.(*ssa.Builtin); ok && b.Name() == "max" {
				for _, a := range call.Call.Args {
					if inWeb(a) {
						return true
					}
				}
			}
		}
		for _, b := range fn.Blocks {
			if len(b.Instrs) == 0 {
				continue
			}
			iff, ok := b.Instrs[len(b.Instrs)-1].(*ssa.If)
			if !ok {
				continue
			}
			a := AtomOf(iff)
			greaterWhenTrue := false
			switch {
			case (a.Op == token.GTR || a.Op == token.GEQ) && a.X == v && inWeb(a.Y):
				greaterWhenTrue = true
			case (a.Op == token.LSS || a.Op == token.LEQ) && a.Y == v && inWeb(a.X):
				greaterWhenTrue = true
			default:
				continue
			}
			_ = greaterWhenTrue
			ts := b.Succs[a.TrueSucc()]
			if ts == pred || edgeDom(b, ts, pred) {
				return true
			}
		}
		return false
	}
	for ph := range web {
		phi := ph.(*ssa.Phi)
		for i, e := range phi.Edges {
			if inWeb(e) {
				continue
			}
			if _, isConst := e.(*ssa.Const); isConst {
				continue
			}
			if !guarded(e, phi.Block().Preds[i]) {
				bad = "the root index takes the value " + describeOperand(e) + " (from block ending at " + p.Pos(InstrPos(phi.Block().Preds[i].Instrs[len(phi.Block().Preds[i].Instrs)-1])) + ") without the test `new > current`: it is the last head's index, not the maximum over all heads"
			}
		}
	}
	c.Check(bad == "", rule, FuncName(fn)+"|root index is a maximum", p.Pos(fn.Pos()), orDefault(bad, "the index of the common snapshot only grows: it is replaced only across `new index > current`"))
}

// runC01Realign — C01.3 (shared with C10 rule M): a replica "never holds or
// advertises a change without its ancestors" and converges on the stored set
// only if, whenever accepting changes fails after the live tree was already
// mutated, the tree is brought back in line with storage. The obligations are
// the objecttree rows of C10's rule M, evaluated by the same code.
func runC01Realign(c *Ctx) {
	sub := NewCtx(c.P, "C10", c.Tier)
	if !runShared(c, "C10", func() { runC10(sub) }) {
		return
	}
	n := 0
	for _, o := range sub.Obls {
		if o.Rule != "C10.M-realign-on-error" || !strings.Contains(o.Key, "objecttree.objectTree)") {
			continue
		}
		n++
		construct := strings.TrimPrefix(o.Key, o.Rule+"|")
		c.Check(o.Held, "C01.3-realign-on-error", construct, o.Pos, o.Detail)
	}
	for f := range sub.Funcs {
		if strings.Contains(f, "objecttree.objectTree)") {
			c.Fn(f)
		}
	}
	c.Min("C01.3-realign-on-error", 3)
	_ = n
}

// runC01OwnNode — C01.5: Tree.makeRootAndRemove re-roots the tree at a node and
// prunes through that node's Previous/Next links; the node must be one of the
// SAME tree (looked up in its attached index, or its root), never a *Change of
// another Tree instance carrying the same id (e.g. the tree that was just
// replaced by a rebuild): that object's links lead into the discarded tree and
// the live tree keeps changes the replicas that reduced correctly have dropped.
func runC01OwnNode(c *Ctx) {
	p := c.P
	rule := "C01.5-reroot-own-node"
	mrr := p.Func(otPkg + ":(*Tree).makeRootAndRemove")
	fAttached := p.Field(otPkg + ":Tree.attached")
	fRoot := p.Field(otPkg + ":Tree.root")
	n := 0
	for _, fn := range p.FuncsOfPkg(otPkg) {
		if isTestSupport(p, fn) {
			continue
		}
		for _, cs := range CallSinks(fn, CalleeFn(mrr), false) {
			call := cs.(*ssa.Call)
			recv, arg := call.Call.Args[0], call.Call.Args[1]
			n++
			c.Fn(FuncName(fn))
			// same tree: identical value, or loads of the same field with no store to it in between
			sameTree := func(base ssa.Value) bool {
				if base == recv {
					return true
				}
				fa, ba := LoadedField(base)
				fb, bb := LoadedField(recv)
				if fa == nil && fb == nil {
					return shareOrigin(base, recv)
				}
				if fa == nil || fa != fb || !(ba == bb || shareOrigin(ba, bb)) {
					return false
				}
				bi, ok1 := base.(ssa.Instruction)
				ri, ok2 := recv.(ssa.Instruction)
				if !ok1 || !ok2 {
					return false
				}
				for _, w := range FieldWrites([]*ssa.Function{fn}, fa) {
					if w.Kind != "store" {
						continue
					}
					fromBase := Reach(fn, ReachOpts{From: bi})
					fromStore := Reach(fn, ReachOpts{From: w.Instr})
					if fromBase.Reachable(w.Instr) && fromStore.Reachable(ri) {
						return false
					}
				}
				return true
			}
			why := ""
			seen := map[ssa.Value]bool{}
			var own func(v ssa.Value, d int) bool
			own = func(v ssa.Value, d int) bool {
				if v == nil || d > 25 {
					why = "origin too deep"
					return false
				}
				if seen[v] {
					return true
				}
				seen[v] = true
				switch x := v.(type) {
				case *ssa.Phi:
					for _, e := range x.Edges {
						if !own(e, d+1) {
							return false
						}
					}
					return true
				case *ssa.Extract:
					if lk, ok := x.Tuple.(*ssa.Lookup); ok && x.Index == 0 {
						return own(lk, d+1)
					}
				case *ssa.Lookup:
					if f, base := LoadedField(x.X); f == fAttached {
						if sameTree(base) {
							return true
						}
						why = "looked up in the attached index of a different Tree value"
						return false
					}
				case *ssa.Const:
					return x.Value == nil
				case *ssa.UnOp:
					if f, base := LoadedField(x); f == fRoot {
						if sameTree(base) {
							return true
						}
						why = "the root of a different Tree value (" + describeOperand(base) + ")"
						return false
					}
					if ia, ok := x.X.(*ssa.IndexAddr); ok {
						apps := appendsFeeding(ia.X)
						if len(apps) == 0 {
							why = "element of a slice with no recognised producer"
							return false
						}
						for _, ap := range apps {
							for _, e := range appendedElems(ap) {
								if !own(e, d+1) {
									return false
								}
							}
						}
						return true
					}
					vals, unk := Origins(x)
					if !unk && len(vals) > 0 && !(len(vals) == 1 && vals[0] == v) {
						for _, o := range vals {
							if !own(o, d+1) {
								return false
							}
						}
						return true
					}
				}
				if why == "" {
					why = "value " + describeOperand(v) + " is not taken from this tree's attached index or root"
				}
				return false
			}
			ok := own(arg, 0)
			c.Check(ok, rule, fmt.Sprintf("%s|makeRootAndRemove argument #%d", FuncName(fn), n), p.Pos(call.Pos()),
				orDefault(map[bool]string{false: "the node handed to makeRootAndRemove is not a node of the tree it is called on: " + why}[ok], "the new root is looked up in (or is the root of) the tree it is installed into"))
		}
	}
	c.Min(rule, 4)
}

// deferredAfter: a defer of a call matching m follows `at` in its block or in
// a block `at` dominates before any branch (the usual Lock(); defer Unlock()).
func deferredAfter(fn *ssa.Function, at ssa.Instruction, m CallMatcher) bool {
	b := at.Block()
	seen := false
	for _, in := range b.Instrs {
		if in == at {
			seen = true
			continue
		}
		if !seen {
			continue
		}
		if d, ok := in.(*ssa.Defer); ok && m(&d.Call) {
			return true
		}
		if _, ok := in.(*ssa.Call); ok {
			// another call before the defer: still fine, keep scanning
		}
	}
	return false
}

// requirePropagatesOrReturned: the error of each call matching m is either
// tested with a failing edge that leads only to error exits, or returned
// directly.
func requirePropagatesOrReturned(c *Ctx, rule string, fn *ssa.Function, m CallMatcher, what string) {
	if propagatesRec(c, rule, fn, m, what, 0) == 0 {
		c.Violate(rule, FuncName(fn)+"|"+what, c.P.Pos(fn.Pos()), "no call of "+what+" found (rule table out of date)")
	}
}

// propagatesRec decides the calls in fn and, when part of fn was moved into
// functions new since the anchor snapshot, the calls there plus the
// propagation of each such helper's own error in fn. It returns the number of
// matching calls seen.
func propagatesRec(c *Ctx, rule string, fn *ssa.Function, m CallMatcher, what string, depth int) int {
	p := c.P
	calls := CallSinks(fn, m, false)
	n := len(calls)
	if depth < 2 {
		seen := map[*ssa.Function]bool{}
		for _, ci := range CallsIn(fn) {
			h := CalleeFunc(ci.Common())
			if h == nil || h == fn || h.Blocks == nil || !IsRepoFunc(h) || !IsNewFunc(h) || !ContainsCall(h, m) {
				continue
			}
			site, isCall := ci.(*ssa.Call)
			if !isCall || ErrIndex(h) < 0 {
				c.Violate(rule, FuncName(fn)+"|"+what, p.Pos(InstrPos(ci)), what+" is called inside "+FuncName(h)+", which cannot hand its error back to "+FuncName(fn))
				n++
				continue
			}
			if !seen[h] {
				seen[h] = true
				n += propagatesRec(c, rule, h, m, what, depth+1)
			}
			propagatesRec(c, rule, fn, func(cc *ssa.CallCommon) bool { return cc == &site.Call }, what+" (inside "+h.Name()+")", 2)
		}
	}
	for _, cs := range calls {
		call := cs.(*ssa.Call)
		bad := ""
		if !errResultUsed(call) {
			bad = "the error of " + what + " is discarded"
		} else {
			g := GErrNil(what+"==nil", func(cc *ssa.CallCommon) bool { return cc == &call.Call })
			fail := g.FailEdges(fn)
			var starts []*ssa.BasicBlock
			for e := range fail {
				starts = append(starts, e.From.Succs[e.Succ])
			}
			if len(starts) > 0 {
				r := Reach(fn, ReachOpts{Starts: starts})
				for _, ret := range Returns(fn) {
					if r.Reachable(ret) && KnownNil(ret.(*ssa.Return).Results[ErrIndex(fn)], ret) {
						bad = "after " + what + " failed a nil error is returned at " + p.Pos(InstrPos(ret))
					}
				}
				for _, c2 := range calls {
					if r.Reachable(c2) && c2 != cs {
						_ = c2
					}
				}
			} else {
				// must be returned directly
				ret := false
				for _, r := range Returns(fn) {
					if g.IsVerdict(r.(*ssa.Return).Results[ErrIndex(fn)]) {
						ret = true
					}
				}
				if !ret {
					bad = "the error of " + what + " is neither tested nor returned"
				}
			}
		}
		c.Check(bad == "", rule, FuncName(fn)+"|"+what, p.Pos(InstrPos(call)), orDefault(bad, "error of "+what+" ends the handler with an error"))
	}
	return n
}

// attachFlagShape checks the "all parents attached" flag of canAttachOrRemove:
// inside the loop over PreviousIds a miss of the Tree.attached lookup makes the
// value that decides the attach result false.
func attachFlagShape(fn *ssa.Function, attached *types.Var) (bool, string) {
	loops := Loops(fn)
	for _, l := range loops {
		// the lookup in the loop
		var lookupOK ssa.Value
		for b := range l.Blocks {
			for _, in := range b.Instrs {
				if lk, ok := in.(*ssa.Lookup); ok && lk.CommaOk && IsLoadOfField(lk.X, attached) {
					for _, ref := range *lk.Referrers() {
						if ex, ok := ref.(*ssa.Extract); ok && ex.Index == 1 {
							lookupOK = ex
						}
					}
				}
			}
		}
		if lookupOK == nil {
			continue
		}
		// bool phi in header with a const-true entry edge
		for _, in := range l.Header.Instrs {
			phi, ok := in.(*ssa.Phi)
			if !ok {
				break
			}
			if b, isB := phi.Type().Underlying().(*types.Basic); !isB || b.Kind() != types.Bool {
				continue
			}
			entryTrue := false
			for i, e := range phi.Edges {
				if !l.Blocks[l.Header.Preds[i]] {
					if v, isC := BoolConst(e); isC && v {
						entryTrue = true
					}
				}
			}
			if !entryTrue {
				continue
			}
			// from the miss edge of the lookup, every back edge into the header carries false
			g := GCmp("hit", func(a Atom) (bool, bool) {
				if a.Op != token.ILLEGAL || a.X != lookupOK {
					return false, false
				}
				return true, true
			})
			fail := g.FailEdges(fn)
			if len(fail) == 0 {
				return false, "the result of the Tree.attached lookup is not tested inside the parent loop"
			}
			var starts []*ssa.BasicBlock
			for e := range fail {
				starts = append(starts, e.From.Succs[e.Succ])
			}
			// blocks reachable from the miss edge without passing the header
			hdr := l.Header
			r := Reach(fn, ReachOpts{Starts: starts, Cut: func(in ssa.Instruction) bool { return in.Block() == hdr }})
			okAll := true
			for i, e := range phi.Edges {
				pred := l.Header.Preds[i]
				if !l.Blocks[pred] {
					continue
				}
				if len(pred.Instrs) > 0 && r.Reachable(pred.Instrs[len(pred.Instrs)-1]) {
					if v, isC := BoolConst(e); !(isC && !v) {
						// a path from the miss edge reaches the header keeping the flag unchanged:
						// acceptable only if the same pred is also reachable from the hit edge and the value is the phi itself
						// (shared latch): then require that no such sharing exists
						okAll = false
					}
				}
			}
			if !okAll {
				return false, "a missing parent does not clear the all-parents-attached flag on every path back to the loop header"
			}
			// the flag decides the result: some If tests the phi (or its exit value) after the loop
			return true, "the per-parent loop clears the all-parents-attached flag whenever a PreviousIds element is not in Tree.attached"
		}
	}
	return false, "no loop over the parents with an all-parents-attached flag was recognised in canAttachOrRemove"
}
