package rules

import (
	"fmt"
	"go/token"
	"go/types"
	"sort"
	"strings"

	"golang.org/x/tools/go/ssa"

	. "verif/checker/core"
)

func init() {
	register(&Pack{
		ID: "C04",
		Explanation: "ACL privilege rules as CFG gates, for every constructible record at once: (1) exhaustive dispatch — AclState.applyChangeContent tests every implementer of the sealed oneof interface of AclContentValue; " +
			"(2) validate-before-mutate — in every AclState.apply* method each write to / delete from a state field is reachable only across the ==nil edge of its ContentValidator.Validate* call (or of an apply* callee that satisfies the same); " +
			"(3) privilege gates — with the ShouldValidate()==false edge removed (fully validating ACL), a nil return of each contentValidator.Validate* method is unreachable unless it crossed the pass edge of the required predicate on Permissions(authorIdentity) (IsOwner / CanManageAccounts / NoPermissions …) and of the target-side guards of the frozen table (target not Guest/Owner, Admin⇒author IsOwner as a disjunctive gate, invite/request exists and has the right type, identities equal, invite signature verifies, join permissions ≤ invite's); gates inside per-element loops are decided on the loop back edge; " +
			"(4) predicate tables — the enum constants for which IsOwner/IsAdmin/IsGuest/NoPermissions/CanWrite/CanManageAccounts/CanRequestRemove return true equal the frozen table (syntactic case-set extraction on SSA, no execution); " +
			"(5) consensus/preflight paths install ValidateFull (ShouldValidate ≡ true).",
		NotDecided: "'Exactly one owner before and after' as an inductive invariant over histories; permission arithmetic of IsLessOrEqual beyond its call being a gate; invite liveness over time.",
		Run:        runC04,
	})
}

const aclList = "commonspace/object/acl/list"
const aclProto = "commonspace/object/acl/aclrecordproto"

// aclEnv bundles resolved anchors shared by the ACL packs (C03, C04, C05).
type aclEnv struct {
	p              *Prog
	permissions    *ssa.Function // (*AclState).Permissions
	shouldValidate *types.Func
	permType       *types.Named
}

func newAclEnv(p *Prog) *aclEnv {
	return &aclEnv{
		p:              p,
		permissions:    p.Func(aclList + ":(*AclState).Permissions"),
		shouldValidate: p.Method("commonspace/object/acl/recordverifier:AcceptorVerifier.ShouldValidate"),
		permType:       p.Type(aclList + ":AclPermissions"),
	}
}

// authorParam: the crypto.PubKey parameter named authorIdentity (last PubKey param).
func authorParam(fn *ssa.Function) *ssa.Parameter {
	var out *ssa.Parameter
	for _, pm := range fn.Params {
		if strings.HasSuffix(pm.Type().String(), "util/crypto.PubKey") {
			out = pm
		}
	}
	return out
}

func originatesFromParam(v ssa.Value, pm *ssa.Parameter) bool {
	if pm == nil {
		return false
	}
	vals, _ := Origins(v)
	if len(vals) == 0 {
		return false
	}
	// while a helper is summarised its parameters are bound to the call's arguments: a value
	// that comes from pm then resolves to whatever pm is bound to
	targets := map[ssa.Value]bool{pm: true}
	if b, bound := ParamBinding[pm]; bound && b != nil {
		bv, _ := Origins(b)
		for _, o := range bv {
			targets[o] = true
		}
	}
	for _, o := range vals {
		if !targets[o] {
			return false
		}
	}
	return true
}

type recvClass int

const (
	recvAuthor    recvClass = iota // Permissions(authorIdentity)
	recvState                      // Permissions(<other identity>) or a stored AccountState/Invite permission
	recvRequested                  // permission named inside the record (proto field)
)

// classifyPerm classifies the receiver of an AclPermissions predicate call.
func (e *aclEnv) classifyPerm(fn *ssa.Function, recv ssa.Value) (recvClass, bool) {
	vals, _ := Origins(recv)
	if len(vals) == 0 {
		return 0, false
	}
	cls := -1
	for _, o := range vals {
		var k recvClass
		switch x := o.(type) {
		case *ssa.Call:
			if !CalleeFn(e.permissions)(&x.Call) {
				return 0, false
			}
			if originatesFromParam(x.Call.Args[1], authorParam(fn)) {
				k = recvAuthor
			} else {
				k = recvState
			}
		default:
			f, _ := LoadedField(o)
			if f == nil {
				return 0, false
			}
			if f.Pkg() != nil && strings.HasSuffix(f.Pkg().Path(), "aclrecordproto") {
				k = recvRequested
			} else {
				k = recvState
			}
		}
		if cls >= 0 && recvClass(cls) != k {
			return 0, false
		}
		cls = int(k)
	}
	return recvClass(cls), true
}

var clsName = map[recvClass]string{recvAuthor: "author", recvState: "target(state)", recvRequested: "requested"}

// permGate: call of AclPermissions.<pred> on a receiver of class cls must equal want.
func (e *aclEnv) permGate(fn *ssa.Function, cls recvClass, pred string, want bool) Gate {
	name := fmt.Sprintf("%s.%s()==%v", clsName[cls], pred, want)
	g := e.permGateMatch(fn, cls, pred, want, name)
	// inside a helper the "author" is the helper's own author-identity parameter
	g.For = func(h *ssa.Function) Gate { return e.permGateMatch(h, cls, pred, want, name) }
	return g
}

func (e *aclEnv) permGateMatch(fn *ssa.Function, cls recvClass, pred string, want bool, name string) Gate {
	return GCmp(name, func(a Atom) (bool, bool) {
		if a.Op != token.ILLEGAL {
			return false, false
		}
		vals, unk := Origins(a.X)
		if unk || len(vals) == 0 {
			return false, false
		}
		for _, o := range vals {
			call, ok := o.(*ssa.Call)
			if !ok {
				return false, false
			}
			obj := CalleeObj(&call.Call)
			if obj == nil || obj.Name() != pred || obj.Pkg() == nil || !strings.HasSuffix(obj.Pkg().Path(), "acl/list") {
				return false, false
			}
			k, ok := e.classifyPerm(fn, call.Call.Args[0])
			if !ok || k != cls {
				return false, false
			}
		}
		return true, want
	})
}

// constVal looks up a package-level constant's value string.
func constVal(p *Prog, pkg, name string) string {
	obj := p.Pkg(pkg).Types.Scope().Lookup(name)
	k, ok := obj.(*types.Const)
	if !ok {
		panic(Brokenf("constant %s.%s not found", pkg, name))
	}
	return k.Val().ExactString()
}

// fieldConstGate: comparison of a load of `field` with the named constant.
func fieldConstGate(p *Prog, field *types.Var, constPkg, constName string, passWhenEqual bool) Gate {
	want := constVal(p, constPkg, constName)
	op := "=="
	if !passWhenEqual {
		op = "!="
	}
	return GCmp(fmt.Sprintf("%s %s %s", field.Name(), op, constName), func(a Atom) (bool, bool) {
		if a.Op != token.EQL && a.Op != token.NEQ {
			return false, false
		}
		match := func(x, y ssa.Value) bool {
			k, ok := y.(*ssa.Const)
			if !ok || k.Value == nil || k.Value.ExactString() != want {
				return false
			}
			return IsLoadOfField(x, field)
		}
		if match(a.X, a.Y) || match(a.Y, a.X) {
			return true, (a.Op == token.EQL) == passWhenEqual
		}
		return false, false
	})
}

// mapOkGate: `_, ok := <load of mapField>[k]`; pass when ok == wantOk.
func mapOkGate(mapField *types.Var, wantOk bool) Gate {
	n := "present in "
	if !wantOk {
		n = "absent from "
	}
	return GCmp(n+mapField.Name(), func(a Atom) (bool, bool) {
		if a.Op != token.ILLEGAL {
			return false, false
		}
		vals, unk := Origins(a.X)
		if unk || len(vals) == 0 {
			return false, false
		}
		for _, v := range vals {
			ex, ok := v.(*ssa.Extract)
			if !ok || ex.Index != 1 {
				return false, false
			}
			l, ok := ex.Tuple.(*ssa.Lookup)
			if !ok || !IsLoadOfField(l.X, mapField) {
				return false, false
			}
		}
		return true, wantOk
	})
}

// boolCallGate: boolean result #idx of a call to a method named `name` declared in a package with suffix pkg.
func boolCallGate(label, pkgSuffix, name string, idx int, want bool, extra func(c *ssa.CallCommon) bool) Gate {
	m := func(c *ssa.CallCommon) bool {
		o := CalleeObj(c)
		if o == nil || o.Name() != name || o.Pkg() == nil || !strings.HasSuffix(o.Pkg().Path(), pkgSuffix) {
			return false
		}
		if extra != nil && !extra(c) {
			return false
		}
		return true
	}
	return GBool(label, m, idx, want)
}

type req struct {
	any       []Gate // disjunction
	min       []int
	loopAware bool
}

func one(g Gate) req                 { return req{any: []Gate{g}} }
func oneN(g Gate, n int) req         { return req{any: []Gate{g}, min: []int{n}} }
func anyOf(gs ...Gate) req           { return req{any: gs} }
func inLoop(r req) req               { r.loopAware = true; return r }

func runC04(c *Ctx) {
	p := c.P
	e := newAclEnv(p)
	fns := p.FuncsOfPkg(aclList)
	_ = fns

	// ---------------- C04.1 exhaustive dispatch
	{
		sealed := p.Type(aclProto + ":isAclContentValue_Value")
		iface := sealed.Underlying().(*types.Interface)
		var variants []*types.Named
		scope := p.Pkg(aclProto).Types.Scope()
		for _, n := range scope.Names() {
			tn, ok := scope.Lookup(n).(*types.TypeName)
			if !ok {
				continue
			}
			nt, ok := tn.Type().(*types.Named)
			if !ok {
				continue
			}
			if _, isI := nt.Underlying().(*types.Interface); isI {
				continue
			}
			if types.Implements(types.NewPointer(nt), iface) {
				variants = append(variants, nt)
			}
		}
		sort.Slice(variants, func(i, j int) bool { return variants[i].Obj().Name() < variants[j].Obj().Name() })
		c.Min("C04.1-exhaustive-dispatch", 16)
		apply := p.Func(aclList + ":(*AclState).applyChangeContent")
		c.Fn(FuncName(apply))
		// payload types tested via GetX() != nil
		tested := map[string]bool{}
		for _, cs := range CallsIn(apply) {
			o := CalleeObj(cs.Common())
			if o == nil || !strings.HasPrefix(o.Name(), "Get") || o.Pkg() == nil || !strings.HasSuffix(o.Pkg().Path(), "aclrecordproto") {
				continue
			}
			call, ok := cs.(*ssa.Call)
			if !ok {
				continue
			}
			// result compared with nil somewhere
			for _, ref := range *call.Referrers() {
				if bo, ok := ref.(*ssa.BinOp); ok && (bo.Op == token.NEQ || bo.Op == token.EQL) && (IsNilConst(bo.X) || IsNilConst(bo.Y)) {
					tested[o.Type().(*types.Signature).Results().At(0).Type().String()] = true
				}
			}
		}
		for _, v := range variants {
			st := v.Underlying().(*types.Struct)
			ft := st.Field(0).Type().String()
			c.Check(tested[ft], "C04.1-exhaustive-dispatch", FuncName(apply)+"|"+v.Obj().Name(), p.Pos(apply.Pos()),
				"content variant "+v.Obj().Name()+" has a case in applyChangeContent (an unhandled variant is silently accepted by the default branch)")
		}
	}

	// ---------------- C04.2 validate before mutate
	stateFields := []string{"accountStates", "invites", "requestRecords", "pendingRequests", "keys", "readKeyChanges", "optionChanges"}
	var sf []*types.Var
	for _, n := range stateFields {
		sf = append(sf, p.Field(aclList+":AclState."+n))
	}
	applyValid := map[string]string{
		"applyOwnershipChange": "ValidateOwnershipChange", "applyInviteChange": "ValidateInviteChange", "applyPermissionChange": "ValidatePermissionChange",
		"applyInvite": "ValidateInvite", "applyInviteRevoke": "ValidateInviteRevoke", "applyRequestJoin": "ValidateRequestJoin", "applyAccountsAdd": "ValidateAccountsAdd",
		"applyRequestAccept": "ValidateRequestAccept", "applyInviteJoinWithoutApprove": "ValidateInviteJoin", "applyRequestDecline": "ValidateRequestDecline",
		"applyRequestCancel": "ValidateRequestCancel", "applyRequestRemove": "ValidateRequestRemove", "applyAccountRemove": "ValidateAccountRemove",
		"applySpaceOptionsChange": "ValidateSpaceOptionsChange",
	}
	updatePerms := p.Func(aclList + ":(*AclState).updatePermissions")
	unpack := p.Func(aclList + ":(*AclState).unpackAllKeys")
	applyRKC := p.Func(aclList + ":(*AclState).applyReadKeyChange")
	var names []string
	for n := range applyValid {
		names = append(names, n)
	}
	sort.Strings(names)
	for _, n := range names {
		fn := p.Func(aclList + ":(*AclState)." + n)
		vm := p.Method(aclList + ":ContentValidator." + applyValid[n])
		var sinks []ssa.Instruction
		for _, f := range sf {
			for _, w := range FieldWrites([]*ssa.Function{fn}, f) {
				sinks = append(sinks, w.Instr)
			}
		}
		// helpers that mutate state on behalf of the method
		sinks = append(sinks, CallSinks(fn, CalleeFn(updatePerms, unpack, applyRKC), false)...)
		c.RequireGate("C04.2-validate-before-mutate", fn, GErrNil(applyValid[n]+"()==nil", CalleeIs(vm)), sinks, "ACL state mutation")
	}
	c.Min("C04.2-validate-before-mutate", 14)
	// applyPermissionChanges delegates to applyPermissionChange and propagates its error
	{
		fn := p.Func(aclList + ":(*AclState).applyPermissionChanges")
		requirePropagates(c, "C04.2-validate-before-mutate", fn, CalleeFn(p.Func(aclList+":(*AclState).applyPermissionChange")), "applyPermissionChange")
		// no direct state writes here
		n := 0
		for _, f := range sf {
			n += len(FieldWrites([]*ssa.Function{fn}, f))
		}
		c.Check(n == 0, "C04.2-validate-before-mutate", FuncName(fn)+"|no-direct-writes", p.Pos(fn.Pos()), "applyPermissionChanges mutates state only through applyPermissionChange")
	}
	// applyReadKeyChange: with validate==true the state writes are gated by ValidateReadKeyChange; the only
	// caller passing validate=false is applyAccountRemove (whose validator ends in validateReadKeyChange)
	{
		vm := p.Method(aclList + ":ContentValidator.ValidateReadKeyChange")
		var sinks []ssa.Instruction
		for _, f := range sf {
			for _, w := range FieldWrites([]*ssa.Function{applyRKC}, f) {
				sinks = append(sinks, w.Instr)
			}
		}
		validateParam := applyRKC.Params[len(applyRKC.Params)-1]
		if bt, isB := validateParam.Type().Underlying().(*types.Basic); !isB || bt.Kind() != types.Bool {
			// split form: the function always validates and hands the writes to an unvalidated entry
			// (new since the anchor snapshot) that only it and applyAccountRemove may call
			var holders []*ssa.Function
			for _, h := range regionFuncs(applyRKC)[1:] {
				n := 0
				for _, f := range sf {
					n += len(FieldWrites([]*ssa.Function{h}, f))
				}
				if n > 0 && h.Parent() == nil {
					holders = append(holders, h)
				}
			}
			sinks = append(sinks, CallSinks(applyRKC, CalleeFn(holders...), false)...)
			c.RequireGate("C04.2-validate-before-mutate", applyRKC, GErrNil("ValidateReadKeyChange()==nil", CalleeIs(vm)), sinks, "ACL state mutation")
			for _, cs := range Callers(prodFuncs(p), CalleeFn(holders...)) {
				top := TopFunc(cs.Fn)
				ok := top == applyRKC || top.Name() == "applyAccountRemove"
				c.Check(ok, "C04.2-validate-before-mutate", FuncName(cs.Fn)+"|applyReadKeyChange(validate)", p.Pos(InstrPos(cs.Instr)), "the unvalidated read-key-change entry is called only by applyReadKeyChange (after validation) and by applyAccountRemove, whose validator already ends in validateReadKeyChange")
			}
			validateParam = nil
		}
		skip := GCmp("validate parameter == false", func(a Atom) (bool, bool) {
			if a.Op != token.ILLEGAL || a.X != ssa.Value(validateParam) {
				return false, false
			}
			return true, false
		})
		if validateParam != nil {
			c.RequireAnyGate("C04.2-validate-before-mutate", applyRKC, []Gate{GErrNil("ValidateReadKeyChange()==nil", CalleeIs(vm)), skip}, nil, sinks, "ACL state mutation", nil, false)
		}
		for _, cs := range Callers(prodFuncs(p), CalleeFn(applyRKC)) {
			if validateParam == nil {
				break
			}
			args := cs.Instr.(ssa.CallInstruction).Common().Args
			b, isConst := BoolConst(args[len(args)-1])
			ok := isConst && (b || TopFunc(cs.Fn).Name() == "applyAccountRemove")
			c.Check(ok, "C04.2-validate-before-mutate", FuncName(cs.Fn)+"|applyReadKeyChange(validate)", p.Pos(InstrPos(cs.Instr)), "applyReadKeyChange is called with validate=true, except from applyAccountRemove whose validator already ends in validateReadKeyChange")
		}
	}

	// ---------------- C04.3 privilege gates
	st := func(n string) *types.Var { return p.Field(aclList + ":AclState." + n) }
	accPerm := p.Field(aclList + ":AccountState.Permissions")
	accStatus := p.Field(aclList + ":AccountState.Status")
	invType := p.Field(aclList + ":Invite.Type")
	reqType := p.Field(aclList + ":RequestRecord.Type")
	pf := func(msg, f string) *types.Var { return p.Field(aclProto + ":" + msg + "." + f) }
	verifyOK := boolCallGate("invite.Key.Verify(identity, signature)==true", "util/crypto", "Verify", 0, true, nil)
	type vrule struct {
		name string
		reqs func(fn *ssa.Function) []req
	}
	A := func(fn *ssa.Function, pred string, want bool) Gate { return e.permGate(fn, recvAuthor, pred, want) }
	S := func(fn *ssa.Function, pred string, want bool) Gate { return e.permGate(fn, recvState, pred, want) }
	R := func(fn *ssa.Function, pred string, want bool) Gate { return e.permGate(fn, recvRequested, pred, want) }
	equalsGate := func(fn *ssa.Function, withAuthor bool, want bool) Gate {
		label := "identities Equals"
		if withAuthor {
			label = "Equals(authorIdentity)"
		}
		return boolCallGate(fmt.Sprintf("%s==%v", label, want), "util/crypto", "Equals", 0, want, func(cc *ssa.CallCommon) bool {
			if !withAuthor {
				return true
			}
			ap := authorParam(fn)
			for _, a := range cc.Args {
				if originatesFromParam(a, ap) {
					return true
				}
			}
			if cc.IsInvoke() && originatesFromParam(cc.Value, ap) {
				return true
			}
			return false
		})
	}
	rules := []vrule{
		{"ValidateOwnershipChange", func(fn *ssa.Function) []req {
			return []req{one(A(fn, "IsOwner", true)), one(S(fn, "NoPermissions", false)),
				one(fieldConstGate(p, accStatus, aclList, "StatusActive", true)),
				one(S(fn, "IsOwner", false)), one(R(fn, "IsOwner", false)), one(R(fn, "NoPermissions", false))}
		}},
		{"ValidateSpaceOptionsChange", func(fn *ssa.Function) []req { return []req{one(A(fn, "IsOwner", true))} }},
		{"ValidatePermissionChange", func(fn *ssa.Function) []req {
			return []req{one(A(fn, "CanManageAccounts", true)), one(mapOkGate(st("accountStates"), true)),
				one(fieldConstGate(p, accPerm, aclList, "AclPermissionsGuest", false)),
				one(fieldConstGate(p, accPerm, aclList, "AclPermissionsOwner", false)),
				anyOf(S(fn, "IsAdmin", false), A(fn, "IsOwner", true)),
				one(fieldConstGate(p, pf("AclAccountPermissionChange", "Permissions"), aclProto, "AclUserPermissions_Owner", false)),
				anyOf(fieldConstGate(p, pf("AclAccountPermissionChange", "Permissions"), aclProto, "AclUserPermissions_Admin", false), A(fn, "IsOwner", true)),
				anyOf(fieldConstGate(p, pf("AclAccountPermissionChange", "Permissions"), aclProto, "AclUserPermissions_Guest", false), fieldConstGate(p, accPerm, aclList, "AclPermissionsReader", true)),
			}
		}},
		{"ValidateAccountsAdd", func(fn *ssa.Function) []req {
			return []req{one(A(fn, "CanManageAccounts", true)),
				inLoop(one(S(fn, "NoPermissions", true))), inLoop(one(R(fn, "IsOwner", false))), inLoop(one(R(fn, "NoPermissions", false))),
				inLoop(anyOf(R(fn, "IsAdmin", false), A(fn, "IsOwner", true)))}
		}},
		{"ValidateInvite", func(fn *ssa.Function) []req {
			notACJ := fieldConstGate(p, pf("AclAccountInvite", "InviteType"), aclProto, "AclInviteType_AnyoneCanJoin", false)
			return []req{one(A(fn, "CanManageAccounts", true)),
				anyOf(notACJ, R(fn, "IsOwner", false)), anyOf(notACJ, R(fn, "NoPermissions", false)), anyOf(notACJ, R(fn, "IsGuest", false)),
				anyOf(notACJ, R(fn, "IsAdmin", false), A(fn, "IsOwner", true))}
		}},
		{"ValidateInviteChange", func(fn *ssa.Function) []req {
			return []req{one(A(fn, "CanManageAccounts", true)), one(mapOkGate(st("invites"), true)),
				one(fieldConstGate(p, invType, aclProto, "AclInviteType_AnyoneCanJoin", true)),
				one(R(fn, "IsOwner", false)), one(R(fn, "NoPermissions", false)), one(R(fn, "IsGuest", false)),
				anyOf(R(fn, "IsAdmin", false), A(fn, "IsOwner", true))}
		}},
		{"ValidateInviteRevoke", func(fn *ssa.Function) []req {
			return []req{one(A(fn, "CanManageAccounts", true)), one(mapOkGate(st("invites"), true))}
		}},
		{"ValidateRequestDecline", func(fn *ssa.Function) []req {
			return []req{one(A(fn, "CanManageAccounts", true)), one(mapOkGate(st("requestRecords"), true)),
				one(fieldConstGate(p, reqType, aclList, "RequestTypeJoin", true))}
		}},
		{"ValidateReadKeyChange", func(fn *ssa.Function) []req { return []req{one(A(fn, "CanManageAccounts", true))} }},
		{"ValidateRequestAccept", func(fn *ssa.Function) []req {
			return []req{one(A(fn, "CanManageAccounts", true)), one(mapOkGate(st("requestRecords"), true)),
				// sibling agreement with ValidateRequestDecline: only join requests can be accepted
				one(fieldConstGate(p, reqType, aclList, "RequestTypeJoin", true)),
				one(equalsGate(fn, false, true)),
				one(fieldConstGate(p, pf("AclAccountRequestAccept", "Permissions"), aclProto, "AclUserPermissions_Owner", false)),
				anyOf(fieldConstGate(p, pf("AclAccountRequestAccept", "Permissions"), aclProto, "AclUserPermissions_Admin", false), A(fn, "IsOwner", true))}
		}},
		{"ValidateAccountRemove", func(fn *ssa.Function) []req {
			return []req{one(A(fn, "CanManageAccounts", true)),
				inLoop(one(equalsGate(fn, true, false))), inLoop(one(S(fn, "NoPermissions", false))), inLoop(one(S(fn, "IsOwner", false))),
				inLoop(anyOf(S(fn, "IsAdmin", false), A(fn, "IsOwner", true)))}
		}},
		{"ValidateRequestJoin", func(fn *ssa.Function) []req {
			return []req{one(mapOkGate(st("invites"), true)), one(A(fn, "NoPermissions", true)),
				one(fieldConstGate(p, invType, aclProto, "AclInviteType_RequestToJoin", true)),
				one(mapOkGate(st("pendingRequests"), false)), one(equalsGate(fn, true, true)), one(verifyOK)}
		}},
		{"ValidateInviteJoin", func(fn *ssa.Function) []req {
			return []req{one(A(fn, "NoPermissions", true)), one(mapOkGate(st("invites"), true)),
				one(fieldConstGate(p, invType, aclProto, "AclInviteType_AnyoneCanJoin", true)),
				one(boolCallGate("joinPermissions.IsLessOrEqual(invite.Permissions)==true", "acl/list", "IsLessOrEqual", 0, true, nil)),
				one(equalsGate(fn, true, true)), one(verifyOK)}
		}},
		{"ValidateRequestCancel", func(fn *ssa.Function) []req {
			return []req{one(mapOkGate(st("requestRecords"), true)), one(equalsGate(fn, true, true))}
		}},
		{"ValidateRequestRemove", func(fn *ssa.Function) []req {
			return []req{one(A(fn, "NoPermissions", false)), one(A(fn, "IsOwner", false)), one(mapOkGate(st("pendingRequests"), false))}
		}},
	}
	nGates := 0
	for _, vr := range rules {
		fn := p.Func(aclList + ":(*contentValidator)." + vr.name)
		sv := GBool("ShouldValidate()==true", CalleeIs(e.shouldValidate), 0, true)
		base := sv.FailEdges(fn)
		if len(base) == 0 {
			c.Violate("C04.3-privilege-gates", FuncName(fn)+"|ShouldValidate-branch", p.Pos(fn.Pos()), "validator no longer branches on verifier.ShouldValidate(); the rule's model of the non-validating shortcut is out of date")
			continue
		}
		sinks := SuccessReturns(fn)
		for _, r := range vr.reqs(fn) {
			nGates++
			c.RequireAnyGate("C04.3-privilege-gates", fn, r.any, r.min, sinks, "nil return (record accepted)", base, r.loopAware)
		}
	}
	c.Min("C04.3-privilege-gates", 60)
	// validators that end in validateReadKeyChange
	vrk := p.Func(aclList + ":(*contentValidator).validateReadKeyChange")
	for _, n := range []string{"ValidateAccountRemove", "ValidateReadKeyChange"} {
		fn := p.Func(aclList + ":(*contentValidator)." + n)
		sv := GBool("ShouldValidate()==true", CalleeIs(e.shouldValidate), 0, true)
		r := Reach(fn, ReachOpts{Removed: sv.FailEdges(fn), Cut: CutAtCall(CalleeFn(vrk))})
		bad := ""
		for _, ret := range SuccessReturns(fn) {
			if r.Reachable(ret) {
				bad = "a nil return at " + p.Pos(InstrPos(ret)) + " is reachable without validateReadKeyChange"
			}
		}
		c.Check(bad == "", "C04.3-privilege-gates", FuncName(fn)+"|ends-in-validateReadKeyChange", p.Pos(fn.Pos()), orDefault(bad, "every accepted record passed validateReadKeyChange and returns its verdict"))
	}
	// ValidatePermissionChanges / ValidateAclRecordContents propagate per-element verdicts
	requirePropagates(c, "C04.3-privilege-gates", p.Func(aclList+":(*contentValidator).ValidatePermissionChanges"), CalleeNamed("acl/list", "contentValidator", "ValidatePermissionChange"), "ValidatePermissionChange")
	requirePropagates(c, "C04.3-privilege-gates", p.Func(aclList+":(*contentValidator).ValidateAclRecordContents"), CalleeNamed("acl/list", "contentValidator", "validateAclRecordContent"), "validateAclRecordContent")

	// ---------------- C04.4 predicate tables
	{
		enum := map[string]string{}
		for _, n := range []string{"None", "Owner", "Admin", "Writer", "Reader", "Guest"} {
			enum[constVal(p, aclProto, "AclUserPermissions_"+n)] = n
		}
		table := map[string][]string{
			"NoPermissions": {"None"}, "IsOwner": {"Owner"}, "IsGuest": {"Guest"}, "IsAdmin": {"Admin"},
			"CanWrite": {"Admin", "Owner", "Writer"}, "CanManageAccounts": {"Admin", "Owner"},
			"CanRequestRemove": {"Admin", "None", "Owner", "Reader", "Writer"},
		}
		var preds []string
		for n := range table {
			preds = append(preds, n)
		}
		sort.Strings(preds)
		for _, n := range preds {
			fn := p.Func(aclList + ":AclPermissions." + n)
			c.Fn(FuncName(fn))
			got, ok := trueSet(fn, enum)
			want := append([]string{}, table[n]...)
			sort.Strings(want)
			c.Check(ok && strings.Join(got, ",") == strings.Join(want, ","), "C04.4-predicate-table", FuncName(fn), p.Pos(fn.Pos()),
				fmt.Sprintf("returns true exactly for {%s} (frozen table {%s})", strings.Join(got, ","), strings.Join(want, ",")))
		}
	}

	// ---------------- C04.5 full validation on consensus / preflight paths
	{
		vf := p.Func("commonspace/object/acl/recordverifier:(*ValidateFull).ShouldValidate")
		ok := true
		Instrs(vf, func(in ssa.Instruction) {
			if r, isR := in.(*ssa.Return); isR {
				if b, isC := BoolConst(r.Results[0]); !isC || !b {
					ok = false
				}
			}
		})
		c.Check(ok, "C04.5-full-validation", FuncName(vf), p.Pos(vf.Pos()), "ValidateFull.ShouldValidate returns the constant true")
		newVF := p.PkgFunc("commonspace/object/acl/recordverifier:NewValidateFull")
		applyRecord := p.Func(aclList + ":(*AclState).ApplyRecord")
		for _, spec := range []string{aclList + ":(*aclList).ValidateRawRecord", aclList + ":(*aclRecordBuilder).preflightCheck"} {
			fn := p.FuncOpt(spec)
			if fn == nil && strings.HasSuffix(spec, "preflightCheck") {
				// inlined into its caller: the builder method that now applies the record itself
				for _, cand := range p.FuncsOfPkg(aclList) {
					if cand.Parent() == nil && recvNamed(cand) == "aclRecordBuilder" && len(CallSinks(cand, CalleeFn(applyRecord), false)) > 0 {
						if fn != nil {
							fn = nil // ambiguous
							break
						}
						fn = cand
					}
				}
			}
			if fn == nil {
				c.Violate("C04.5-full-validation", spec, "-", "anchor function missing")
				continue
			}
			ar := CallSinks(fn, CalleeFn(applyRecord), false)
			by, _ := MustPass(fn, nil, CutAtCall(CalleeIs(newVF)), ar, nil)
			c.Check(len(ar) > 0 && len(by) == 0, "C04.5-full-validation", FuncName(fn)+"|ApplyRecord-after-NewValidateFull", p.Pos(fn.Pos()), "every ApplyRecord on the validation copy is preceded by installing recordverifier.NewValidateFull()")
		}
	}
	runC04RequestIndex(c)
}

// runC04RequestIndex — C04.6: pendingRequests (identity → request id) and
// requestRecords (request id → request) index one set of open requests; the
// validators find a request through either (ValidateRequestAccept/Decline by
// record id, ValidateRequestJoin/Remove/Cancel by identity). A function that
// inserts into / deletes from one of them on the state it was called on must
// do the same to the other on every success path, or a request that was
// superseded stays acceptable through the other index.
func runC04RequestIndex(c *Ctx) {
	p := c.P
	rule := "C04.6-request-index-pairing"
	fPend := p.Field(aclList + ":AclState.pendingRequests")
	fRecs := p.Field(aclList + ":AclState.requestRecords")
	var fns []*ssa.Function
	for _, fn := range p.FuncsOfPkg(aclList) {
		if !isTestSupport(p, fn) && !strings.Contains(p.Pos(fn.Pos()), "listutils.go") {
			fns = append(fns, fn)
		}
	}
	onReceiver := func(w Write) bool {
		top := TopFunc(w.Fn)
		if len(top.Params) == 0 || top.Signature.Recv() == nil {
			return false
		}
		var m ssa.Value
		switch x := w.Instr.(type) {
		case *ssa.MapUpdate:
			m = x.Map
		case *ssa.Call:
			m = x.Call.Args[0]
		}
		if m == nil {
			return false
		}
		vals, _ := Origins(m)
		for _, o := range vals {
			if _, base := LoadedField(o); base != nil {
				bv, _ := Origins(base)
				for _, b := range bv {
					if b == ssa.Value(top.Params[0]) {
						return true
					}
				}
				if base == ssa.Value(top.Params[0]) {
					return true
				}
			}
		}
		return false
	}
	type key struct {
		fn   *ssa.Function
		kind string
	}
	sites := map[key]map[*types.Var][]ssa.Instruction{}
	for _, f := range []*types.Var{fPend, fRecs} {
		for _, w := range FieldWrites(fns, f) {
			if (w.Kind != "mapupdate" && w.Kind != "mapdelete") || !onReceiver(w) {
				continue
			}
			k := key{w.Fn, w.Kind}
			if sites[k] == nil {
				sites[k] = map[*types.Var][]ssa.Instruction{}
			}
			sites[k][f] = append(sites[k][f], w.Instr)
		}
	}
	var keys []key
	for k := range sites {
		keys = append(keys, k)
	}
	sort.Slice(keys, func(i, j int) bool {
		if FuncName(keys[i].fn) != FuncName(keys[j].fn) {
			return FuncName(keys[i].fn) < FuncName(keys[j].fn)
		}
		return keys[i].kind < keys[j].kind
	})
	n := 0
	for _, k := range keys {
		c.Fn(FuncName(k.fn))
		for _, pair := range [][2]*types.Var{{fPend, fRecs}, {fRecs, fPend}} {
			a, b := pair[0], pair[1]
			for i, m1 := range sites[k][a] {
				n++
				construct := fmt.Sprintf("%s|%s of %s #%d is matched in %s", FuncName(k.fn), k.kind, a.Name(), i+1, b.Name())
				others := sites[k][b]
				isOther := func(in ssa.Instruction) bool {
					for _, o := range others {
						if o == in {
							return true
						}
					}
					return false
				}
				ok := false
				for _, o := range others {
					if o.Block() == m1.Block() {
						ok = true
					}
				}
				if !ok && len(others) > 0 {
					// the partner precedes on every path, or follows on every success path
					byBefore, _ := MustPass(k.fn, nil, isOther, []ssa.Instruction{m1}, nil)
					byAfter, _ := MustPass(k.fn, m1, isOther, SuccessReturns(k.fn), nil)
					ok = len(byBefore) == 0 || len(byAfter) == 0
				}
				det := "both indexes of the open-request set change together"
				if !ok {
					det = fmt.Sprintf("%s is changed (%s) without the same change to %s on some success path: a request stays reachable through %s after it was resolved or superseded", a.Name(), k.kind, b.Name(), b.Name())
				}
				c.Check(ok, rule, construct, p.Pos(InstrPos(m1)), det)
			}
		}
	}
	c.Min(rule, 12)
}

// requirePropagates: from the failing edge of a call matching m, neither a
// success return nor another call of m is reachable.
func requirePropagates(c *Ctx, rule string, fn *ssa.Function, m CallMatcher, what string) {
	c.Fn(FuncName(fn))
	if len(CallSinks(fn, m, false)) == 0 {
		// the call was moved into a function new since the anchor snapshot: its error must end
		// that helper, and the helper's error must end fn
		if h, via := descendTo(fn, m); h != fn && via != nil && via.Parent() == fn && ErrIndex(h) >= 0 {
			requirePropagates(c, rule, h, m, what)
			requirePropagates(c, rule, fn, func(cc *ssa.CallCommon) bool { return cc == &via.Call }, what+" (inside "+h.Name()+")")
			return
		}
	}
	g := GErrNil(what+"()==nil", m)
	fail := g.FailEdges(fn)
	construct := FuncName(fn) + "|propagates " + what + " error"
	if len(fail) == 0 {
		// `return f(...)`: the verdict itself is returned
		calls := CallSinks(fn, m, false)
		verdict := len(calls) > 0
		for _, cs := range calls {
			v, ok := cs.(ssa.Value)
			if !ok || v.Referrers() == nil {
				verdict = false
				continue
			}
			for _, r := range *v.Referrers() {
				if _, isRet := r.(*ssa.Return); !isRet {
					if _, isDbg := r.(*ssa.DebugRef); !isDbg {
						verdict = false
					}
				}
			}
		}
		if verdict {
			c.Hold(rule, construct, c.P.Pos(fn.Pos()), "the result of "+what+" is returned as the function's own verdict")
			return
		}
		c.Violate(rule, construct, c.P.Pos(fn.Pos()), "the error of "+what+" is not tested")
		return
	}
	var starts []*ssa.BasicBlock
	for e := range fail {
		starts = append(starts, e.From.Succs[e.Succ])
	}
	r := Reach(fn, ReachOpts{Starts: starts})
	bad := ""
	for _, ret := range SuccessReturns(fn) {
		if r.Reachable(ret) {
			bad = "after a failed " + what + " a nil return is reachable at " + c.P.Pos(InstrPos(ret))
		}
	}
	for _, cs := range CallSinks(fn, m, false) {
		if r.Reachable(cs) {
			bad = "after a failed " + what + " processing continues with the next element"
		}
	}
	c.Check(bad == "", rule, construct, c.P.Pos(fn.Pos()), orDefault(bad, "a failing "+what+" ends the function with its error"))
}

// trueSet extracts, for a small pure predicate over the permission enum, the
// constants for which it returns true: by following comparisons of the
// receiver with constants on the SSA. Returns ok=false when the shape is not
// recognised.
func trueSet(fn *ssa.Function, enum map[string]string) ([]string, bool) {
	if len(fn.Params) != 1 {
		return nil, false
	}
	recv := fn.Params[0]
	isRecv := func(v ssa.Value) bool {
		for {
			switch x := v.(type) {
			case *ssa.ChangeType:
				v = x.X
				continue
			case *ssa.Convert:
				v = x.X
				continue
			}
			break
		}
		return v == ssa.Value(recv)
	}
	var out []string
	for val, name := range enum {
		// abstract interpretation with the receiver fixed to val
		b := fn.Blocks[0]
		steps := 0
		var result *bool
		for steps < 200 {
			steps++
			last := b.Instrs[len(b.Instrs)-1]
			switch t := last.(type) {
			case *ssa.Return:
				r, ok := evalBool(t.Results[0], isRecv, val, b, nil)
				if !ok {
					return nil, false
				}
				result = &r
			case *ssa.If:
				r, ok := evalBool(t.Cond, isRecv, val, b, nil)
				if !ok {
					return nil, false
				}
				prev := b
				if r {
					b = b.Succs[0]
				} else {
					b = b.Succs[1]
				}
				_ = prev
				continue
			case *ssa.Jump:
				b = b.Succs[0]
				continue
			default:
				return nil, false
			}
			break
		}
		if result == nil {
			return nil, false
		}
		if *result {
			out = append(out, name)
		}
	}
	sort.Strings(out)
	return out, true
}

func evalBool(v ssa.Value, isRecv func(ssa.Value) bool, val string, at *ssa.BasicBlock, from *ssa.BasicBlock) (bool, bool) {
	switch x := v.(type) {
	case *ssa.Const:
		return BoolConst(x)
	case *ssa.UnOp:
		if x.Op == token.NOT {
			r, ok := evalBool(x.X, isRecv, val, at, from)
			return !r, ok
		}
	case *ssa.BinOp:
		if x.Op == token.EQL || x.Op == token.NEQ {
			var k *ssa.Const
			if isRecv(x.X) {
				k, _ = x.Y.(*ssa.Const)
			} else if isRecv(x.Y) {
				k, _ = x.X.(*ssa.Const)
			}
			if k == nil || k.Value == nil {
				return false, false
			}
			eq := k.Value.ExactString() == val
			if x.Op == token.NEQ {
				eq = !eq
			}
			return eq, true
		}
	}
	return false, false
}
