package rules

import (
	"fmt"
	"go/types"

	"golang.org/x/tools/go/ssa"

	. "verif/checker/core"
)

// requireFollowedBy: from every event instruction, every exit of fn (returns;
// with onlySuccess only non-error returns) is reachable only through a call
// matching must (a deferred call registered on the way also counts).
func requireFollowedBy(c *Ctx, rule string, fn *ssa.Function, events []ssa.Instruction, evDesc string, must CallMatcher, mustDesc string, onlySuccess bool) {
	c.Fn(FuncName(fn))
	construct := FuncName(fn) + "|" + evDesc + "→" + mustDesc
	if len(events) == 0 {
		c.Violate(rule, construct, c.P.Pos(fn.Pos()), "no '"+evDesc+"' event found in function (rule table out of date)")
		return
	}
	// a defer of `must` that dominates the event satisfies the rule
	exits := Returns(fn)
	if onlySuccess {
		exits = SuccessReturns(fn)
	}
	cut := CutAtCall(must)
	for _, ev := range events {
		if deferredBefore(fn, ev, must) {
			continue
		}
		// the event sits in a block that was extracted into a new helper: the pairing is
		// decided inside the helper (its exits return to this function)
		if h, inner, isExp := ExpandSink(ev); isExp {
			okInside := true
			for _, iv := range inner {
				if deferredBefore(h, iv, must) {
					continue
				}
				ri := Reach(h, ReachOpts{From: iv, Cut: cut})
				hx := Returns(h)
				if onlySuccess {
					hx = SuccessReturns(h)
				}
				for _, x := range hx {
					if ri.Reachable(x) {
						okInside = false
					}
				}
			}
			if okInside {
				continue
			}
		}
		r := Reach(fn, ReachOpts{From: ev, Cut: cut})
		for _, x := range exits {
			if r.Reachable(x) {
				c.Violate(rule, construct, c.P.Pos(InstrPos(ev)), fmt.Sprintf("after %s at %s an exit at %s is reachable without %s (witness %s)", evDesc, c.P.Pos(InstrPos(ev)), c.P.Pos(InstrPos(x)), mustDesc, r.Path(c.P, x)))
				return
			}
		}
	}
	c.Hold(rule, construct, c.P.Pos(fn.Pos()), fmt.Sprintf("every exit after each of the %d '%s' event(s) passes %s", len(events), evDesc, mustDesc))
}

// deferredBefore: a defer of a call matching m (or of a closure containing
// one) dominates instruction at.
func deferredBefore(fn *ssa.Function, at ssa.Instruction, m CallMatcher) bool {
	cut := CutAtCall(m)
	found := false
	Instrs(fn, func(in ssa.Instruction) {
		if d, ok := in.(*ssa.Defer); ok && cut(d) {
			if d.Block() == at.Block() {
				for _, x := range d.Block().Instrs {
					if x == d {
						found = true
						break
					}
					if x == at {
						break
					}
				}
			} else if d.Block().Dominates(at.Block()) {
				found = true
			}
		}
	})
	return found
}

// whoMayCall: every call site (call/go/defer, and uses as a value) of the
// functions matched by m inside fns lies in one of the allowed functions.
func whoMayCall(c *Ctx, rule string, fns []*ssa.Function, m CallMatcher, what string, allowed map[*ssa.Function]string) int {
	n := 0
	for _, cs := range Callers(fns, m) {
		top := TopFunc(cs.Fn)
		_, ok := allowed[top]
		if !ok {
			_, ok = allowed[cs.Fn]
		}
		if !ok {
			// a block extracted out of an allowed function into a new helper keeps its licence
			if own := effectiveOwner(c.P, cs.Fn); own != top {
				if _, ok = allowed[own]; ok {
					top = own
				}
			}
		}
		det := what + " called from " + FuncName(cs.Fn)
		if ok {
			det += " (allowed: " + orDefault(allowed[top], allowed[cs.Fn]) + ")"
		} else {
			det += ", which is not in the allowed caller set"
		}
		c.Check(ok, rule, what+"|"+FuncName(cs.Fn), c.P.Pos(InstrPos(cs.Instr)), det)
		n++
	}
	return n
}

// resolveProducer: when v is (only) the result of a static call of a repository
// helper, the helper and the value it returns at that result index (followed
// twice at most); otherwise fn and v unchanged. Used by rules that inspect how
// a list is built when the building loop was extracted into a helper.
func resolveProducer(fn *ssa.Function, v ssa.Value) (*ssa.Function, ssa.Value) {
	for depth := 0; depth < 2; depth++ {
		vals, unk := OriginsNoExpand(v)
		if unk || len(vals) != 1 {
			break
		}
		call, idx, isCall := CallResult(vals[0])
		if !isCall {
			break
		}
		h := CalleeFunc(&call.Call)
		if h == nil || h.Blocks == nil || !IsRepoFunc(h) {
			break
		}
		var rv ssa.Value
		ambiguous := false
		for _, ri := range Returns(h) {
			ret := ri.(*ssa.Return)
			if ret.Block() == h.Recover || idx >= len(ret.Results) {
				continue
			}
			x := ret.Results[idx]
			if IsNilConst(x) {
				continue
			}
			if rv != nil && rv != x {
				ambiguous = true
			}
			rv = x
		}
		if rv == nil || ambiguous {
			break
		}
		fn, v = h, rv
	}
	return fn, v
}

// flattenSinks replaces calls of new helpers that stand for sinks inside them
// (see CallSinks) by those inner sinks.
func flattenSinks(ins []ssa.Instruction) []ssa.Instruction {
	var out []ssa.Instruction
	for _, in := range ins {
		if _, inner, ok := ExpandSink(in); ok {
			out = append(out, flattenSinks(inner)...)
		} else {
			out = append(out, in)
		}
	}
	return out
}

// regionFuncs: fn, its closures, and the functions new since the anchor
// snapshot that any of them call (with their closures), two levels deep — the
// code that belonged to fn's body when the rule tables were written.
func regionFuncs(fn *ssa.Function) []*ssa.Function {
	var out []*ssa.Function
	seen := map[*ssa.Function]bool{}
	var add func(f *ssa.Function, depth int)
	add = func(f *ssa.Function, depth int) {
		if f == nil || seen[f] {
			return
		}
		seen[f] = true
		out = append(out, f)
		for _, a := range f.AnonFuncs {
			add(a, depth)
		}
		if depth >= 2 {
			return
		}
		for _, ci := range CallsIn(f) {
			if h := CalleeFunc(ci.Common()); h != nil && h.Blocks != nil && IsRepoFunc(h) && IsNewFunc(h) {
				add(h, depth+1)
			}
		}
		// new functions handed over as values: a closure replaced by a method value of a
		// small struct (`collector.add`), or a package-level function used as callback
		Instrs(f, func(in ssa.Instruction) {
			for _, op := range in.Operands(nil) {
				if op == nil || *op == nil {
					continue
				}
				var h *ssa.Function
				switch x := (*op).(type) {
				case *ssa.MakeClosure:
					h, _ = x.Fn.(*ssa.Function)
				case *ssa.Function:
					h = x
				}
				if h == nil || h.Blocks == nil {
					continue
				}
				if h.Synthetic != "" {
					// bound-method wrapper: the method it forwards to
					for _, ci := range CallsIn(h) {
						if t := CalleeFunc(ci.Common()); t != nil && t.Blocks != nil && IsRepoFunc(t) && IsNewFunc(t) {
							add(t, depth+1)
						}
					}
					continue
				}
				if h.Parent() == nil && IsRepoFunc(h) && IsNewFunc(h) {
					add(h, depth+1)
				}
			}
		})
	}
	add(fn, 0)
	return out
}

// optFuncs resolves the specs that still exist (helpers that may have been
// inlined into their callers); the rule using them must not depend on any one.
func optFuncs(p *Prog, specs ...string) []*ssa.Function {
	var out []*ssa.Function
	for _, s := range specs {
		if fn := p.FuncOpt(s); fn != nil {
			out = append(out, fn)
		}
	}
	return out
}

// allowedVia: fn's top-level function is allowed, or it is new since the anchor
// snapshot and every function calling it is (recursively, three levels) — code
// moved out of allowed functions into a shared helper stays allowed.
func allowedVia(p *Prog, fn *ssa.Function, allowed func(*ssa.Function) bool) bool {
	return allowedViaRec(p, TopFunc(fn), allowed, 0)
}

func allowedViaRec(p *Prog, top *ssa.Function, allowed func(*ssa.Function) bool, depth int) bool {
	if allowed(top) {
		return true
	}
	if depth >= 3 || !IsNewFunc(top) || top.Pkg == nil {
		return false
	}
	n := 0
	for f := range p.AllFuncs {
		if TopFunc(f).Pkg != top.Pkg {
			continue
		}
		for _, ci := range CallsIn(f) {
			if CalleeFunc(ci.Common()) != top {
				continue
			}
			caller := TopFunc(f)
			if caller == top {
				continue
			}
			n++
			if !allowedViaRec(p, caller, allowed, depth+1) {
				return false
			}
		}
	}
	return n > 0
}

// newHelperReturns: when v is a result of a call of a function new since the
// anchor snapshot, what that function returns in that position (the producing
// code was extracted); nil otherwise.
func newHelperReturns(v ssa.Value) []ssa.Value {
	call, idx, ok := CallResult(v)
	if !ok {
		return nil
	}
	if _, isTuple := v.Type().(*types.Tuple); isTuple {
		return nil // the (a, b, …) tuple itself: each Extract is resolved on its own
	}
	h := CalleeFunc(&call.Call)
	if h == nil || h.Blocks == nil || !IsRepoFunc(h) || !IsNewFunc(h) {
		return nil
	}
	var out []ssa.Value
	for _, ri := range Returns(h) {
		ret := ri.(*ssa.Return)
		if ret.Block() == h.Recover || idx >= len(ret.Results) {
			continue
		}
		out = append(out, ret.Results[idx])
	}
	return out
}

// descendToWrites: the function whose own body writes the field — fn, or the
// single function new since the anchor snapshot in fn's region that does.
func descendToWrites(fn *ssa.Function, field *types.Var) *ssa.Function {
	if len(FieldWrites([]*ssa.Function{fn}, field)) > 0 {
		return fn
	}
	var found *ssa.Function
	for _, h := range regionFuncs(fn)[1:] {
		if h.Parent() == nil && len(FieldWrites([]*ssa.Function{h}, field)) > 0 {
			if found != nil && found != h {
				return fn
			}
			found = h
		}
	}
	if found != nil {
		return found
	}
	return fn
}

// descendTo: the function whose own body holds the calls matching m — fn, or
// (when the block was moved out) the single function new since the anchor
// snapshot that fn calls and that contains them; followed two levels. The
// second result is the call that leads there (nil when fn itself).
func descendTo(fn *ssa.Function, m CallMatcher) (*ssa.Function, *ssa.Call) {
	var via *ssa.Call
	for depth := 0; depth < 2; depth++ {
		if len(CallSinks(fn, m, true)) > 0 {
			return fn, via
		}
		var next *ssa.Function
		var site *ssa.Call
		n := 0
		for _, ci := range CallsIn(fn) {
			h := CalleeFunc(ci.Common())
			if h == nil || h == fn || h.Blocks == nil || !IsRepoFunc(h) || !IsNewFunc(h) || !ContainsCall(h, m) {
				continue
			}
			if h != next {
				n++
			}
			next = h
			site, _ = ci.(*ssa.Call)
		}
		if n != 1 {
			return fn, via
		}
		fn, via = next, site
	}
	return fn, via
}

// effectiveOwner: for a function that is new since the anchor snapshot and is
// called (statically) from exactly one other top-level function of its
// package, the function it was extracted from (followed up to three levels);
// otherwise the function's own top-level function.
func effectiveOwner(p *Prog, fn *ssa.Function) *ssa.Function {
	top := TopFunc(fn)
	for depth := 0; depth < 3; depth++ {
		if !IsNewFunc(top) || top.Pkg == nil {
			return top
		}
		var owner *ssa.Function
		n := 0
		for f := range p.AllFuncs {
			if f.Pkg != top.Pkg && (f.Parent() == nil || TopFunc(f).Pkg != top.Pkg) {
				continue
			}
			for _, ci := range CallsIn(f) {
				if CalleeFunc(ci.Common()) == top {
					if t := TopFunc(f); t != owner && t != top {
						owner = t
						n++
					}
				}
			}
		}
		if n != 1 || owner == nil {
			return top
		}
		top = owner
	}
	return top
}

// nonTestRepoFuncs: repo functions outside generated mocks / testutil packages.
func prodFuncs(p *Prog) []*ssa.Function {
	var out []*ssa.Function
	for _, fn := range p.RepoFuncs() {
		if isTestSupport(p, fn) {
			continue
		}
		out = append(out, fn)
	}
	return out
}

func isTestSupport(p *Prog, fn *ssa.Function) bool {
	top := TopFunc(fn)
	if top.Pkg == nil {
		return false
	}
	path := top.Pkg.Pkg.Path()
	for _, s := range []string{"/mock_", "/testutil", "testutils", "/mock"} {
		if containsStr(path, s) {
			return true
		}
	}
	return false
}

func containsStr(s, sub string) bool {
	return len(sub) <= len(s) && (func() bool {
		for i := 0; i+len(sub) <= len(s); i++ {
			if s[i:i+len(sub)] == sub {
				return true
			}
		}
		return false
	})()
}

// calleeMethod matches calls of a method (interface or concrete) by name,
// declared in a package whose path ends with pkgSuffix, whatever the receiver
// (covers methods promoted from embedded interfaces).
func calleeMethod(pkgSuffix, name string) CallMatcher {
	return func(c *ssa.CallCommon) bool {
		o := CalleeObj(c)
		if o == nil || o.Name() != name || o.Pkg() == nil {
			return false
		}
		if !containsStr(o.Pkg().Path(), pkgSuffix) {
			return false
		}
		return o.Type().(*types.Signature).Recv() != nil
	}
}

// knownFalseAt: boolean value v is known false in block b (b is dominated by
// the false successor of an If on v).
func knownFalseAt(v ssa.Value, b *ssa.BasicBlock) bool {
	refs := v.Referrers()
	if refs == nil {
		return false
	}
	check := func(iff *ssa.If) bool {
		a := AtomOf(iff)
		if a.Op != 0 || a.X != v {
			return false
		}
		s := 1 - a.TrueSucc()
		succ := iff.Block().Succs[s]
		if !succ.Dominates(b) {
			return false
		}
		for _, pr := range succ.Preds {
			if pr != iff.Block() && !succ.Dominates(pr) {
				return false
			}
		}
		return true
	}
	for _, r := range *refs {
		switch x := r.(type) {
		case *ssa.If:
			if check(x) {
				return true
			}
		case *ssa.UnOp:
			for _, r2 := range *x.Referrers() {
				if iff, ok := r2.(*ssa.If); ok && check(iff) {
					return true
				}
			}
		}
	}
	return false
}

// fset builds a function set.
func fset(fns ...*ssa.Function) map[*ssa.Function]bool {
	m := map[*ssa.Function]bool{}
	for _, f := range fns {
		m[f] = true
	}
	return m
}

// valueIsResultOf: every origin of v is a result of a call matching m.
func valueIsResultOf(v ssa.Value, m CallMatcher) bool {
	vals, unknown := Origins(v)
	if unknown || len(vals) == 0 {
		return false
	}
	for _, o := range vals {
		call, _, ok := CallResult(o)
		if !ok || !m(&call.Call) {
			return false
		}
	}
	return true
}

// fieldLoadMatcher returns a value predicate: every origin of v is a load of
// the given field.
func fieldLoad(field *types.Var) func(ssa.Value) bool {
	return func(v ssa.Value) bool { return IsLoadOfField(v, field) }
}

// successSinks: non-error returns as instruction list with a description.
func successSinks(fn *ssa.Function) []ssa.Instruction { return SuccessReturns(fn) }
