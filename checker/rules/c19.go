package rules

import (
	"fmt"
	"go/token"
	"go/types"
	"strings"

	"golang.org/x/tools/go/ssa"

	. "verif/checker/core"
)

const spPkg = "net/streampool"

func init() {
	register(&Pack{
		ID: "C19",
		Explanation: "Stream pool, decided on SSA: (1) callers never block — no blocking operation (channel op / select without default, mb.Add/Wait*, drpc stream I/O or Close, dial/OpenStream, WaitGroup/Cond wait, sleep) is reachable synchronously from Send, SendById, Broadcast, stream.write, ExecPool.TryAdd; `go` statements and closures handed to the dial queue are asynchronous cuts; " +
			"(2) no blocking and no foreign callback (closeHook, OpenStream, stream Close/MsgSend) while streamPool.mu may be held; the lock is released on every exit; the index maps are touched only under it; " +
			"(3) bounded buffers — the per-stream queue size given to mb.New is a positive constant or the parameter behind a `<= 0` guard; the dial queue and the sync receive queue get configured/constant sizes; " +
			"(4) FIFO per stream — drpc MsgSend on a pooled stream is called only in writeLoop, which is started exactly once on every successful AddStream/ReadStream; " +
			"(5) isolation and cleanup — in Broadcast a failed write to one stream cannot end the fan-out; readLoop always ends in streamClose, writeLoop's error exits too; after winning closed.Swap, streamClose reaches pool.removeStream on every path; removeStream deletes the stream from all three indexes; every tag append/removal on a stream is paired with the tag index in the same critical section.",
		NotDecided: "Drop-beyond-capacity arithmetic inside the mb library; delivery latency; fairness of the dial queue.",
		Run:        runC19,
	})
}

func runC19(c *Ctx) {
	p := c.P
	f := func(n string) *ssa.Function { return p.Func(spPkg + ":" + n) }
	send, sendById, broadcast, write := f("(*streamPool).Send"), f("(*streamPool).SendById"), f("(*streamPool).Broadcast"), f("(*stream).write")
	tryAdd := f("(*ExecPool).TryAdd")
	addStream, removeStream := f("(*streamPool).addStream"), f("(*streamPool).removeStream")
	readLoop, writeLoop, streamClose := f("(*stream).readLoop"), f("(*stream).writeLoop"), f("(*stream).streamClose")
	muF := p.Field(spPkg + ":streamPool.mu")
	mu := LockKey{Obj: muF}
	fns := p.FuncsOfPkg(spPkg)

	// ---- C19.1 callers never block
	follow := func(fn *ssa.Function) bool {
		top := TopFunc(fn)
		if top.Pkg == nil {
			return false
		}
		pp := top.Pkg.Pkg.Path()
		// stop at logging and at mb's non-blocking entry points (TryAdd is a mutex-protected append)
		return strings.HasPrefix(pp, ModPath) && !strings.Contains(pp, "/app/logger")
	}
	roots := []*ssa.Function{send, sendById, broadcast, write, tryAdd}
	sites, visited := MayBlock(roots, follow, nil)
	for _, v := range visited {
		c.Fn(FuncName(v))
	}
	if len(sites) == 0 {
		c.Hold("C19.1-callers-never-block", "Send/SendById/Broadcast/write/TryAdd", p.Pos(send.Pos()), fmt.Sprintf("no blocking operation in the synchronous closure (%d functions)", len(visited)))
	}
	for _, s := range sites {
		c.Violate("C19.1-callers-never-block", FuncName(s.Fn)+"|"+s.What, p.Pos(InstrPos(s.Instr)), s.What+" is reachable synchronously from a stream pool send entry point: a stuck peer blocks the caller")
	}
	// write enqueues with TryAdd only
	q := p.Field(spPkg + ":stream.queue")
	for _, fn := range fns {
		for _, cs := range CallsIn(fn) {
			o := CalleeObj(cs.Common())
			if o == nil || o.Pkg() == nil || !strings.HasSuffix(o.Pkg().Path(), "cheggaaa/mb/v3") || len(cs.Common().Args) == 0 {
				continue
			}
			if !IsLoadOfField(cs.Common().Args[0], q) {
				continue
			}
			ok := o.Name() == "TryAdd" || o.Name() == "Close" || o.Name() == "Len" || (o.Name() == "WaitOne" && effectiveOwner(p, fn) == writeLoop)
			c.Check(ok, "C19.1-queue-api", FuncName(fn)+"|stream.queue."+o.Name(), p.Pos(InstrPos(cs)), "the per-stream queue is fed with TryAdd (drop when full) and drained only by writeLoop")
		}
	}
	c.Min("C19.1-queue-api", 3)

	// ---- C19.2 lock discipline
	la := NewLockAnalysis()
	for _, fn := range fns {
		la.Analyze(fn)
	}
	for _, fn := range fns {
		uses := false
		for _, cs := range CallsIn(fn) {
			if o := CalleeObj(cs.Common()); o != nil && o.Pkg() != nil && o.Pkg().Path() == "sync" && o.Name() == "Lock" {
				if fa, ok := cs.Common().Args[0].(*ssa.FieldAddr); ok && FieldOf(fa) == muF {
					uses = true
				}
			}
		}
		if !uses {
			continue
		}
		s := la.Summary(fn)
		c.Check(!s.MayHold[mu], "C19.2-lock-released", FuncName(fn), p.Pos(fn.Pos()), "streamPool.mu is released on every return path")
	}
	c.Min("C19.2-lock-released", 8)
	hookF := p.Field(spPkg + ":streamPool.closeHook")
	for _, fn := range fns {
		Instrs(fn, func(in ssa.Instruction) {
			call, ok := in.(*ssa.Call)
			if !ok || !la.Reached(in) {
				return
			}
			what := ""
			if w, isB := blockingCallName(&call.Call); isB {
				what = w
			} else if IsLoadOfField(call.Call.Value, hookF) {
				what = "closeHook callback"
			}
			if what == "" {
				return
			}
			held := la.May(in)[mu]
			c.Check(!held, "C19.2-no-blocking-under-lock", FuncName(fn)+"|"+what, p.Pos(InstrPos(in)), what+" with may-held locks "+KeysString(la.May(in)))
		})
	}
	c.Min("C19.2-no-blocking-under-lock", 4)
	for _, fname := range []string{"streamIdsByPeer", "streamIdsByTag", "streams", "opening"} {
		fld := p.Field(spPkg + ":streamPool." + fname)
		chk := func(fn *ssa.Function, in ssa.Instruction, kind string) {
			top := TopFunc(fn)
			if top.Name() == "New" {
				return
			}
			ok := la.Must(in)[mu]
			// helper closures/funcs called only with the lock held
			if !ok && (top.Name() == "openStream") {
				// openStream is called by getStreams with the lock held (its goroutine re-locks)
				if fn == top {
					ok = true
				}
			}
			c.Check(ok, "C19.2-guarded-by", FuncName(fn)+"|"+fname+"|"+kind, p.Pos(InstrPos(in)), kind+" of "+fname+" with streamPool.mu held")
		}
		for _, w := range FieldWrites(fns, fld) {
			if w.Kind == "init" {
				continue
			}
			chk(w.Fn, w.Instr, w.Kind)
		}
		for _, r := range FieldReads(fns, fld) {
			chk(r.Parent(), r, "read")
		}
	}
	c.Min("C19.2-guarded-by", 20)
	// openStream's only caller holds the lock
	{
		os := f("(*streamPool).openStream")
		for _, cs := range Callers(fns, CalleeFn(os)) {
			c.Check(la.Must(cs.Instr)[mu], "C19.2-guarded-by", FuncName(cs.Fn)+"|calls openStream under lock", p.Pos(InstrPos(cs.Instr)), "openStream (which touches the opening map) is called with streamPool.mu held")
		}
	}

	// ---- C19.3 bounded buffers
	{
		mbNew := func(cc *ssa.CallCommon) bool {
			o := CalleeObj(cc)
			return o != nil && o.Pkg() != nil && strings.HasSuffix(o.Pkg().Path(), "cheggaaa/mb/v3") && o.Name() == "New"
		}
		for _, cs := range CallSinks(addStream, mbNew, false) {
			ok, det := positiveSize(addStream, cs.(*ssa.Call).Call.Args[0])
			c.Check(ok, "C19.3-bounded-buffers", FuncName(addStream)+"|mb.New(size)", p.Pos(InstrPos(cs)), det)
		}
		// dial queue: size from configuration field
		run := f("(*streamPool).Run")
		for _, cs := range CallSinks(run, CalleeFn(f("NewExecPool")), false) {
			a := cs.(*ssa.Call).Call.Args
			ok := IsLoadOfField(a[1], p.Field(spPkg+":StreamConfig.DialQueueSize"))
			c.Check(ok, "C19.3-bounded-buffers", FuncName(run)+"|NewExecPool(size=config)", p.Pos(InstrPos(cs)), "the dial queue is sized from StreamConfig.DialQueueSize")
		}
		// sync receive queue: constant
		syncInit := p.Func("commonspace/sync:(*syncService).Init")
		n := 0
		for _, cs := range CallsIn(syncInit) {
			fnc := CalleeFunc(cs.Common())
			if fnc == nil || fnc.Origin() == nil && !strings.Contains(fnc.String(), "multiqueue.New") {
				if fnc == nil || !strings.Contains(fnc.String(), "multiqueue.New") {
					continue
				}
			}
			if !strings.Contains(fnc.String(), "multiqueue.New") {
				continue
			}
			n++
			a := cs.Common().Args
			k, isK := IntConst(a[len(a)-1])
			c.Check(isK && k > 0, "C19.3-bounded-buffers", FuncName(syncInit)+"|multiqueue.New(maxThreadSize)", p.Pos(InstrPos(cs)), "the per-thread receive queue has a positive constant bound")
		}
		c.Min("C19.3-bounded-buffers", 3)
	}

	// ---- C19.4 FIFO per stream
	{
		msgSend := func(cc *ssa.CallCommon) bool {
			o := CalleeObj(cc)
			return o != nil && o.Pkg() != nil && o.Pkg().Path() == "storj.io/drpc" && o.Name() == "MsgSend"
		}
		whoMayCall(c, "C19.4-single-writer", fns, msgSend, "drpc.Stream.MsgSend", map[*ssa.Function]string{writeLoop: "the only writer of a pooled stream"})
		c.Min("C19.4-single-writer", 1)
		for _, name := range []string{"AddStream", "ReadStream"} {
			fn := f("(*streamPool)." + name)
			var gos []ssa.Instruction
			Instrs(fn, func(in ssa.Instruction) {
				g, ok := in.(*ssa.Go)
				if !ok {
					return
				}
				if mc, isMC := g.Call.Value.(*ssa.MakeClosure); isMC && ContainsCall(mc.Fn.(*ssa.Function), CalleeFn(writeLoop)) {
					gos = append(gos, in)
				}
				if CalleeFn(writeLoop)(&g.Call) {
					gos = append(gos, in)
				}
			})
			ok := len(gos) == 1
			det := "exactly one `go writeLoop` per added stream, on every path after addStream succeeded"
			if ok {
				// every success path passes it: cut at the go; success returns unreachable
				r := Reach(fn, ReachOpts{Cut: func(in ssa.Instruction) bool { return in == gos[0] }})
				for _, ret := range SuccessReturns(fn) {
					if r.Reachable(ret) {
						ok = false
						det = "a success return of " + name + " is reachable without starting writeLoop"
					}
				}
				if InnermostLoop(Loops(fn), gos[0]) != nil {
					ok = false
					det = "writeLoop is started inside a loop"
				}
			} else {
				det = fmt.Sprintf("%d `go writeLoop` statements in %s (expected 1)", len(gos), name)
			}
			c.Check(ok, "C19.4-single-writer", FuncName(fn)+"|one writeLoop per stream", p.Pos(fn.Pos()), det)
		}
	}

	// ---- C19.5 isolation and cleanup
	{
		// Broadcast: a failed write does not end the fan-out
		g := GErrNil("stream.write()==nil", CalleeFn(write))
		fail := g.FailEdges(broadcast)
		bad := ""
		if len(fail) == 0 {
			// untested error is fine as long as the loop continues: check there is no return inside the loop
		}
		var starts []*ssa.BasicBlock
		for e := range fail {
			starts = append(starts, e.From.Succs[e.Succ])
		}
		hdrs := map[*ssa.BasicBlock]bool{}
		for _, l := range Loops(broadcast) {
			hdrs[l.Header] = true
		}
		if len(starts) > 0 {
			r := Reach(broadcast, ReachOpts{Starts: starts, Cut: func(in ssa.Instruction) bool { return hdrs[in.Block()] }})
			for _, ret := range Returns(broadcast) {
				if r.Reachable(ret) {
					bad = "a failed write to one stream makes Broadcast return at " + p.Pos(InstrPos(ret)) + ": streams indexed after it never get the message"
				}
			}
		}
		// and no return/break inside the write loop at all
		for _, cs := range CallSinks(broadcast, CalleeFn(write), false) {
			if l := InnermostLoop(Loops(broadcast), cs); l == nil {
				bad = "stream.write is not called inside the fan-out loop"
			} else if !loopExitsOnlyAtHeader(l) {
				bad = "the fan-out loop of Broadcast can be left before every stream was written to"
			}
		}
		c.Check(bad == "", "C19.5-isolation", FuncName(broadcast)+"|failed write continues fan-out", p.Pos(broadcast.Pos()), orDefault(bad, "a write error to one stream is logged and the fan-out continues with the next stream"))

		// readLoop: deferred streamClose
		c.Check(deferredBefore(readLoop, readLoop.Blocks[0].Instrs[len(readLoop.Blocks[0].Instrs)-1], CalleeFn(streamClose)) || deferCalls(readLoop, streamClose), "C19.5-cleanup", FuncName(readLoop)+"|defer streamClose", p.Pos(readLoop.Pos()), "readLoop always ends in streamClose (deferred)")
		// writeLoop: every return passes streamClose unless the queue reported ErrClosed
		{
			errClosed := GCmp("err == mb.ErrClosed", func(a Atom) (bool, bool) {
				if a.Op != token.EQL && a.Op != token.NEQ {
					return false, false
				}
				isEC := func(v ssa.Value) bool {
					ld, ok := v.(*ssa.UnOp)
					if !ok {
						return false
					}
					g, ok := ld.X.(*ssa.Global)
					return ok && g.Name() == "ErrClosed"
				}
				if isEC(a.X) || isEC(a.Y) {
					return true, a.Op == token.EQL
				}
				return false, false
			})
			// the loop body may have been moved into a step function `for sr.next() {}`: its
			// `return true` means "take the next message", not an exit of the write loop
			writeLoopTop := writeLoop
			writeLoop, _ := descendTo(writeLoop, calleeMethod("cheggaaa/mb", "WaitOne"))
			c.Fn(FuncName(writeLoop))
			exits := func() []ssa.Instruction {
				var out []ssa.Instruction
				for _, ri := range Returns(writeLoop) {
					ret := ri.(*ssa.Return)
					if writeLoop != writeLoopTop && len(ret.Results) == 1 {
						if b, isC := BoolConst(ret.Results[0]); isC && b {
							continue
						}
					}
					out = append(out, ri)
				}
				return out
			}
			pe, _ := errClosed.PassEdges(writeLoop)
			r := Reach(writeLoop, ReachOpts{Removed: pe, Cut: CutAtCall(CalleeFn(streamClose))})
			bad := ""
			for _, ret := range exits() {
				if r.Reachable(ret) {
					bad = "writeLoop can return at " + p.Pos(InstrPos(ret)) + " without streamClose although the queue was not closed"
				}
			}
			c.Check(bad == "", "C19.5-cleanup", FuncName(writeLoop)+"|error exits pass streamClose", p.Pos(writeLoop.Pos()), orDefault(bad, "every exit of writeLoop (other than queue closed) passes streamClose"))
			// a failed write ends the stream: from the failing edge of MsgSend the loop does not
			// take another message (and does not return) without streamClose — otherwise a stream
			// whose writes fail while its reader stays blocked keeps its index entries and tags,
			// and later sends keep targeting it
			{
				msgSend := calleeMethod("storj.io/drpc", "MsgSend")
				g := GErrNil("stream.MsgSend()==nil", msgSend)
				fail := g.FailEdges(writeLoop)
				bad2 := ""
				if len(fail) == 0 {
					bad2 = "the error of stream.MsgSend is not tested in writeLoop"
				}
				var starts []*ssa.BasicBlock
				for e := range fail {
					starts = append(starts, e.From.Succs[e.Succ])
				}
				if len(starts) > 0 {
					r2 := Reach(writeLoop, ReachOpts{Starts: starts, Cut: CutAtCall(CalleeFn(streamClose))})
					for _, cs := range CallSinks(writeLoop, calleeMethod("cheggaaa/mb", "WaitOne"), false) {
						if r2.Reachable(cs) {
							bad2 = "after a failed MsgSend the write loop waits for the next message without streamClose: the broken stream stays indexed and keeps being targeted"
						}
					}
					for _, ret := range Returns(writeLoop) { // (a `return true` of a step function would take the next message)
						if r2.Reachable(ret) {
							bad2 = "after a failed MsgSend writeLoop returns without streamClose"
						}
					}
				}
				c.Check(bad2 == "", "C19.5-cleanup", FuncName(writeLoop)+"|failed write closes the stream", p.Pos(writeLoop.Pos()), orDefault(bad2, "the failing edge of MsgSend leads only to streamClose"))
			}
		}
		// streamClose: after winning the swap every path reaches removeStream
		{
			swap := calleeMethod("sync/atomic", "Swap")
			won := GBool("closed.Swap(true)==false (first closer)", swap, 0, false)
			pe, sites := won.PassEdges(streamClose)
			bad := ""
			if len(sites) == 0 {
				bad = "streamClose no longer guards with closed.Swap"
			}
			var starts []*ssa.BasicBlock
			for e := range pe {
				starts = append(starts, e.From.Succs[e.Succ])
			}
			r := Reach(streamClose, ReachOpts{Starts: starts, Cut: CutAtCall(CalleeFn(removeStream))})
			for _, ret := range Returns(streamClose) {
				if r.Reachable(ret) {
					bad = "after winning closed.Swap, streamClose can return at " + p.Pos(InstrPos(ret)) + " without pool.removeStream: the dead stream stays in every index and nothing retries"
				}
			}
			c.Check(bad == "", "C19.5-cleanup", FuncName(streamClose)+"|first closer always removes the stream", p.Pos(streamClose.Pos()), orDefault(bad, "the goroutine that wins closed.Swap always reaches pool.removeStream"))
			c.RequireGate("C19.5-cleanup", streamClose, won, CallSinksX(streamClose, CalleeFn(removeStream), false), "pool.removeStream")
		}
		// removeStream: all three indexes
		{
			helper := f("removeStream")
			byPeer := p.Field(spPkg + ":streamPool.streamIdsByPeer")
			byTag := p.Field(spPkg + ":streamPool.streamIdsByTag")
			streams := p.Field(spPkg + ":streamPool.streams")
			tags := p.Field(spPkg + ":stream.tags")
			okPeer, okTag, okDel := false, false, false
			// the locked index cleanup may have been split off into a function of its own
			removeStream, _ := descendTo(removeStream, CalleeFn(helper))
			c.Fn(FuncName(removeStream))
			loops := Loops(removeStream)
			for _, cs := range CallSinks(removeStream, CalleeFn(helper), false) {
				a := cs.(*ssa.Call).Call.Args
				if IsLoadOfField(a[0], byPeer) {
					okPeer = true
				}
				if IsLoadOfField(a[0], byTag) {
					if l := InnermostLoop(loops, cs); l != nil && l.Test != nil {
						if lc, isCall := l.TestAtom.Y.(*ssa.Call); isCall && len(lc.Call.Args) == 1 && IsLoadOfField(lc.Call.Args[0], tags) {
							okTag = true
						}
					}
				}
			}
			for _, w := range FieldWrites([]*ssa.Function{removeStream}, streams) {
				if w.Kind == "mapdelete" {
					okDel = true
				}
			}
			c.Check(okPeer && okTag && okDel, "C19.5-cleanup", FuncName(removeStream)+"|peer index, every tag, stream map", p.Pos(removeStream.Pos()),
				fmt.Sprintf("removeStream removes the id from streamIdsByPeer (%v), from streamIdsByTag for every tag of the stream (%v) and deletes it from streams (%v)", okPeer, okTag, okDel))
		}
		// tag pairing
		{
			tags := p.Field(spPkg + ":stream.tags")
			byTag := p.Field(spPkg + ":streamPool.streamIdsByTag")
			helper := f("removeStream")
			for _, name := range []string{"AddTagsCtx", "RemoveTagsCtx", "RemoveTagsById", "addStream"} {
				fn := f("(*streamPool)." + name)
				// (the paired update may sit in a "…Locked" helper new since the anchor snapshot; the
				// lockset analysis enters such a helper with the locks all its callers hold)
				region := regionFuncs(fn)
				var helperCalls []ssa.Instruction
				for _, f := range region {
					if la.Summary(f) == nil {
						continue
					}
					helperCalls = append(helperCalls, CallSinks(f, CalleeFn(helper), false)...)
				}
				touchesTags := len(FieldWrites(region, tags)) > 0
				touchesIdx := len(FieldWrites(region, byTag)) > 0
				for _, cs := range helperCalls {
					if IsLoadOfField(cs.(*ssa.Call).Call.Args[0], byTag) {
						touchesIdx = true
					}
				}
				locked := true
				for _, w := range FieldWrites(region, tags) {
					if w.Kind != "init" && !la.Must(w.Instr)[mu] {
						locked = false
					}
				}
				for _, w := range FieldWrites(region, byTag) {
					if !la.Must(w.Instr)[mu] {
						locked = false
					}
				}
				for _, cs := range helperCalls {
					if !la.Must(cs)[mu] {
						locked = false
					}
				}
				c.Check(touchesTags && touchesIdx && locked, "C19.5-tag-pairing", FuncName(fn)+"|stream.tags ↔ streamIdsByTag", p.Pos(fn.Pos()), "the stream's own tag list and the pool's tag index are updated together in one critical section")
			}
		}
	}
	_ = types.Typ
}

func blockingCallName(cc *ssa.CallCommon) (string, bool) {
	sites, _ := MayBlock(nil, nil, nil)
	_ = sites
	// reuse the table in core through a tiny probe function
	return BlockingCall(cc)
}

// deferCalls: fn defers target directly or through a closure.
func deferCalls(fn, target *ssa.Function) bool {
	found := false
	Instrs(fn, func(in ssa.Instruction) {
		if d, ok := in.(*ssa.Defer); ok {
			if CalleeFn(target)(&d.Call) {
				found = true
			}
			if mc, ok := d.Call.Value.(*ssa.MakeClosure); ok && ContainsCall(mc.Fn.(*ssa.Function), CalleeFn(target)) {
				found = true
			}
		}
	})
	return found
}

// positiveSize: v is a positive constant, or a phi of positive constants and a
// value that is only taken on the false edge of `v <= 0`.
func positiveSize(fn *ssa.Function, v ssa.Value) (bool, string) {
	if k, ok := IntConst(v); ok {
		return k > 0, fmt.Sprintf("constant %d", k)
	}
	phi, ok := v.(*ssa.Phi)
	if !ok {
		return false, "queue size is neither a constant nor a guarded parameter (0 would mean an unbounded queue)"
	}
	for i, e := range phi.Edges {
		if k, isK := IntConst(e); isK {
			if k <= 0 {
				return false, "queue size may be a non-positive constant"
			}
			continue
		}
		pred := phi.Block().Preds[i]
		// pred must be the block of an If testing e <= 0 with this edge being the false one, or dominated by it
		guarded := false
		for _, b := range fn.Blocks {
			if len(b.Instrs) == 0 {
				continue
			}
			iff, isIf := b.Instrs[len(b.Instrs)-1].(*ssa.If)
			if !isIf {
				continue
			}
			a := AtomOf(iff)
			if a.X != e {
				continue
			}
			z, isZ := IntConst(a.Y)
			if !isZ {
				continue
			}
			var posSucc int
			switch {
			case a.Op == token.LEQ && z == 0, a.Op == token.LSS && z == 1:
				posSucc = 1 - a.TrueSucc()
			case a.Op == token.GTR && z == 0, a.Op == token.GEQ && z == 1:
				posSucc = a.TrueSucc()
			default:
				continue
			}
			if b == pred && b.Succs[posSucc] == phi.Block() {
				guarded = true
			} else if b.Succs[posSucc].Dominates(pred) {
				guarded = true
			}
		}
		if !guarded {
			return false, "queue size parameter can reach mb.New without the `<= 0` guard (0 means unbounded)"
		}
	}
	return true, "queue size is a positive constant or the parameter on the > 0 edge of its guard"
}
