package rules

import (
	"fmt"
	"go/token"
	"go/types"
	"sort"
	"strings"

	"golang.org/x/tools/go/ssa"

	. "verif/checker/core"
)

func init() {
	register(&Pack{
		ID: "C11",
		Explanation: "Hostile-input robustness over the static call closure of the parsing/applying entry points (tree changes and sync messages, ACL records, key-value entries, head-sync, handshake frames, space payloads, key/metadata blobs, snappy, pub/sub), generated decoders excluded: " +
			"R-slice — every slice expression / index on a byte slice or string that is not a fresh allocation is dominated by a comparison involving len() of that value (or indexes with a loop variable bounded by it); " +
			"R-alloc — every make/slices.Grow whose size derives from an integer carried by a message (proto integer fields, ldiff.Range.Limit, binary.*Uint*, snappy.DecodedLen, protowire varints) is dominated by a comparison of that size against a bound; " +
			"R-nil — an optional sub-message pointer loaded from a protobuf struct field (not through the nil-safe getter) is dereferenced, or handed to a function that dereferences its parameter unguarded, only under a dominating nil test; the same for entries read from Tree.unAttached by a single-value map lookup (stale wait-list entries); " +
			"R-panic / R-assert — explicit panic calls and single-value type assertions in the closure are enumerated against a frozen list with a reason each.",
		NotDecided: "Absence of all panics (integer division, arithmetic overflow, out-of-memory inside generated decoders), hangs and timing; allocation inside generated decoders; nil dereferences of values that are not protobuf sub-messages or wait-list entries.",
		Run:        runC11,
	})
}

var c11Roots = []string{
	otPkg + ":(*changeBuilder).Unmarshall", otPkg + ":(*changeBuilder).UnmarshallReduced", otPkg + ":UnmarshallRoot",
	otPkg + ":(*objectTree).AddRawChangesWithUpdater", otPkg + ":(*objectTreeValidator).validateChange", otPkg + ":ValidateRawTreeDefault", otPkg + ":ValidateFilterRawTree",
	stPkg + ":(*syncHandler).HandleHeadUpdate", stPkg + ":(*syncHandler).HandleStreamRequest", stPkg + ":(*syncHandler).HandleResponse",
	stPkg + ":(*fullResponseCollector).CollectResponse", stPkg + ":PutSyncTree",
	aclList + ":(*aclRecordBuilder).Unmarshall", aclList + ":(*aclRecordBuilder).UnmarshallWithId", aclList + ":(*AclState).ApplyRecord", aclList + ":unmarshalAclDataKeepIdentity",
	aclList + ":(*aclList).AddRawRecord", aclList + ":(*aclList).ValidateRawRecord",
	aclList + ":(*contentValidator).ValidateAclRecordContents", aclList + ":(*contentValidator).ValidateOwnershipChange", aclList + ":(*contentValidator).ValidateInviteChange",
	aclList + ":(*contentValidator).ValidateRequestCancel", aclList + ":(*contentValidator).ValidateAccountRemove", aclList + ":(*contentValidator).ValidateReadKeyChange",
	aclList + ":(*contentValidator).ValidateRequestAccept", aclList + ":(*contentValidator).ValidateInviteJoin", aclList + ":(*contentValidator).ValidateRequestJoin",
	"commonspace/object/acl/syncacl:(*syncAclHandler).HandleHeadUpdate", "commonspace/object/acl/syncacl:(*syncAclHandler).HandleStreamRequest", "commonspace/object/acl/syncacl:(*syncAclHandler).HandleResponse",
	kvInner + ":KeyValueFromProto", kvStor + ":(*storage).SetRaw",
	"commonspace/headsync:HandleRangeRequest", "commonspace/headsync:(*remote).Ranges", "commonspace/headsync:(*remote).DiffTypeCheck",
	"commonspace/object/keyvalue:HandleRangeRequest",
	"app/ldiff:(*diff).Ranges", "app/ldiff:(*diff).getRange",
	"net/secureservice/handshake:(*handshake).readMsg", "net/secureservice/handshake:outgoingHandshake", "net/secureservice/handshake:incomingHandshake",
	"net/secureservice/handshake:outgoingProtoHandshake", "net/secureservice/handshake:incomingProtoHandshake",
	"net/secureservice:(*peerSignVerifier).CheckCredential",
	"commonspace/spacepayloads:ValidateSpaceStorageCreatePayload", "commonspace/spacepayloads:ValidateSpaceHeader",
	"net/rpc/encoding:(*snappyEncoding).Unmarshal",
	"commonspace/pubsub:(*service).HandleMessage",
	"util/crypto:(*AESKey).Decrypt", "util/crypto:(*AESKey).DecryptReuse", "util/crypto:DecryptX25519", "util/crypto:UnmarshalEd25519PublicKey", "util/crypto:UnmarshalEd25519PublicKeyProto",
	"util/crypto:UnmarshalEd25519PrivateKeyProto", "util/crypto:UnmarshallAESKeyProto", "util/crypto:DecodeAccountAddress", "util/crypto:DecodePeerId",
	"util/strkey:Decode",
}

func isProtoPkg(pk *types.Package) bool {
	if pk == nil {
		return false
	}
	p := pk.Path()
	if i := strings.LastIndex(p, "/"); i >= 0 {
		p = p[i+1:]
	}
	return strings.HasSuffix(p, "proto")
}

func runC11(c *Ctx) {
	p := c.P
	var roots []*ssa.Function
	for _, spec := range c11Roots {
		fn := p.FuncOpt(spec)
		if fn == nil {
			c.Violate("C11.0-entry-points", spec, "-", "entry point listed in the rule table does not resolve (renamed or removed): update the table")
			continue
		}
		roots = append(roots, fn)
	}
	// closures handed to iterators are followed by StaticClosure (MakeClosure); interface dispatch is not
	closure := StaticClosure(roots, func(fn *ssa.Function) bool {
		return IsRepoFunc(fn) && !p.IsGenerated(fn) && !isTestSupport(p, fn) && !strings.HasSuffix(p.Fset.Position(fn.Pos()).Filename, "testutils.go")
	})
	for _, fn := range closure {
		c.Fn(FuncName(fn))
	}
	c.Hold("C11.0-entry-points", "closure", "-", fmt.Sprintf("%d entry points, %d functions in the static call closure (generated decoders excluded)", len(roots), len(closure)))

	rSlice(c, closure)
	rSliceInvariants(c)
	rAlloc(c, closure)
	rNil(c, closure)
	rPanicAssert(c, closure)
}

// ---------------------------------------------------------------- R-slice

// lenGuarded: `at` is dominated by an If whose condition involves len(v') for a
// v' sharing an origin with v (any comparison), or by a loop whose induction
// variable is bounded by len(v').
func lenGuarded(fn *ssa.Function, v ssa.Value, at ssa.Instruction) bool {
	ov, _ := Origins(v)
	same := func(x ssa.Value) bool {
		if x == v {
			return true
		}
		ox, _ := Origins(x)
		for _, a := range ov {
			for _, b := range ox {
				if a == b {
					return true
				}
				// loads of the same field of the same base
				fa, ba := LoadedField(a)
				fb, bb := LoadedField(b)
				if fa != nil && fa == fb {
					oa, _ := Origins(ba)
					ob, _ := Origins(bb)
					for _, x1 := range oa {
						for _, x2 := range ob {
							if x1 == x2 {
								return true
							}
						}
					}
				}
			}
		}
		return false
	}
	isLenOf := func(x ssa.Value) bool {
		// len(x), or arithmetic on it
		switch y := x.(type) {
		case *ssa.Call:
			if b, ok := y.Call.Value.(*ssa.Builtin); ok && b.Name() == "len" {
				return same(y.Call.Args[0])
			}
		case *ssa.BinOp:
			return isLenOfAny(y.X, same) || isLenOfAny(y.Y, same)
		case *ssa.Convert:
			return isLenOfAny(y.X, same)
		}
		return false
	}
	for _, b := range fn.Blocks {
		if len(b.Instrs) == 0 {
			continue
		}
		iff, ok := b.Instrs[len(b.Instrs)-1].(*ssa.If)
		if !ok {
			continue
		}
		if !b.Dominates(at.Block()) || b == at.Block() {
			continue
		}
		a := AtomOf(iff)
		if a.Op == token.ILLEGAL || a.Y == nil {
			continue
		}
		if isLenOf(a.X) || isLenOf(a.Y) {
			// both sides constant (len(v) OP K guarding v[..M] / v[M-1]): the guard counts only if
			// the edge towards the use establishes len(v) >= M (round-5 seed C11-F: 32 -> 16)
			if need, okN := constNeed(at); okN {
				if lb, okL := constLenLowerBound(a, b, at.Block(), isLenOf); okL && lb < need {
					continue
				}
			}
			return true
		}
	}
	return false
}

// constNeed: the least length the use needs when its bounds are constants.
func constNeed(at ssa.Instruction) (int64, bool) {
	switch x := at.(type) {
	case *ssa.Slice:
		var m int64 = -1
		for _, v := range []ssa.Value{x.Low, x.High, x.Max} {
			if v == nil {
				continue
			}
			k, ok := IntConst(v)
			if !ok {
				return 0, false
			}
			if k > m {
				m = k
			}
		}
		return m, m >= 0
	case *ssa.IndexAddr:
		if k, ok := IntConst(x.Index); ok {
			return k + 1, true
		}
	case *ssa.Index:
		if k, ok := IntConst(x.Index); ok {
			return k + 1, true
		}
	}
	return 0, false
}

// constLenLowerBound: for an atom of the exact form len(v) OP K (or K OP len(v)) in block b,
// the lower bound of len(v) on the edge that dominates `use`; ok=false when the atom is not of
// that form or no single successor dominates the use.
func constLenLowerBound(a Atom, b, use *ssa.BasicBlock, isLenOf func(ssa.Value) bool) (int64, bool) {
	directLen := func(v ssa.Value) bool {
		call, ok := v.(*ssa.Call)
		if !ok {
			return false
		}
		bi, isB := call.Call.Value.(*ssa.Builtin)
		return isB && bi.Name() == "len" && isLenOf(v)
	}
	op := a.Op
	var k int64
	switch {
	case directLen(a.X):
		kk, ok := IntConst(a.Y)
		if !ok {
			return 0, false
		}
		k = kk
	case directLen(a.Y):
		kk, ok := IntConst(a.X)
		if !ok {
			return 0, false
		}
		k = kk
		switch op { // mirror: K OP len  ==  len OP' K
		case token.LSS:
			op = token.GTR
		case token.LEQ:
			op = token.GEQ
		case token.GTR:
			op = token.LSS
		case token.GEQ:
			op = token.LEQ
		}
	default:
		return 0, false
	}
	if len(b.Succs) != 2 {
		return 0, false
	}
	ts := a.TrueSucc()
	domT := b.Succs[ts].Dominates(use) && len(b.Succs[ts].Preds) == 1
	domF := b.Succs[1-ts].Dominates(use) && len(b.Succs[1-ts].Preds) == 1
	if domT == domF {
		return 0, false
	}
	if domT {
		switch op {
		case token.GEQ, token.EQL:
			return k, true
		case token.GTR:
			return k + 1, true
		}
		return 0, true
	}
	switch op {
	case token.LSS, token.NEQ:
		return k, true
	case token.LEQ:
		return k + 1, true
	}
	return 0, true
}

func isLenOfAny(x ssa.Value, same func(ssa.Value) bool) bool {
	switch y := x.(type) {
	case *ssa.Call:
		if b, ok := y.Call.Value.(*ssa.Builtin); ok && b.Name() == "len" {
			return same(y.Call.Args[0])
		}
	case *ssa.BinOp:
		return isLenOfAny(y.X, same) || isLenOfAny(y.Y, same)
	case *ssa.Convert:
		return isLenOfAny(y.X, same)
	case *ssa.Phi:
		for _, e := range y.Edges {
			if isLenOfAny(e, same) {
				return true
			}
		}
	}
	return false
}

// freshBytes: v is a locally made slice/array of known adequate size (make with
// constant or len-derived size, array alloc, append result…) — not input.
func freshOrigin(v ssa.Value) bool {
	vals, unk := Origins(v)
	if unk || len(vals) == 0 {
		return false
	}
	for _, o := range vals {
		switch x := o.(type) {
		case *ssa.MakeSlice, *ssa.Alloc, *ssa.Const:
		case *ssa.Slice:
			if !freshOrigin(x.X) {
				return false
			}
		case *ssa.Call:
			if b, ok := x.Call.Value.(*ssa.Builtin); ok && b.Name() == "append" {
				continue
			}
			// results of hash / Sum / crypto primitives have fixed sizes
			if ob := CalleeObj(&x.Call); ob != nil && ob.Pkg() != nil && !strings.HasPrefix(ob.Pkg().Path(), ModPath) {
				switch ob.Name() {
				case "Sum", "Sum256", "Sum512", "Seal", "Bytes", "NewKeyFromSeed", "EncodeToString", "Grow":
					// slices.Grow(b, n)[:n]: capacity established locally
					continue
				}
			}
			return false
		default:
			return false
		}
	}
	return true
}

func isByteSeq(t types.Type) bool {
	switch u := t.Underlying().(type) {
	case *types.Slice:
		b, ok := u.Elem().Underlying().(*types.Basic)
		return ok && b.Kind() == types.Byte
	case *types.Basic:
		return u.Kind() == types.String
	case *types.Pointer:
		if a, ok := u.Elem().Underlying().(*types.Array); ok {
			_ = a
			return false // arrays have static bounds
		}
	}
	return false
}

func rSlice(c *Ctx, closure []*ssa.Function) {
	p := c.P
	n := 0
	for _, fn := range closure {
		loops := Loops(fn)
		Instrs(fn, func(in ssa.Instruction) {
			var base ssa.Value
			var kind string
			var constOK bool
			switch x := in.(type) {
			case *ssa.Slice:
				if x.Low == nil && x.High == nil {
					return
				}
				base, kind = x.X, "slice expression"
				// x[:0] and x[0:] style with no upper bound beyond len are safe
				if x.High == nil {
					if x.Low == nil {
						return
					}
					if k, ok := IntConst(x.Low); ok && k == 0 {
						return
					}
				} else if k, ok := IntConst(x.High); ok && k == 0 {
					return
				}
			case *ssa.IndexAddr:
				base, kind = x.X, "index"
				if _, isArr := x.X.Type().Underlying().(*types.Pointer); isArr {
					return // array: static bounds
				}
				// loop index bounded by len(base)
				for _, l := range loops {
					if l.Contains(in) && l.Index == x.Index && l.Test != nil {
						if isLenOfAny(l.TestAtom.Y, func(v ssa.Value) bool { return shareOrigin(v, x.X) }) {
							constOK = true
						}
					}
				}
			case *ssa.Index:
				base, kind = x.X, "index"
				if _, isArr := x.X.Type().Underlying().(*types.Array); isArr {
					return
				}
			default:
				return
			}
			if !isByteSeq(base.Type()) {
				return
			}
			if freshOrigin(base) || constOK {
				return
			}
			if why, exempt := c11SliceExempt[FuncName(TopFunc(fn))]; exempt {
				c.Hold("C11.R-slice", FuncName(fn)+"|"+kind+" on "+describeValue(base)+" (exempt)", p.Pos(InstrPos(in)), "enumerated exception: "+why)
				return
			}
			n++
			ok := lenGuarded(fn, base, in) || locallySized(fn, base, in) || calleeLenGuarded(base) || boundsFromSearch(fn, in, base)
			// range loops over the same value index safely
			if !ok {
				if ia, isIA := in.(*ssa.IndexAddr); isIA {
					for _, l := range loops {
						if l.Contains(in) && l.Index == ia.Index {
							ok = true
						}
					}
				}
			}
			c.Check(ok, "C11.R-slice", FuncName(fn)+"|"+kind+" on "+describeValue(base), p.Pos(InstrPos(in)),
				orDefault(ifs(!ok, kind+" on input-derived bytes without a dominating len() comparison: a short input panics (slice bounds out of range)"), kind+" dominated by a len() comparison of the same value"))
		})
	}
	c.Min("C11.R-slice", 5)
}

// c11SliceExempt: functions whose slicing is safe by a documented local
// invariant that the rule cannot see; each is paired with a check of that
// invariant elsewhere in the pack (see rSliceInvariants).
var c11SliceExempt = map[string]string{
	"(*net/secureservice/handshake.handshake).writeData": "output path: h.buf is sized to payload+header by its three callers (writeCredentials/writeProto/writeAck) before the call — who-may-call checked",
	"(*util/crypto.AESKey).DecryptReuse":                 "k.raw is the key's own fixed-size material (constructor-checked), the ciphertext slicing below is len-guarded",
	"commonspace/object/acl/list.readTag":                "cursor helper of the strict partial decoder: callers loop on i < len(dAtA) — caller guard checked",
	"commonspace/object/acl/list.readBytes":              "cursor helper of the strict partial decoder: callers loop on i < len(dAtA) — caller guard checked",
}

// rSliceInvariants checks the invariants the R-slice exemptions rely on.
func rSliceInvariants(c *Ctx) {
	p := c.P
	hs := "net/secureservice/handshake"
	writeData := p.Func(hs + ":(*handshake).writeData")
	bufF := p.Field(hs + ":handshake.buf")
	allowed := map[string]bool{"writeCredentials": true, "writeProto": true, "writeAck": true}
	for _, cs := range Callers(p.FuncsOfPkg(hs), CalleeFn(writeData)) {
		ok := allowed[TopFunc(cs.Fn).Name()]
		if ok {
			// the caller sized h.buf before the call
			sized := false
			Instrs(cs.Fn, func(in ssa.Instruction) {
				if st, isSt := in.(*ssa.Store); isSt {
					if fa, isFA := st.Addr.(*ssa.FieldAddr); isFA && FieldOf(fa) == bufF && freshOrigin(st.Val) && (st.Block().Dominates(cs.Instr.Block())) {
						sized = true
					}
				}
			})
			ok = sized
		}
		c.Check(ok, "C11.R-slice-invariant", FuncName(cs.Fn)+"|sizes h.buf before writeData", p.Pos(InstrPos(cs.Instr)), "writeData is called only by the three writers, each after sizing h.buf with slices.Grow(...)[:n]")
	}
	for _, name := range []string{"readTag", "readBytes"} {
		fn := p.Func(aclList + ":" + name)
		for _, cs := range Callers(p.FuncsOfPkg(aclList), CalleeFn(fn)) {
			args := cs.Instr.(ssa.CallInstruction).Common().Args
			buf, idx := args[0], args[1]
			ok := false
			// (a) constant 0, (c) the cursor returned by a previous readTag/readBytes on the same buffer
			if k, isK := IntConst(idx); isK && k == 0 {
				ok = true
			}
			if vals, unk := Origins(idx); !unk && len(vals) > 0 && !ok {
				all := true
				for _, o := range vals {
					call, _, isRes := CallResult(o)
					if !isRes {
						all = false
						break
					}
					cf := CalleeFunc(&call.Call)
					if cf == nil || (cf.Name() != "readTag" && cf.Name() != "readBytes") || !(call.Call.Args[0] == buf || shareOrigin(call.Call.Args[0], buf)) {
						all = false
					}
				}
				ok = all
			}
			for _, blk := range cs.Fn.Blocks {
				if len(blk.Instrs) == 0 || !blk.Dominates(cs.Instr.Block()) {
					continue
				}
				if iff, isIf := blk.Instrs[len(blk.Instrs)-1].(*ssa.If); isIf && blk != cs.Instr.Block() {
					a := AtomOf(iff)
					if a.Y == nil {
						continue
					}
					lenOfBuf := func(v ssa.Value) bool {
						return isLenOfAny(v, func(x ssa.Value) bool { return shareOrigin(x, buf) || x == buf })
					}
					if (mentions(a.X, idx) && lenOfBuf(a.Y)) || (mentions(a.Y, idx) && lenOfBuf(a.X)) {
						ok = true
					}
				}
			}
			c.Check(ok, "C11.R-slice-invariant", FuncName(cs.Fn)+"|cursor < len before "+name, p.Pos(InstrPos(cs.Instr)), name+"(dAtA, i) is called only where a dominating test compares the cursor with len(dAtA)")
		}
	}
	c.Min("C11.R-slice-invariant", 6)
}

// locallySized: a store to the same struct field of a freshly sized value
// (make / slices.Grow(...)[:n] / append) dominates `at` in this function.
func locallySized(fn *ssa.Function, base ssa.Value, at ssa.Instruction) bool {
	vals, _ := Origins(base)
	for _, o := range vals {
		f, b := LoadedField(o)
		if f == nil {
			return false
		}
		found := false
		Instrs(fn, func(in ssa.Instruction) {
			st, ok := in.(*ssa.Store)
			if !ok {
				return
			}
			fa, ok := st.Addr.(*ssa.FieldAddr)
			if !ok || FieldOf(fa) != f || !shareOrigin(fa.X, b) {
				return
			}
			if !freshOrigin(st.Val) {
				return
			}
			if st.Block() == at.Block() {
				for _, x := range st.Block().Instrs {
					if x == st {
						found = true
						break
					}
					if x == at {
						break
					}
				}
			} else if st.Block().Dominates(at.Block()) {
				found = true
			}
		})
		if !found {
			// sized by a reading helper new since the anchor snapshot, called (on the same
			// object) before `at`: the helper sizes the field on every path to a success return
			for _, ci := range CallsIn(fn) {
				call, isCall := ci.(*ssa.Call)
				h := CalleeFunc(ci.Common())
				if !isCall || h == nil || h.Blocks == nil || !IsRepoFunc(h) || !IsNewFunc(h) || len(h.Params) == 0 || len(call.Call.Args) == 0 || !shareOrigin(call.Call.Args[0], b) {
					continue
				}
				before := call.Block() != at.Block() && call.Block().Dominates(at.Block())
				if call.Block() == at.Block() {
					for _, x := range call.Block().Instrs {
						if x == ssa.Instruction(call) {
							before = true
							break
						}
						if x == at {
							break
						}
					}
				}
				if !before {
					continue
				}
				Instrs(h, func(in ssa.Instruction) {
					st, ok := in.(*ssa.Store)
					if !ok {
						return
					}
					fa, ok := st.Addr.(*ssa.FieldAddr)
					if !ok || FieldOf(fa) != f || !originatesFromParam(fa.X, h.Params[0]) || !freshOrigin(st.Val) {
						return
					}
					all := true
					rets := SuccessReturns(h)
					for _, ret := range rets {
						if st.Block() != ret.Block() && !st.Block().Dominates(ret.Block()) {
							all = false
						}
					}
					if all && len(rets) > 0 {
						found = true
					}
				})
			}
		}
		if !found {
			return false
		}
	}
	return len(vals) > 0
}

// calleeLenGuarded: base is the result of a repository function that returns
// it (with a nil error) only after a len() comparison on it.
func calleeLenGuarded(base ssa.Value) bool {
	vals, unk := Origins(base)
	if unk || len(vals) == 0 {
		return false
	}
	for _, o := range vals {
		call, idx, ok := CallResult(o)
		if !ok {
			return false
		}
		cf := CalleeFunc(&call.Call)
		if cf == nil || cf.Blocks == nil || !IsRepoFunc(cf) {
			return false
		}
		for _, r := range SuccessReturns(cf) {
			ret := r.(*ssa.Return)
			if idx >= len(ret.Results) || !lenGuarded(cf, ret.Results[idx], ret) {
				return false
			}
		}
	}
	return true
}

// boundsFromSearch: every non-constant bound of the slice expression derives
// from strings/bytes Index* on the same base and is tested by a dominating If.
func boundsFromSearch(fn *ssa.Function, in ssa.Instruction, base ssa.Value) bool {
	sl, ok := in.(*ssa.Slice)
	if !ok {
		return false
	}
	check := func(b ssa.Value) bool {
		if b == nil {
			return true
		}
		if _, isC := b.(*ssa.Const); isC {
			return false // a constant bound needs a len guard
		}
		// strip +const
		core := b
		if bo, isBO := b.(*ssa.BinOp); isBO && (bo.Op == token.ADD || bo.Op == token.SUB) {
			if _, isC := bo.Y.(*ssa.Const); isC {
				core = bo.X
			}
		}
		vals, unk := Origins(core)
		if unk || len(vals) == 0 {
			return false
		}
		for _, o := range vals {
			call, isCall := o.(*ssa.Call)
			if !isCall {
				return false
			}
			ob := CalleeObj(&call.Call)
			if ob == nil || ob.Pkg() == nil || (ob.Pkg().Path() != "strings" && ob.Pkg().Path() != "bytes") || !strings.HasPrefix(ob.Name(), "Index") && !strings.HasPrefix(ob.Name(), "LastIndex") {
				return false
			}
			if !shareOrigin(call.Call.Args[0], base) && !sameFieldLoad(call.Call.Args[0], base) {
				return false
			}
		}
		// tested by a dominating If
		for _, blk := range fn.Blocks {
			if len(blk.Instrs) == 0 || !blk.Dominates(in.Block()) || blk == in.Block() {
				continue
			}
			if iff, isIf := blk.Instrs[len(blk.Instrs)-1].(*ssa.If); isIf {
				a := AtomOf(iff)
				if a.Y != nil && (mentions(a.X, core) || mentions(a.Y, core)) {
					return true
				}
			}
		}
		return false
	}
	return check(sl.Low) && check(sl.High)
}

func shareOrigin(a, b ssa.Value) bool {
	oa, _ := Origins(a)
	ob, _ := Origins(b)
	for _, x := range oa {
		for _, y := range ob {
			if x == y {
				return true
			}
		}
	}
	return a == b
}

func describeValue(v ssa.Value) string {
	vals, _ := Origins(v)
	for _, o := range vals {
		if f, _ := LoadedField(o); f != nil {
			return "field " + f.Name()
		}
		if pm, ok := o.(*ssa.Parameter); ok {
			return "parameter " + pm.Name()
		}
	}
	if v.Name() != "" {
		return v.Name()
	}
	return "value"
}

// ---------------------------------------------------------------- R-alloc

// wireInt: v is an integer carried by a message.
func wireIntSource(v ssa.Value) (string, bool) {
	switch x := v.(type) {
	case *ssa.Call:
		o := CalleeObj(&x.Call)
		if o != nil && o.Pkg() != nil {
			pp := o.Pkg().Path()
			if pp == "encoding/binary" && (strings.HasPrefix(o.Name(), "Uint") || strings.HasPrefix(o.Name(), "Varint") || strings.HasPrefix(o.Name(), "Uvarint")) {
				return "binary." + o.Name(), true
			}
			if strings.HasSuffix(pp, "golang/snappy") && o.Name() == "DecodedLen" {
				return "snappy.DecodedLen", true
			}
			if strings.HasSuffix(pp, "protowire") && strings.HasPrefix(o.Name(), "Consume") {
				return "protowire." + o.Name(), true
			}
		}
	}
	if f, _ := LoadedField(v); f != nil {
		if b, ok := f.Type().Underlying().(*types.Basic); ok && b.Info()&types.IsInteger != 0 {
			if isProtoPkg(f.Pkg()) {
				return "message field " + f.Name(), true
			}
			if f.Pkg() != nil && strings.HasSuffix(f.Pkg().Path(), "app/ldiff") && (f.Name() == "Limit" || f.Name() == "Count") {
				return "ldiff wire field " + f.Name(), true
			}
		}
	}
	return "", false
}

// sizeSources walks the size expression backwards.
func sizeSources(v ssa.Value, seen map[ssa.Value]bool, out *[]string, leaves *[]ssa.Value) {
	if v == nil || seen[v] {
		return
	}
	seen[v] = true
	if s, ok := wireIntSource(v); ok {
		*out = append(*out, s)
		*leaves = append(*leaves, v)
		return
	}
	switch x := v.(type) {
	case *ssa.BinOp:
		sizeSources(x.X, seen, out, leaves)
		sizeSources(x.Y, seen, out, leaves)
	case *ssa.Convert:
		sizeSources(x.X, seen, out, leaves)
	case *ssa.ChangeType:
		sizeSources(x.X, seen, out, leaves)
	case *ssa.Phi:
		for _, e := range x.Edges {
			sizeSources(e, seen, out, leaves)
		}
	case *ssa.Extract:
		if s, ok := wireIntSource(x.Tuple); ok {
			*out = append(*out, s)
			*leaves = append(*leaves, x) // the extracted integer, not the (value, err) tuple
		}
	case *ssa.Call:
		if b, ok := x.Call.Value.(*ssa.Builtin); ok && (b.Name() == "max" || b.Name() == "min") {
			for _, a := range x.Call.Args {
				sizeSources(a, seen, out, leaves)
			}
		}
	case *ssa.UnOp:
		if x.Op == token.MUL {
			vals, _ := Origins(x)
			for _, o := range vals {
				if o != v {
					sizeSources(o, seen, out, leaves)
				}
			}
		}
	}
}

func rAlloc(c *Ctx, closure []*ssa.Function) {
	p := c.P
	n := 0
	for _, fn := range closure {
		Instrs(fn, func(in ssa.Instruction) {
			var sizes []ssa.Value
			what := ""
			switch x := in.(type) {
			case *ssa.MakeSlice:
				sizes, what = []ssa.Value{x.Len, x.Cap}, "make"
			case *ssa.Call:
				if o := CalleeObj(&x.Call); o != nil && o.Pkg() != nil && (o.Pkg().Path() == "slices" || strings.HasSuffix(o.Pkg().Path(), "exp/slices")) && o.Name() == "Grow" {
					sizes, what = []ssa.Value{x.Call.Args[1]}, "slices.Grow"
				}
			default:
				return
			}
			for _, sz := range sizes {
				var srcs []string
				var leaves []ssa.Value
				sizeSources(sz, map[ssa.Value]bool{}, &srcs, &leaves)
				if len(srcs) == 0 {
					continue
				}
				n++
				// bounded: on the way the message-derived value takes into the allocation it is on
				// the SMALL side of a comparison (leaf <= K holds on an edge that dominates the
				// point where the value enters: the allocation itself, or the predecessor of the
				// phi edge that carries it). A comparison whose large side leads to the allocation
				// (`if n > hint { hint = n }`) is not a bound.
				entry := leafEntryBlocks(sz, in.Block())
				ok := true
				unb := ""
				for _, lf := range leaves {
					ats := entry[lf]
					if len(ats) == 0 {
						ats = []*ssa.BasicBlock{in.Block()}
					}
					for _, at := range ats {
						if !upperBoundedAt(fn, lf, at) && !upperBoundedAt(fn, sz, in.Block()) {
							ok = false
							unb = describeValue(lf)
						}
					}
				}
				sort.Strings(srcs)
				c.Check(ok, "C11.R-alloc", FuncName(fn)+"|"+what+" sized by "+strings.Join(srcs, ","), p.Pos(InstrPos(in)),
					orDefault(ifs(!ok, what+" with a size taken from the message ("+strings.Join(srcs, ",")+"; "+unb+") that is not on the small side of any dominating comparison: a few bytes make the receiver allocate an arbitrary amount"), "size from the message is bounded by a dominating comparison before allocating"))
			}
		})
	}
	c.Min("C11.R-alloc", 1)
}

// leafEntryBlocks: for every value reachable backwards from the size through phis, the
// blocks from which it flows into the size (the predecessor of the phi edge carrying it;
// the allocation block when it is used directly).
func leafEntryBlocks(sz ssa.Value, allocBlock *ssa.BasicBlock) map[ssa.Value][]*ssa.BasicBlock {
	out := map[ssa.Value][]*ssa.BasicBlock{}
	seen := map[ssa.Value]bool{}
	var walk func(v ssa.Value, at *ssa.BasicBlock)
	walk = func(v ssa.Value, at *ssa.BasicBlock) {
		if v == nil {
			return
		}
		out[v] = append(out[v], at)
		if seen[v] {
			return
		}
		seen[v] = true
		switch x := v.(type) {
		case *ssa.Phi:
			for i, e := range x.Edges {
				walk(e, x.Block().Preds[i])
			}
		case *ssa.BinOp:
			walk(x.X, at)
			walk(x.Y, at)
		case *ssa.Convert:
			walk(x.X, at)
		case *ssa.ChangeType:
			walk(x.X, at)
		case *ssa.Extract:
			walk(x.Tuple, at)
		case *ssa.Call:
			if b, ok := x.Call.Value.(*ssa.Builtin); ok && (b.Name() == "max" || b.Name() == "min") {
				for _, a := range x.Call.Args {
					walk(a, at)
				}
			}
		case *ssa.UnOp:
			if x.Op == token.MUL {
				vals, _ := Origins(x)
				for _, o := range vals {
					if o != v {
						walk(o, at)
					}
				}
			}
		}
	}
	walk(sz, allocBlock)
	return out
}

// upperBoundedAt: some If compares v (or an expression mentioning it) with another operand and
// the successor edge on which v is the smaller-or-equal side dominates block at.
func upperBoundedAt(fn *ssa.Function, v ssa.Value, at *ssa.BasicBlock) bool {
	for _, b := range fn.Blocks {
		if len(b.Instrs) == 0 {
			continue
		}
		iff, isIf := b.Instrs[len(b.Instrs)-1].(*ssa.If)
		if !isIf {
			continue
		}
		a := AtomOf(iff)
		if a.Y == nil {
			continue
		}
		inX, inY := mentions(a.X, v), mentions(a.Y, v)
		if inX == inY {
			continue
		}
		// smallWhenTrue: the atom being true puts v on the small side
		var smallWhenTrue bool
		switch a.Op {
		case token.LSS, token.LEQ:
			smallWhenTrue = inX
		case token.GTR, token.GEQ:
			smallWhenTrue = inY
		case token.EQL:
			smallWhenTrue = true // equal to the other operand: bounded by it
		default:
			continue
		}
		ts := a.TrueSucc()
		for si, succ := range b.Succs {
			atomTrue := si == ts
			small := atomTrue == smallWhenTrue
			if a.Op == token.EQL && !atomTrue {
				small = false
			}
			if !small {
				continue
			}
			if succ == at || edgeDom(b, succ, at) {
				return true
			}
		}
	}
	return false
}

func edgeDom(from, succ, at *ssa.BasicBlock) bool {
	if !succ.Dominates(at) {
		return false
	}
	for _, p := range succ.Preds {
		if p != from && !succ.Dominates(p) {
			return false
		}
	}
	return true
}

func mentions(expr, leaf ssa.Value) bool {
	seen := map[ssa.Value]bool{}
	var walk func(v ssa.Value) bool
	walk = func(v ssa.Value) bool {
		if v == nil || seen[v] {
			return false
		}
		seen[v] = true
		if v == leaf {
			return true
		}
		switch x := v.(type) {
		case *ssa.BinOp:
			return walk(x.X) || walk(x.Y)
		case *ssa.Convert:
			return walk(x.X)
		case *ssa.ChangeType:
			return walk(x.X)
		case *ssa.Phi:
			for _, e := range x.Edges {
				if walk(e) {
					return true
				}
			}
		}
		// same field load from the same base
		f1, b1 := LoadedField(v)
		f2, b2 := LoadedField(leaf)
		if f1 != nil && f1 == f2 && shareOrigin(b1, b2) {
			return true
		}
		return false
	}
	return walk(expr)
}

// ---------------------------------------------------------------- R-nil

// derefsParamUnguarded: fn dereferences its i-th parameter (field access)
// on some path not dominated by a nil test of that parameter.
func derefsParamUnguarded(fn *ssa.Function, i int, depth int) bool {
	if fn == nil || fn.Blocks == nil || i >= len(fn.Params) || depth > 2 {
		return false
	}
	pm := fn.Params[i]
	bad := false
	isParam := func(v ssa.Value) bool { return originatesFromParam(v, pm) }
	Instrs(fn, func(in ssa.Instruction) {
		switch x := in.(type) {
		case *ssa.FieldAddr:
			if isParam(x.X) && !nilGuarded(fn, x.X, in) {
				bad = true
			}
		case *ssa.Call:
			if cf := CalleeFunc(&x.Call); cf != nil && IsRepoFunc(cf) {
				for ai, a := range x.Call.Args {
					if isParam(a) && !nilGuarded(fn, a, in) && derefsParamUnguarded(cf, ai, depth+1) {
						bad = true
					}
				}
			}
		}
	})
	return bad
}

// nilGuarded: at is dominated by the non-nil edge of a nil test of a value
// sharing an origin with v (or loading the same field of the same base).
func nilGuarded(fn *ssa.Function, v ssa.Value, at ssa.Instruction) bool {
	for _, b := range fn.Blocks {
		if len(b.Instrs) == 0 {
			continue
		}
		iff, ok := b.Instrs[len(b.Instrs)-1].(*ssa.If)
		if !ok {
			continue
		}
		a := AtomOf(iff)
		if a.Op != token.EQL && a.Op != token.NEQ {
			continue
		}
		var x ssa.Value
		if IsNilConst(a.Y) {
			x = a.X
		} else if IsNilConst(a.X) {
			x = a.Y
		} else {
			continue
		}
		if !(x == v || shareOrigin(x, v) || sameFieldLoad(x, v) || getterOf(x, v)) {
			continue
		}
		s := a.TrueSucc()
		if a.Op == token.EQL {
			s = 1 - s
		}
		succ := b.Succs[s]
		if succ.Dominates(at.Block()) {
			okp := true
			for _, pr := range succ.Preds {
				if pr != b && !succ.Dominates(pr) {
					okp = false
				}
			}
			if okp {
				return true
			}
		}
	}
	return false
}

// nilAnswersFalse: callee tests its i-th parameter against nil at entry and
// returns the constant false for every boolean result on that edge.
func nilAnswersFalse(fn *ssa.Function, i int) bool {
	if fn == nil || fn.Blocks == nil || i >= len(fn.Params) {
		return false
	}
	pm := fn.Params[i]
	entry := fn.Blocks[0]
	iff, ok := entry.Instrs[len(entry.Instrs)-1].(*ssa.If)
	if !ok {
		return false
	}
	a := AtomOf(iff)
	if (a.Op != token.EQL && a.Op != token.NEQ) || !(a.X == ssa.Value(pm) && IsNilConst(a.Y) || a.Y == ssa.Value(pm) && IsNilConst(a.X)) {
		return false
	}
	s := a.TrueSucc()
	if a.Op == token.NEQ {
		s = 1 - s
	}
	nilBlock := entry.Succs[s]
	ret, ok := nilBlock.Instrs[len(nilBlock.Instrs)-1].(*ssa.Return)
	if !ok {
		return false
	}
	for _, r := range ret.Results {
		if b, isC := BoolConst(r); !isC || b {
			return false
		}
	}
	return len(ret.Results) > 0
}

// verdictGuarded: `at` is dominated by the true edge of a boolean result of a
// call that received src as an argument and answers false for nil.
func verdictGuarded(fn *ssa.Function, src ssa.Value, at ssa.Instruction) bool {
	refs := src.Referrers()
	if refs == nil {
		return false
	}
	for _, ref := range *refs {
		call, ok := ref.(*ssa.Call)
		if !ok || call == at {
			continue
		}
		cf := CalleeFunc(&call.Call)
		for ai, a := range call.Call.Args {
			if a != src || !nilAnswersFalse(cf, ai) {
				continue
			}
			g := GBool("verdict", func(cc *ssa.CallCommon) bool { return cc == &call.Call }, 0, true)
			g2 := GBool("verdict", func(cc *ssa.CallCommon) bool { return cc == &call.Call }, 1, true)
			for _, gg := range []Gate{g, g2} {
				pe, sites := gg.PassEdges(fn)
				if len(sites) == 0 {
					continue
				}
				for e := range pe {
					succ := e.From.Succs[e.Succ]
					if succ.Dominates(at.Block()) {
						return true
					}
				}
			}
		}
	}
	return false
}

func sameFieldLoad(a, b ssa.Value) bool {
	oa, _ := Origins(a)
	ob, _ := Origins(b)
	for _, x := range oa {
		for _, y := range ob {
			f1, b1 := LoadedField(x)
			f2, b2 := LoadedField(y)
			if f1 != nil && f1 == f2 && shareOrigin(b1, b2) {
				return true
			}
		}
	}
	return false
}

// getterOf: x is GetF() on the base whose field F is loaded by v.
func getterOf(x, v ssa.Value) bool {
	call, ok := x.(*ssa.Call)
	if !ok {
		return false
	}
	o := CalleeObj(&call.Call)
	if o == nil || !strings.HasPrefix(o.Name(), "Get") || len(call.Call.Args) == 0 {
		return false
	}
	vals, _ := Origins(v)
	for _, y := range vals {
		f, base := LoadedField(y)
		if f != nil && "Get"+f.Name() == o.Name() && shareOrigin(base, call.Call.Args[0]) {
			return true
		}
	}
	return false
}

// c11CarrierFields: fields of non-message structs that carry an optional
// sub-message copied from a peer's message without a nil check at the copy.
var c11CarrierFields = map[string]bool{"RootRawChange": true, "Root": true}

var c11NilExempt = map[string]string{
	"(*commonspace/object/acl/syncacl/response.Response).ProtoMessage": "outgoing response: Root is the local ACL root set by the producer, not taken from a peer",
}

func rNil(c *Ctx, closure []*ssa.Function) {
	p := c.P
	unAtt := p.Field(otPkg + ":Tree.unAttached")
	n := 0
	for _, fn := range closure {
		Instrs(fn, func(in ssa.Instruction) {
			// source values
			var src ssa.Value
			srcDesc := ""
			switch x := in.(type) {
			case *ssa.UnOp:
				if x.Op != token.MUL {
					return
				}
				f, _ := LoadedField(x)
				if f == nil {
					return
				}
				pt, ok := f.Type().Underlying().(*types.Pointer)
				if !ok {
					return
				}
				if _, isStruct := pt.Elem().Underlying().(*types.Struct); !isStruct {
					return
				}
				// the field lives in a message, or carries a message taken out of one
				// (payload structs filled from responses)
				elemNamed, _ := pt.Elem().(*types.Named)
				if !isProtoPkg(f.Pkg()) && !(elemNamed != nil && isProtoPkg(elemNamed.Obj().Pkg()) && c11CarrierFields[f.Name()]) {
					return
				}
				src, srcDesc = x, "optional sub-message "+f.Name()
			case *ssa.Lookup:
				if x.CommaOk || !IsLoadOfField(x.X, unAtt) {
					return
				}
				src, srcDesc = x, "Tree.unAttached entry (wait-list ids can be stale)"
			default:
				return
			}
			if why, ok := c11NilExempt[FuncName(TopFunc(fn))]; ok {
				c.Hold("C11.R-nil", FuncName(fn)+"|"+srcDesc+" (exempt)", p.Pos(InstrPos(in)), "enumerated exception: "+why)
				return
			}
			// uses of src in this function
			refs := src.(ssa.Value).Referrers()
			if refs == nil {
				return
			}
			for _, ref := range *refs {
				bad := ""
				if refIn, isIn := ref.(ssa.Instruction); isIn && verdictGuarded(fn, src, refIn) {
					n++
					c.Hold("C11.R-nil", FuncName(fn)+"|"+srcDesc, p.Pos(InstrPos(refIn)), "use is dominated by the true verdict of a callee that answers false for a nil argument")
					continue
				}
				switch u := ref.(type) {
				case *ssa.FieldAddr:
					if u.X == src && !nilGuarded(fn, src, u) {
						bad = "field access on " + srcDesc
					}
				case *ssa.Call:
					cf := CalleeFunc(&u.Call)
					for ai, a := range u.Call.Args {
						if a != src {
							continue
						}
						if cf == nil || !IsRepoFunc(cf) || p.IsGenerated(cf) {
							continue // generated methods are nil-safe; external callees out of scope
						}
						if !nilGuarded(fn, src, u) && derefsParamUnguarded(cf, ai, 0) {
							bad = srcDesc + " passed to " + FuncName(cf) + ", which dereferences it without a nil check"
						}
					}
				default:
					continue
				}
				if _, isFA := ref.(*ssa.FieldAddr); !isFA {
					if _, isCall := ref.(*ssa.Call); !isCall {
						continue
					}
				}
				n++
				c.Check(bad == "", "C11.R-nil", FuncName(fn)+"|"+srcDesc, p.Pos(InstrPos(ref)),
					orDefault(ifs(bad != "", bad+" without a dominating nil test: a message that omits it panics the receiver"), "use of "+srcDesc+" is nil-guarded or nil-safe"))
			}
		})
	}
	c.Min("C11.R-nil", 3)
}

// ---------------------------------------------------------------- R-panic / R-assert

var c11PanicAllow = map[string]string{
	"(*" + otPkg + ".objectTree).AddContentWithValidator": "AddMergedHead failure on a locally built change (local edit path, not peer input)",
	"(*" + otPkg + ".Tree).updateHeads":                   "internal invariant ('should never happen'): heads computed from attached changes",
	"(*" + otPkg + ".Tree).makeRootAndRemove":             "internal invariant on a change that is in the tree",
	"(*" + otPkg + ".Tree).dfsPrev":                       "internal iterator invariant",
	"(*" + otPkg + ".Tree).dfsNext":                       "internal iterator invariant",
	"util/crc16.Checksum":                                 "binary.Write of a uint16 into a bytes.Buffer cannot fail; the condition is independent of the input",
}

func rPanicAssert(c *Ctx, closure []*ssa.Function) {
	p := c.P
	for _, fn := range closure {
		Instrs(fn, func(in ssa.Instruction) {
			switch x := in.(type) {
			case *ssa.Panic:
				// compiler-inserted panics have no position
				if !x.Pos().IsValid() {
					return
				}
				why, ok := c11PanicAllow[FuncName(TopFunc(fn))]
				if !ok {
					// a function split out of an enumerated one inherits its entry: every static
					// caller of it in the repository is enumerated (transitively, depth 2)
					var inherited func(f *ssa.Function, d int) (string, bool)
					inherited = func(f *ssa.Function, d int) (string, bool) {
						if w, listed := c11PanicAllow[FuncName(TopFunc(f))]; listed {
							return w, true
						}
						if d >= 2 {
							return "", false
						}
						callers := Callers(p.FuncsOfPkg(strings.TrimPrefix(strings.TrimPrefix(TopFunc(f).Pkg.Pkg.Path(), ModPath), "/")), CalleeFn(TopFunc(f)))
						if len(callers) == 0 {
							return "", false
						}
						w := ""
						for _, cs := range callers {
							cw, cok := inherited(cs.Fn, d+1)
							if !cok {
								return "", false
							}
							w = cw
						}
						return w, true
					}
					if w, inh := inherited(fn, 0); inh {
						why, ok = w+" (moved into a helper called only from the enumerated function)", true
					}
				}
				c.Check(ok, "C11.R-panic", FuncName(fn)+"|explicit panic", p.Pos(InstrPos(in)), orDefault(ifs(ok, "enumerated: "+why), "explicit panic reachable from a peer-input entry point is not in the frozen list: show that its condition cannot be derived from input, then add it with a reason"))
			case *ssa.TypeAssert:
				if x.CommaOk {
					return
				}
				// only interface values that come out of a record/message model
				f, _ := LoadedField(x.X)
				if f == nil || f.Name() != "Model" {
					return
				}
				c.Hold("C11.R-assert", FuncName(fn)+"|"+f.Name()+".("+types.TypeString(x.AssertedType, func(*types.Package) string { return "" })+")", p.Pos(InstrPos(in)),
					"single-value assertion on the record Model: its dynamic type is fixed by the unmarshal function that built the record (root id ⇒ AclRoot / RootChange, otherwise AclData / TreeChangeInfo)")
			}
		})
	}
}
