package rules

import (
	"fmt"
	"go/token"
	"sort"
	"strings"

	"golang.org/x/tools/go/ssa"

	. "verif/checker/core"
)

func init() {
	register(&Pack{
		ID: "C06",
		Explanation: "Necessary conditions of 'the order is a function of the change set' that are visible in code shape (the order itself is NOT decided): (1) determinism — the static call closure of the functions that attach changes, assign order ids, sort and iterate (Tree.Add/AddFast/AddMergedHead/RemoveInvalidChange/LeaveOnlyBefore/reduceTree, the iterator, treeBuilder.build*) contains no clock, randomness, goroutine or multi-way select, and every loop ranging over a map in it is order-insensitive (no append that stays unsorted, no early exit picking an element, no call that attaches or numbers changes) or listed with a reason; " +
			"(2) canonical child order — a change is inserted into Change.Next only by Tree.attach (every other writer only removes or compacts, building the new value from Next itself), where appending at the end is reachable only across `no children ∨ last.Id <= c.Id` and the insertion index is the first child with `Id >= c.Id` (ascending by id; or a library sort/binary search on Next); " +
			"(3) order ids — Change.OrderId is computed only by Tree.add (root) and Tree.updateHeads; every other write derives it from an existing/persisted order id; updateHeads walks the iteration buffer from its end to index 0; " +
			"(4) storage order — the key under which OrderId is persisted is the key the GetAfterOrder / GetAfterAddSeq queries sort by, ascending.",
		NotDecided: "That the presented/stored order is the same for every arrival order, batching, duplication, reduction and reopening; that order ids respect causality; the Append/Rebuild verdict. These are values of a computed order over all DAGs and histories and no sound static argument in reach bounds them.",
		Run:        runC06,
	})
}

// c06MapLoopAllow: loops over a map inside the ordering closure whose effect
// does not depend on the iteration order.
var c06MapLoopAllow = map[string]string{
	"(*commonspace/object/tree/objecttree.treeBuilder).buildWithAdded|map-range-unsorted-append": "the new (not yet stored) changes are handed to Tree.AddFast in map order: an arrival order, which the property itself quantifies over; the tree must canonicalise it",
}

func runC06(c *Ctx) {
	p := c.P
	tree := func(m string) *ssa.Function { return p.Func(otPkg + ":(*Tree)." + m) }
	attach := tree("attach")
	updateHeads := tree("updateHeads")
	add := tree("add")

	// ================================================= C06.1 determinism of the ordering closure
	{
		rule := "C06.1-order-deterministic"
		var roots []*ssa.Function
		for _, m := range []string{"Add", "AddFast", "AddMergedHead", "RemoveInvalidChange", "LeaveOnlyBefore", "IterateSkip", "IterateBranching", "Hash", "reduceTree", "makeRootAndRemove", "updateHeads", "attach", "add"} {
			roots = append(roots, tree(m))
		}
		for _, m := range []string{"BuildFull", "buildWithAdded", "build"} {
			roots = append(roots, p.Func(otPkg+":(*treeBuilder)."+m))
		}
		for _, m := range []string{"topSort", "iterate", "iterateSkip", "makeIterBuffer"} {
			roots = append(roots, p.Func(otPkg+":(*iterator)."+m))
		}
		clo := StaticClosure(roots, func(fn *ssa.Function) bool {
			if !IsRepoFunc(fn) || isTestSupport(p, fn) {
				return false
			}
			top := TopFunc(fn)
			return top.Pkg != nil && strings.HasSuffix(top.Pkg.Pkg.Path(), otPkg)
		})
		for _, fn := range clo {
			c.Fn(FuncName(fn))
		}
		finds := NondetScan(clo, nil)
		// any repo call inside a map-range loop body of the closure: the callee may attach / number changes
		cloSet := map[*ssa.Function]bool{}
		for _, fn := range clo {
			cloSet[fn] = true
		}
		for _, fn := range clo {
			for l := range MapRangeLoops(fn) {
				for b := range l.Blocks {
					for _, in := range b.Instrs {
						ci, ok := in.(ssa.CallInstruction)
						if !ok {
							continue
						}
						if cf := CalleeFunc(ci.Common()); cf != nil && cloSet[cf] {
							finds = append(finds, NondetFinding{Fn: fn, Instr: in, Kind: "map-range-calls-ordering-code", Detail: "calls " + FuncName(cf) + " once per map entry, in map order"})
						}
					}
				}
			}
		}
		nLoops := 0
		for _, fn := range clo {
			nLoops += len(MapRangeLoops(fn))
		}
		bad := 0
		seen := map[string]bool{}
		for _, f := range finds {
			key := FuncName(f.Fn) + "|" + f.Kind
			if seen[key] {
				continue
			}
			seen[key] = true
			why, ok := c06MapLoopAllow[key]
			if !ok {
				// the listed loop may sit in a part of the function that was split off since
				why, ok = c06MapLoopAllow[FuncName(effectiveOwner(p, f.Fn))+"|"+f.Kind]
			}
			if ok {
				c.Hold(rule, key, p.Pos(InstrPos(f.Instr)), "listed: "+why)
				continue
			}
			bad++
			c.Violate(rule, key, p.Pos(InstrPos(f.Instr)), f.Detail+" in "+FuncName(f.Fn)+": the order a tree presents or stores would depend on something other than the set of changes")
		}
		if bad == 0 {
			c.Hold(rule, "ordering closure|nondeterminism-sources", p.Pos(attach.Pos()),
				fmt.Sprintf("static call closure of the ordering code (%d functions, %d map-range loops) has no clock/rand/goroutine/select dependence and no order-sensitive map iteration", len(clo), nLoops))
		}
		c.Check(len(clo) >= 20, rule, "ordering closure|size", p.Pos(attach.Pos()), fmt.Sprintf("%d functions analysed", len(clo)))
	}

	// ================================================= C06.2 canonical child order
	fNext := p.Field(otPkg + ":Change.Next")
	fId := p.Field(otPkg + ":Change.Id")
	{
		// insertions into Next happen only in Tree.attach; every other writer only removes
		// (order-preserving): its value is built from Next itself, or nil
		rule := "C06.2-child-order-owner"
		otFns := p.FuncsOfPkg(otPkg)
		var fromNext func(v ssa.Value, d int) bool
		fromNext = func(v ssa.Value, d int) bool {
			if d > 20 {
				return false
			}
			switch x := v.(type) {
			case *ssa.Const:
				return x.Value == nil
			case *ssa.Slice:
				return fromNext(x.X, d+1)
			case *ssa.Phi:
				for _, e := range x.Edges {
					if !fromNext(e, d+1) {
						return false
					}
				}
				return true
			case *ssa.Call:
				if b, ok := x.Call.Value.(*ssa.Builtin); ok && b.Name() == "append" {
					for _, a := range x.Call.Args {
						if !fromNext(a, d+1) {
							return false
						}
					}
					return true
				}
				if o := CalleeObj(&x.Call); o != nil && o.Name() == "DiscardFromSlice" && len(x.Call.Args) > 0 {
					return fromNext(x.Call.Args[0], d+1)
				}
				return false
			}
			if f, _ := LoadedField(v); f == fNext {
				return true
			}
			vals, unk := Origins(v)
			if unk || len(vals) == 0 {
				return false
			}
			for _, o := range vals {
				if o == v || !fromNext(o, d+1) {
					return false
				}
			}
			return true
		}
		for _, w := range FieldWrites(otFns, fNext) {
			if isTestSupport(p, w.Fn) || w.Kind == "init" {
				continue
			}
			c.Fn(FuncName(w.Fn))
			construct := fmt.Sprintf("%s|%s of Change.Next", FuncName(w.Fn), w.Kind)
			if w.Val == nil || fromNext(w.Val, 0) {
				c.Hold(rule, construct, p.Pos(InstrPos(w.Instr)), "removal / compaction: the new value is built from Next itself (order-preserving)")
				continue
			}
			ok := effectiveOwner(p, w.Fn) == attach // (a part of attach split off into a new function still counts)
			c.Check(ok, rule, construct, p.Pos(InstrPos(w.Instr)),
				orDefault(map[bool]string{false: "a change is inserted into Change.Next outside Tree.attach: the sorted-children invariant has a second writer"}[ok], "insertion performed by Tree.attach"))
		}
		c.Min(rule, 4)
	}
	{
		rule := "C06.2-ascending-insert"
		attach := attach
		// inserting writes: stores/appends that put the attached change (parameter c) into Next
		cParam := attach.Params[1]
		if ins := descendToWrites(attach, fNext); ins != attach {
			// the ordered insertion was moved into a function of its own: decide it there, for
			// the parameter that receives the attached change
			var mapped *ssa.Parameter
			for _, ci := range CallsIn(attach) {
				if CalleeFunc(ci.Common()) != ins {
					continue
				}
				for i, a := range ci.Common().Args {
					if a == ssa.Value(cParam) && i < len(ins.Params) {
						mapped = ins.Params[i]
					}
				}
			}
			if mapped != nil {
				attach, cParam = ins, mapped
			}
		}
		c.Fn(FuncName(attach))
		isC := func(v ssa.Value) bool { return v == cParam }
		var endAppends, midStores []ssa.Instruction
		usesSort := false
		for _, ci := range CallsIn(attach) {
			o := CalleeObj(ci.Common())
			if o != nil && o.Pkg() != nil && (o.Pkg().Path() == "sort" || strings.HasSuffix(o.Pkg().Path(), "slices")) {
				for _, a := range ci.Common().Args {
					if usesValue(a, isFieldLoadPred(fNext)) {
						usesSort = true
					}
				}
			}
		}
		for _, w := range FieldWrites([]*ssa.Function{attach}, fNext) {
			switch w.Kind {
			case "store":
				for _, ap := range appendsFeeding(w.Val) {
					for _, e := range appendedElems(ap) {
						if isC(e) {
							endAppends = append(endAppends, w.Instr)
						}
					}
				}
			case "elemstore":
				if isC(w.Val) {
					midStores = append(midStores, w.Instr)
				}
			}
		}
		if usesSort {
			c.Hold(rule, FuncName(attach)+"|children kept sorted", p.Pos(attach.Pos()), "attach orders Next through a library sort / binary search")
		} else {
			// (a) append at the end only across  len(Next)==0  or  last.Id <= c.Id
			isIdOf := func(v ssa.Value, ofC bool) bool {
				f, base := LoadedField(v)
				if f != fId {
					return false
				}
				vals, _ := Origins(base)
				for _, o := range vals {
					if (o == cParam) != ofC {
						return false
					}
				}
				return len(vals) > 0
			}
			gLast := GCmp("last.Id <= c.Id", func(a Atom) (bool, bool) {
				switch a.Op {
				case token.LEQ, token.LSS:
					if isIdOf(a.X, false) && isIdOf(a.Y, true) {
						return true, true
					}
				case token.GEQ, token.GTR:
					if isIdOf(a.X, true) && isIdOf(a.Y, false) {
						return true, true
					}
				}
				// the reversed comparisons of the same operands are matched too, with the opposite pass edge,
				// so that a flipped comparator is reported as a bypass rather than as a missing gate
				switch a.Op {
				case token.GEQ, token.GTR:
					if isIdOf(a.X, false) && isIdOf(a.Y, true) {
						return true, false
					}
				case token.LEQ, token.LSS:
					if isIdOf(a.X, true) && isIdOf(a.Y, false) {
						return true, false
					}
				}
				return false, false
			})
			gEmpty := GCmp("len(prev.Next)==0", func(a Atom) (bool, bool) {
				if a.Op != token.EQL && a.Op != token.NEQ {
					return false, false
				}
				if !IsLenOfField(a.X, fNext) {
					return false, false
				}
				if k, ok := IntConst(a.Y); !ok || k != 0 {
					return false, false
				}
				return true, a.Op == token.EQL
			})
			if len(endAppends) == 0 {
				c.Violate(rule, FuncName(attach)+"|append at end", p.Pos(attach.Pos()), "attach no longer appends the new change to prev.Next (rule table out of date)")
			} else {
				c.RequireAnyGate(rule, attach, []Gate{gLast, gEmpty}, nil, endAppends, "append of c at the end of prev.Next", nil, false)
			}
			// (b) the in-place insertion: the index c is stored at, relative to the scan variable at the
			// exit of the scanning loop, against the truth of `el.Id >= c.Id` on that exit edge:
			//   index == scan var    and  el >= c holds      → inserts before the first greater-or-equal child  (ok)
			//   index == scan var+1  and  el >= c fails      → inserts after the last smaller child              (ok)
			//   index == scan var    and  el >= c fails      → inserts BEFORE a smaller child                    (wrong)
			//   index == scan var+1  and  el >= c holds      → inserts AFTER a greater child                     (wrong)
			// any other shape is not recognised and this clause is then not decided (silent).
			var storeIdx ssa.Value
			var storeIn ssa.Instruction
			for _, in := range midStores {
				st := in.(*ssa.Store)
				if ia, ok := st.Addr.(*ssa.IndexAddr); ok {
					storeIdx, storeIn = ia.Index, in
				}
			}
			type exitFact struct {
				pos    token.Pos
				rel    int // 0, +1, 99 unknown
				geq    bool
				reason string
			}
			var facts []exitFact
			loops := Loops(attach)
			if storeIdx != nil {
				for _, b := range attach.Blocks {
					iff, ok := b.Instrs[len(b.Instrs)-1].(*ssa.If)
					if !ok {
						continue
					}
					a := AtomOf(iff)
					var elId ssa.Value
					geWhenTrue := false
					switch {
					case isIdOf(a.X, false) && isIdOf(a.Y, true):
						elId = a.X
						geWhenTrue = a.Op == token.GEQ || a.Op == token.GTR
					case isIdOf(a.X, true) && isIdOf(a.Y, false):
						elId = a.Y
						geWhenTrue = a.Op == token.LEQ || a.Op == token.LSS
					default:
						continue
					}
					switch a.Op {
					case token.GEQ, token.GTR, token.LEQ, token.LSS:
					default:
						continue
					}
					// the scanned element's index
					var x ssa.Value
					_, base := LoadedField(elId)
					vals, _ := Origins(base)
					for _, o := range vals {
						if u, ok := o.(*ssa.UnOp); ok {
							if ia, ok := u.X.(*ssa.IndexAddr); ok && IsLoadOfField(ia.X, fNext) {
								x = ia.Index
							}
						}
					}
					l := InnermostLoop(loops, iff)
					if x == nil || l == nil {
						continue
					}
					for si, succ := range b.Succs {
						if l.Blocks[succ] {
							continue
						}
						// follow jump-only blocks
						from, m := b, succ
						for len(m.Instrs) == 1 && len(m.Succs) == 1 {
							if _, isJ := m.Instrs[0].(*ssa.Jump); !isJ {
								break
							}
							from, m = m, m.Succs[0]
						}
						r := Reach(attach, ReachOpts{Starts: []*ssa.BasicBlock{succ}})
						if !r.Reachable(storeIn) {
							continue
						}
						kv := storeIdx
						if ph, ok := storeIdx.(*ssa.Phi); ok && ph.Block() == m {
							for pi, pr := range m.Preds {
								if pr == from {
									kv = ph.Edges[pi]
								}
							}
						}
						rel := 99
						if kv == x {
							rel = 0
						} else if bo, ok := kv.(*ssa.BinOp); ok && bo.Op == token.ADD && bo.X == x {
							if k, ok := IntConst(bo.Y); ok && k == 1 {
								rel = 1
							}
						}
						atomTrue := si == a.TrueSucc()
						geq := geWhenTrue == atomTrue
						facts = append(facts, exitFact{iff.Pos(), rel, geq, ""})
					}
				}
			}
			bad, good := "", 0
			for _, f := range facts {
				switch {
				case f.rel == 0 && f.geq, f.rel == 1 && !f.geq:
					good++
				case f.rel == 0 && !f.geq:
					bad = "c is stored at the index of a child whose Id is SMALLER than c.Id (scan exit at " + p.Pos(f.pos) + "): it is inserted before a smaller sibling, so Next is not ascending for a middle id"
				case f.rel == 1 && f.geq:
					bad = "c is stored after a child whose Id is GREATER OR EQUAL (scan exit at " + p.Pos(f.pos) + ")"
				}
			}
			switch {
			case len(midStores) == 0:
				c.Violate(rule, FuncName(attach)+"|insertion index", p.Pos(attach.Pos()), "attach has no in-place insertion of c into prev.Next")
			case bad != "":
				c.Violate(rule, FuncName(attach)+"|insertion index", p.Pos(InstrPos(storeIn)), bad)
			case good > 0:
				c.Hold(rule, FuncName(attach)+"|insertion index", p.Pos(InstrPos(storeIn)), "c is stored at the first child whose Id is >= c.Id (or right after the last smaller one)")
			default:
				c.Hold(rule, FuncName(attach)+"|insertion index", p.Pos(InstrPos(storeIn)), "the scan that chooses the insertion index has a shape this rule does not recognise: clause not decided")
				c.Note("C06.2: insertion-index scan shape not recognised; not decided")
			}
		}
		c.Min(rule, 1)
	}

	// ================================================= C06.3 order ids
	{
		rule := "C06.3-order-id-writers"
		fOrder := p.Field(otPkg + ":Change.OrderId")
		allowed := map[*ssa.Function]string{
			add:         "first element of an empty tree",
			updateHeads: "fills ids between numbered neighbours along the iteration buffer",
		}
		n := 0
		for _, w := range FieldWrites(p.FuncsOfPkg(otPkg), fOrder) {
			if isTestSupport(p, w.Fn) || w.Kind == "init" {
				continue
			}
			top := TopFunc(w.Fn)
			n++
			c.Fn(FuncName(w.Fn))
			if _, ok := allowed[top]; ok {
				c.Hold(rule, FuncName(w.Fn)+"|assigns Change.OrderId", p.Pos(InstrPos(w.Instr)), allowed[top])
				continue
			}
			// loading: the value comes from storage (StorageChange.OrderId) or from another change
			fromStorage := usesValue(w.Val, func(v ssa.Value) bool {
				f, _ := LoadedField(v)
				return f != nil && f.Name() == "OrderId"
			})
			c.Check(fromStorage, rule, FuncName(w.Fn)+"|assigns Change.OrderId", p.Pos(InstrPos(w.Instr)),
				orDefault(map[bool]string{false: "Change.OrderId is computed outside Tree.add / Tree.updateHeads and is not copied from a stored order id: a second numbering scheme"}[fromStorage], "derived from a persisted / existing order id"))
		}
		c.Min(rule, 3)
		// updateHeads walks the buffer from the end to index 0
		found := false
		for _, l := range Loops(updateHeads) {
			if init, ok := l.CountsDownToZero(); ok {
				// init is len(<iteration buffer>) - 1
				if bo, isB := init.(*ssa.BinOp); isB && bo.Op == token.SUB {
					if lc, isC := bo.X.(*ssa.Call); isC {
						if b, isBi := lc.Call.Value.(*ssa.Builtin); isBi && b.Name() == "len" && valueIsResultOf(lc.Call.Args[0], CalleeFn(p.Func(otPkg+":(*iterator).makeIterBuffer"))) {
							found = true
						}
					}
				}
			}
		}
		c.Check(found, "C06.3-order-id-walk", FuncName(updateHeads)+"|walks iteration buffer last→0", p.Pos(updateHeads.Pos()),
			orDefault(map[bool]string{false: "updateHeads no longer visits the whole iteration buffer from its end down to index 0"}[found], "every change of the buffer is visited once, in iteration order"))
	}

	// ================================================= C06.5 the head presented last
	{
		rule := "C06.5-last-iterated-head"
		c.Fn(FuncName(updateHeads))
		fLast := p.Field(otPkg + ":Tree.lastIteratedHeadId")
		fHeads := p.Field(otPkg + ":Tree.headIds")
		iterBuf := p.Func(otPkg + ":(*iterator).makeIterBuffer")
		ws := FieldWrites([]*ssa.Function{updateHeads}, fLast)
		if len(ws) == 0 {
			c.Violate(rule, FuncName(updateHeads)+"|assigns lastIteratedHeadId", p.Pos(updateHeads.Pos()), "updateHeads no longer records the head presented last")
		}
		for _, w := range ws {
			bad := ""
			u, _ := w.Val.(*ssa.UnOp)
			var ia *ssa.IndexAddr
			if u != nil {
				ia, _ = u.X.(*ssa.IndexAddr)
			}
			if ia == nil {
				c.Hold(rule, FuncName(updateHeads)+"|assigns lastIteratedHeadId", p.Pos(InstrPos(w.Instr)), "value is not an element of a slice: shape not recognised, clause not decided")
				continue
			}
			S := ia.X
			// (a) S is filled in presentation order: its appends take the Id of elements of the iteration buffer
			fromWalk := false
			aliasHeads := false
			if IsLoadOfField(S, fHeads) {
				aliasHeads = true
			}
			var srcs []ssa.Value
			srcs = append(srcs, S)
			if aliasHeads {
				for _, hw := range FieldWrites([]*ssa.Function{updateHeads}, fHeads) {
					if hw.Kind == "store" {
						srcs = append(srcs, hw.Val)
					}
				}
			}
			for _, src := range srcs {
				for _, ap := range appendsFeeding(src) {
					for _, e := range appendedElems(ap) {
						if usesValue(e, func(v ssa.Value) bool {
							call, ok := v.(*ssa.Call)
							return ok && CalleeFn(iterBuf)(&call.Call)
						}) {
							fromWalk = true
						}
					}
				}
			}
			if !fromWalk {
				bad = "the slice lastIteratedHeadId is read from is not the list of heads collected while walking the iteration buffer"
			}
			// (b) it is the last element
			isLast := false
			if bo, ok := ia.Index.(*ssa.BinOp); ok && bo.Op == token.SUB {
				if k, ok := IntConst(bo.Y); ok && k == 1 {
					if lc, ok := bo.X.(*ssa.Call); ok {
						if bi, ok := lc.Call.Value.(*ssa.Builtin); ok && bi.Name() == "len" {
							isLast = true
						}
					}
				}
			}
			if bad == "" && !isLast {
				bad = "lastIteratedHeadId is not the LAST collected head"
			}
			// (c) no sort of that slice (or of t.headIds, which shares its backing array) can run before the read
			if bad == "" {
				stored := map[ssa.Value]bool{}
				for _, hw := range FieldWrites([]*ssa.Function{updateHeads}, fHeads) {
					if hw.Kind == "store" {
						stored[hw.Val] = true
					}
				}
				for _, ci := range CallsIn(updateHeads) {
					call, ok := ci.(*ssa.Call)
					if !ok {
						continue
					}
					o := CalleeObj(&call.Call)
					if o == nil || o.Pkg() == nil || !(o.Pkg().Path() == "sort" || strings.HasSuffix(o.Pkg().Path(), "slices")) || !strings.Contains(o.Name(), "Sort") && o.Name() != "Strings" && o.Name() != "Slice" {
						continue
					}
					alias := false
					for _, a := range call.Call.Args {
						if a == S || (IsLoadOfField(a, fHeads) && (aliasHeads || stored[S])) || shareOriginDeep(a, S) {
							alias = true
						}
					}
					if !alias {
						continue
					}
					r := Reach(updateHeads, ReachOpts{From: call})
					if r.Reachable(u) {
						bad = "the head list is sorted (" + p.Pos(call.Pos()) + ") before lastIteratedHeadId is read from it: the recorded head is the greatest id, not the head presented last"
					}
				}
			}
			c.Check(bad == "", rule, FuncName(updateHeads)+"|assigns lastIteratedHeadId", p.Pos(InstrPos(w.Instr)), orDefault(bad, "lastIteratedHeadId is the last head collected in presentation order, read before any sorting"))
		}
	}

	// ================================================= C06.4 storage order key
	{
		rule := "C06.4-storage-order-key"
		writer := p.Func(otPkg + ":newStorageChangeValue")
		c.Fn(FuncName(writer))
		fSCOrder := p.Field(otPkg + ":StorageChange.OrderId")
		var writeKey string
		for _, ci := range CallsIn(writer) {
			cc := ci.Common()
			o := CalleeObj(cc)
			if o == nil || o.Name() != "Set" {
				continue
			}
			args := callArgs(cc)
			if len(args) != 2 || !usesValue(args[1], isFieldLoadPred(fSCOrder)) {
				continue
			}
			if k, ok := args[0].(*ssa.Const); ok && k.Value != nil {
				writeKey = k.Value.ExactString()
			}
		}
		c.Check(writeKey != "", rule, FuncName(writer)+"|key of OrderId", p.Pos(writer.Pos()), "OrderId is persisted under key "+writeKey)
		var names []string
		for _, m := range []string{"GetAfterOrder", "GetAfterAddSeq"} {
			fn := p.Func(otPkg + ":(*storage)." + m)
			c.Fn(FuncName(fn))
			names = append(names, m)
			got := ""
			for _, ci := range CallsIn(fn) {
				cc := ci.Common()
				o := CalleeObj(cc)
				if o == nil || o.Name() != "Sort" || o.Pkg() == nil || !strings.Contains(o.Pkg().Path(), "any-store") {
					continue
				}
				var ks []string
				for _, a := range callArgs(cc) {
					for _, v := range variadicConsts(a) {
						ks = append(ks, v)
					}
				}
				got = strings.Join(ks, ",")
			}
			ok := writeKey != "" && got == writeKey
			c.Check(ok, rule, FuncName(fn)+"|sort key", p.Pos(fn.Pos()), orDefault(map[bool]string{false: "the query sorts by [" + got + "], not ascending by the key OrderId is stored under (" + writeKey + ")"}[ok], "changes are returned ascending by the persisted OrderId key "+writeKey))
		}
		sort.Strings(names)
	}
}
