package rules

import (
	"fmt"
	"go/token"
	"sort"
	"strings"

	"golang.org/x/tools/go/ssa"

	. "verif/checker/core"
)

func init() {
	register(&Pack{
		ID: "C06",
		Explanation: "Necessary conditions of 'the order is a function of the change set' that are visible in code shape (the order itself is NOT decided): (1) determinism — the static call closure of the functions that attach changes, assign order ids, sort and iterate (Tree.Add/AddFast/AddMergedHead/RemoveInvalidChange/LeaveOnlyBefore/reduceTree, the iterator, treeBuilder.build*) contains no clock, randomness, goroutine or multi-way select, and every loop ranging over a map in it is order-insensitive (no append that stays unsorted, no early exit picking an element, no call that attaches or numbers changes) or listed with a reason; " +
			"(2) canonical child order — a change is inserted into Change.Next only by Tree.attach (every other writer only removes or compacts, building the new value from Next itself), where appending at the end is reachable only across `no children ∨ last.Id <= c.Id` and the insertion index is the first child with `Id >= c.Id` (ascending by id; or a library sort/binary search on Next); " +
			"(3) order ids — Change.OrderId is computed only by Tree.add (root) and Tree.updateHeads; every other write derives it from an existing/persisted order id; updateHeads walks the iteration buffer from its end to index 0; " +
			"(4) storage order — the key under which OrderId is persisted is the key the GetAfterOrder / GetAfterAddSeq queries sort by, ascending.",
		NotDecided: "That the presented/stored order is the same for every arrival order, batching, duplication, reduction and reopening; that order ids respect causality; the Append/Rebuild verdict. These are values of a computed order over all DAGs and histories and no sound static argument in reach bounds them.",
		Run:        runC06,
	})
}

// c06MapLoopAllow: loops over a map inside the ordering closure whose effect
// does not depend on the iteration order.
var c06MapLoopAllow = map[string]string{
	"(*commonspace/object/tree/objecttree.treeBuilder).buildWithAdded|map-range-unsorted-append": "the new (not yet stored) changes are handed to Tree.AddFast in map order: an arrival order, which the property itself quantifies over; the tree must canonicalise it",
}

func runC06(c *Ctx) {
	p := c.P
	tree := func(m string) *ssa.Function { return p.Func(otPkg + ":(*Tree)." + m) }
	attach := tree("attach")
	updateHeads := tree("updateHeads")
	add := tree("add")

	// ================================================= C06.1 determinism of the ordering closure
	{
		rule := "C06.1-order-deterministic"
		var roots []*ssa.Function
		for _, m := range []string{"Add", "AddFast", "AddMergedHead", "RemoveInvalidChange", "LeaveOnlyBefore", "IterateSkip", "IterateBranching", "Hash", "reduceTree", "makeRootAndRemove", "updateHeads", "attach", "add"} {
			roots = append(roots, tree(m))
		}
		for _, m := range []string{"BuildFull", "buildWithAdded", "build"} {
			roots = append(roots, p.Func(otPkg+":(*treeBuilder)."+m))
		}
		for _, m := range []string{"topSort", "iterate", "iterateSkip", "makeIterBuffer"} {
			roots = append(roots, p.Func(otPkg+":(*iterator)."+m))
		}
		clo := StaticClosure(roots, func(fn *ssa.Function) bool {
			if !IsRepoFunc(fn) || isTestSupport(p, fn) {
				return false
			}
			top := TopFunc(fn)
			return top.Pkg != nil && strings.HasSuffix(top.Pkg.Pkg.Path(), otPkg)
		})
		for _, fn := range clo {
			c.Fn(FuncName(fn))
		}
		finds := NondetScan(clo, nil)
		// any repo call inside a map-range loop body of the closure: the callee may attach / number changes
		cloSet := map[*ssa.Function]bool{}
		for _, fn := range clo {
			cloSet[fn] = true
		}
		for _, fn := range clo {
			for l := range MapRangeLoops(fn) {
				for b := range l.Blocks {
					for _, in := range b.Instrs {
						ci, ok := in.(ssa.CallInstruction)
						if !ok {
							continue
						}
						if cf := CalleeFunc(ci.Common()); cf != nil && cloSet[cf] {
							finds = append(finds, NondetFinding{Fn: fn, Instr: in, Kind: "map-range-calls-ordering-code", Detail: "calls " + FuncName(cf) + " once per map entry, in map order"})
						}
					}
				}
			}
		}
		nLoops := 0
		for _, fn := range clo {
			nLoops += len(MapRangeLoops(fn))
		}
		bad := 0
		seen := map[string]bool{}
		for _, f := range finds {
			key := FuncName(f.Fn) + "|" + f.Kind
			if seen[key] {
				continue
			}
			seen[key] = true
			if why, ok := c06MapLoopAllow[key]; ok {
				c.Hold(rule, key, p.Pos(InstrPos(f.Instr)), "listed: "+why)
				continue
			}
			bad++
			c.Violate(rule, key, p.Pos(InstrPos(f.Instr)), f.Detail+" in "+FuncName(f.Fn)+": the order a tree presents or stores would depend on something other than the set of changes")
		}
		if bad == 0 {
			c.Hold(rule, "ordering closure|nondeterminism-sources", p.Pos(attach.Pos()),
				fmt.Sprintf("static call closure of the ordering code (%d functions, %d map-range loops) has no clock/rand/goroutine/select dependence and no order-sensitive map iteration", len(clo), nLoops))
		}
		c.Check(len(clo) >= 20, rule, "ordering closure|size", p.Pos(attach.Pos()), fmt.Sprintf("%d functions analysed", len(clo)))
	}

	// ================================================= C06.2 canonical child order
	fNext := p.Field(otPkg + ":Change.Next")
	fId := p.Field(otPkg + ":Change.Id")
	{
		// insertions into Next happen only in Tree.attach; every other writer only removes
		// (order-preserving): its value is built from Next itself, or nil
		rule := "C06.2-child-order-owner"
		otFns := p.FuncsOfPkg(otPkg)
		var fromNext func(v ssa.Value, d int) bool
		fromNext = func(v ssa.Value, d int) bool {
			if d > 20 {
				return false
			}
			switch x := v.(type) {
			case *ssa.Const:
				return x.Value == nil
			case *ssa.Slice:
				return fromNext(x.X, d+1)
			case *ssa.Phi:
				for _, e := range x.Edges {
					if !fromNext(e, d+1) {
						return false
					}
				}
				return true
			case *ssa.Call:
				if b, ok := x.Call.Value.(*ssa.Builtin); ok && b.Name() == "append" {
					for _, a := range x.Call.Args {
						if !fromNext(a, d+1) {
							return false
						}
					}
					return true
				}
				if o := CalleeObj(&x.Call); o != nil && o.Name() == "DiscardFromSlice" && len(x.Call.Args) > 0 {
					return fromNext(x.Call.Args[0], d+1)
				}
				return false
			}
			if f, _ := LoadedField(v); f == fNext {
				return true
			}
			vals, unk := Origins(v)
			if unk || len(vals) == 0 {
				return false
			}
			for _, o := range vals {
				if o == v || !fromNext(o, d+1) {
					return false
				}
			}
			return true
		}
		for _, w := range FieldWrites(otFns, fNext) {
			if isTestSupport(p, w.Fn) || w.Kind == "init" {
				continue
			}
			c.Fn(FuncName(w.Fn))
			construct := fmt.Sprintf("%s|%s of Change.Next", FuncName(w.Fn), w.Kind)
			if w.Val == nil || fromNext(w.Val, 0) {
				c.Hold(rule, construct, p.Pos(InstrPos(w.Instr)), "removal / compaction: the new value is built from Next itself (order-preserving)")
				continue
			}
			ok := TopFunc(w.Fn) == attach
			c.Check(ok, rule, construct, p.Pos(InstrPos(w.Instr)),
				orDefault(map[bool]string{false: "a change is inserted into Change.Next outside Tree.attach: the sorted-children invariant has a second writer"}[ok], "insertion performed by Tree.attach"))
		}
		c.Min(rule, 4)
	}
	{
		rule := "C06.2-ascending-insert"
		c.Fn(FuncName(attach))
		// inserting writes: stores/appends that put the attached change (parameter c) into Next
		cParam := attach.Params[1]
		isC := func(v ssa.Value) bool { return v == cParam }
		var endAppends, midStores []ssa.Instruction
		usesSort := false
		for _, ci := range CallsIn(attach) {
			o := CalleeObj(ci.Common())
			if o != nil && o.Pkg() != nil && (o.Pkg().Path() == "sort" || strings.HasSuffix(o.Pkg().Path(), "slices")) {
				for _, a := range ci.Common().Args {
					if usesValue(a, isFieldLoadPred(fNext)) {
						usesSort = true
					}
				}
			}
		}
		for _, w := range FieldWrites([]*ssa.Function{attach}, fNext) {
			switch w.Kind {
			case "store":
				for _, ap := range appendsFeeding(w.Val) {
					for _, e := range appendedElems(ap) {
						if isC(e) {
							endAppends = append(endAppends, w.Instr)
						}
					}
				}
			case "elemstore":
				if isC(w.Val) {
					midStores = append(midStores, w.Instr)
				}
			}
		}
		if usesSort {
			c.Hold(rule, FuncName(attach)+"|children kept sorted", p.Pos(attach.Pos()), "attach orders Next through a library sort / binary search")
		} else {
			// (a) append at the end only across  len(Next)==0  or  last.Id <= c.Id
			isIdOf := func(v ssa.Value, ofC bool) bool {
				f, base := LoadedField(v)
				if f != fId {
					return false
				}
				vals, _ := Origins(base)
				for _, o := range vals {
					if (o == cParam) != ofC {
						return false
					}
				}
				return len(vals) > 0
			}
			gLast := GCmp("last.Id <= c.Id", func(a Atom) (bool, bool) {
				switch a.Op {
				case token.LEQ, token.LSS:
					if isIdOf(a.X, false) && isIdOf(a.Y, true) {
						return true, true
					}
				case token.GEQ, token.GTR:
					if isIdOf(a.X, true) && isIdOf(a.Y, false) {
						return true, true
					}
				}
				// the reversed comparisons of the same operands are matched too, with the opposite pass edge,
				// so that a flipped comparator is reported as a bypass rather than as a missing gate
				switch a.Op {
				case token.GEQ, token.GTR:
					if isIdOf(a.X, false) && isIdOf(a.Y, true) {
						return true, false
					}
				case token.LEQ, token.LSS:
					if isIdOf(a.X, true) && isIdOf(a.Y, false) {
						return true, false
					}
				}
				return false, false
			})
			gEmpty := GCmp("len(prev.Next)==0", func(a Atom) (bool, bool) {
				if a.Op != token.EQL && a.Op != token.NEQ {
					return false, false
				}
				if !IsLenOfField(a.X, fNext) {
					return false, false
				}
				if k, ok := IntConst(a.Y); !ok || k != 0 {
					return false, false
				}
				return true, a.Op == token.EQL
			})
			if len(endAppends) == 0 {
				c.Violate(rule, FuncName(attach)+"|append at end", p.Pos(attach.Pos()), "attach no longer appends the new change to prev.Next (rule table out of date)")
			} else {
				c.RequireAnyGate(rule, attach, []Gate{gLast, gEmpty}, nil, endAppends, "append of c at the end of prev.Next", nil, false)
			}
			// (b) the middle insertion stores c at an index chosen by `el.Id >= c.Id`
			gFirstGE := GCmp("el.Id >= c.Id", func(a Atom) (bool, bool) {
				switch a.Op {
				case token.GEQ, token.GTR:
					if isIdOf(a.X, false) && isIdOf(a.Y, true) {
						return true, true
					}
				case token.LEQ, token.LSS:
					if isIdOf(a.X, true) && isIdOf(a.Y, false) {
						return true, true
					}
				}
				return false, false
			})
			_, sites := gFirstGE.PassEdges(attach)
			// the index stored to comes from the loop whose exit is that comparison
			ok := len(midStores) > 0 && len(sites) > 0
			det := "the insertion index is the first child whose Id is >= c.Id"
			if len(midStores) == 0 {
				det = "attach has no in-place insertion of c into prev.Next"
			} else if len(sites) == 0 {
				det = "the insertion position of c inside prev.Next is not chosen by comparing child ids with c.Id in ascending sense (el.Id >= c.Id)"
			}
			c.Check(ok, rule, FuncName(attach)+"|insertion index", p.Pos(attach.Pos()), det)
		}
		c.Min(rule, 1)
	}

	// ================================================= C06.3 order ids
	{
		rule := "C06.3-order-id-writers"
		fOrder := p.Field(otPkg + ":Change.OrderId")
		allowed := map[*ssa.Function]string{
			add:         "first element of an empty tree",
			updateHeads: "fills ids between numbered neighbours along the iteration buffer",
		}
		n := 0
		for _, w := range FieldWrites(p.FuncsOfPkg(otPkg), fOrder) {
			if isTestSupport(p, w.Fn) || w.Kind == "init" {
				continue
			}
			top := TopFunc(w.Fn)
			n++
			c.Fn(FuncName(w.Fn))
			if _, ok := allowed[top]; ok {
				c.Hold(rule, FuncName(w.Fn)+"|assigns Change.OrderId", p.Pos(InstrPos(w.Instr)), allowed[top])
				continue
			}
			// loading: the value comes from storage (StorageChange.OrderId) or from another change
			fromStorage := usesValue(w.Val, func(v ssa.Value) bool {
				f, _ := LoadedField(v)
				return f != nil && f.Name() == "OrderId"
			})
			c.Check(fromStorage, rule, FuncName(w.Fn)+"|assigns Change.OrderId", p.Pos(InstrPos(w.Instr)),
				orDefault(map[bool]string{false: "Change.OrderId is computed outside Tree.add / Tree.updateHeads and is not copied from a stored order id: a second numbering scheme"}[fromStorage], "derived from a persisted / existing order id"))
		}
		c.Min(rule, 3)
		// updateHeads walks the buffer from the end to index 0
		found := false
		for _, l := range Loops(updateHeads) {
			if init, ok := l.CountsDownToZero(); ok {
				// init is len(<iteration buffer>) - 1
				if bo, isB := init.(*ssa.BinOp); isB && bo.Op == token.SUB {
					if lc, isC := bo.X.(*ssa.Call); isC {
						if b, isBi := lc.Call.Value.(*ssa.Builtin); isBi && b.Name() == "len" && valueIsResultOf(lc.Call.Args[0], CalleeFn(p.Func(otPkg+":(*iterator).makeIterBuffer"))) {
							found = true
						}
					}
				}
			}
		}
		c.Check(found, "C06.3-order-id-walk", FuncName(updateHeads)+"|walks iteration buffer last→0", p.Pos(updateHeads.Pos()),
			orDefault(map[bool]string{false: "updateHeads no longer visits the whole iteration buffer from its end down to index 0"}[found], "every change of the buffer is visited once, in iteration order"))
	}

	// ================================================= C06.4 storage order key
	{
		rule := "C06.4-storage-order-key"
		writer := p.Func(otPkg + ":newStorageChangeValue")
		c.Fn(FuncName(writer))
		fSCOrder := p.Field(otPkg + ":StorageChange.OrderId")
		var writeKey string
		for _, ci := range CallsIn(writer) {
			cc := ci.Common()
			o := CalleeObj(cc)
			if o == nil || o.Name() != "Set" {
				continue
			}
			args := callArgs(cc)
			if len(args) != 2 || !usesValue(args[1], isFieldLoadPred(fSCOrder)) {
				continue
			}
			if k, ok := args[0].(*ssa.Const); ok && k.Value != nil {
				writeKey = k.Value.ExactString()
			}
		}
		c.Check(writeKey != "", rule, FuncName(writer)+"|key of OrderId", p.Pos(writer.Pos()), "OrderId is persisted under key "+writeKey)
		var names []string
		for _, m := range []string{"GetAfterOrder", "GetAfterAddSeq"} {
			fn := p.Func(otPkg + ":(*storage)." + m)
			c.Fn(FuncName(fn))
			names = append(names, m)
			got := ""
			for _, ci := range CallsIn(fn) {
				cc := ci.Common()
				o := CalleeObj(cc)
				if o == nil || o.Name() != "Sort" || o.Pkg() == nil || !strings.Contains(o.Pkg().Path(), "any-store") {
					continue
				}
				var ks []string
				for _, a := range callArgs(cc) {
					for _, v := range variadicConsts(a) {
						ks = append(ks, v)
					}
				}
				got = strings.Join(ks, ",")
			}
			ok := writeKey != "" && got == writeKey
			c.Check(ok, rule, FuncName(fn)+"|sort key", p.Pos(fn.Pos()), orDefault(map[bool]string{false: "the query sorts by [" + got + "], not ascending by the key OrderId is stored under (" + writeKey + ")"}[ok], "changes are returned ascending by the persisted OrderId key "+writeKey))
		}
		sort.Strings(names)
	}
}
