package rules

import (
	"fmt"
	"go/token"
	"go/types"
	"strings"

	"golang.org/x/tools/go/ssa"

	. "verif/checker/core"
)

func init() {
	register(&Pack{
		ID: "C10",
		Explanation: "Transaction discipline and memory/storage alignment, decided on every path of every any-store WriteTx site in the repository (rule T) and of the tree/ACL/key-value write paths (rules M, E): " +
			"T1 every path from a successful WriteTx to an exit passes Commit or Rollback; T2 Commit is unreachable from the failing edge of any fallible step (inline form), or — deferred commit-or-rollback form — the closure commits only across err==nil of the function's NAMED error result, so that every return value decides the verdict and Commit's own error is returned; " +
			"T3 every storage mutator / context-writing callee between open and commit receives a context derived from tx.Context() of that tx; T4 functions that perform two or more writes through their context parameter are only ever called with a tx-derived context (or from such a function); " +
			"M after an in-memory mutation of a live tree / ACL list / deferred storage / key-value index, every error exit passes the object's realign operation (rollback, rebuildFromStorage, index undo, reset); " +
			"E no error returned by a storage call inside those functions is discarded (enumerated exceptions: Rollback, iterator Close).",
		NotDecided:  "any-store's own crash atomicity and durability of a committed WriteTx (trusted); validity of the object reopened from storage; that realign operations restore exactly the pre-operation state (value level).",
		Assumptions: []string{"a committed any-store WriteTx is atomic and durable; a rolled-back one leaves no trace"},
		Run:         runC10,
	})
}

const anystorePath = "github.com/anyproto/any-store"

func isAnystoreMethod(o *types.Func, names ...string) bool {
	if o == nil || o.Pkg() == nil || o.Pkg().Path() != anystorePath {
		return false
	}
	for _, n := range names {
		if o.Name() == n {
			return true
		}
	}
	return false
}

var mutatorNames = []string{"Insert", "UpsertOne", "UpsertId", "UpdateOne", "UpdateId", "DeleteId", "Delete", "Update", "EnsureIndex", "DropIndex", "Collection", "CreateCollection", "Rename", "Drop"}

// isMutatorCall: any-store mutators, HeadStorage.UpdateEntry/DeleteEntry.
func isMutatorCall(c *ssa.CallCommon) bool {
	o := CalleeObj(c)
	if o == nil || o.Pkg() == nil {
		return false
	}
	if isAnystoreMethod(o, mutatorNames...) {
		// only methods with a context first argument
		return true
	}
	if strings.HasSuffix(o.Pkg().Path(), "headsync/headstorage") && (o.Name() == "UpdateEntry" || o.Name() == "DeleteEntry") {
		return true
	}
	return false
}

func isCtxType(t types.Type) bool {
	n, ok := t.(*types.Named)
	return ok && n.Obj().Pkg() != nil && n.Obj().Pkg().Path() == "context" && n.Obj().Name() == "Context"
}

// ctxArg returns the context.Context argument of a call (first such), or nil.
func ctxArg(c *ssa.CallCommon) ssa.Value {
	for _, a := range c.Args {
		if isCtxType(a.Type()) {
			return a
		}
	}
	return nil
}

func ctxParam(fn *ssa.Function) *ssa.Parameter {
	for _, p := range fn.Params {
		if isCtxType(p.Type()) {
			return p
		}
	}
	return nil
}

// originsAre: all origins of v satisfy pred (closure free variables resolve to
// the captured cell's stores in the parent when possible).
func originsAll(v ssa.Value, pred func(ssa.Value) bool) bool {
	vals, unknown := Origins(v)
	if len(vals) == 0 {
		return false
	}
	for _, o := range vals {
		if !pred(o) {
			return false
		}
	}
	_ = unknown
	return true
}

func runC10(c *Ctx) {
	p := c.P
	prod := prodFuncs(p)
	isWriteTx := func(cc *ssa.CallCommon) bool { return isAnystoreMethod(CalleeObj(cc), "WriteTx") }
	isCommit := func(cc *ssa.CallCommon) bool { return isAnystoreMethod(CalleeObj(cc), "Commit") }
	isRollback := func(cc *ssa.CallCommon) bool { return isAnystoreMethod(CalleeObj(cc), "Rollback") }
	isTxContext := func(cc *ssa.CallCommon) bool {
		o := CalleeObj(cc)
		return isAnystoreMethod(o, "Context") && o.Type().(*types.Signature).Recv() != nil && strings.Contains(o.Type().(*types.Signature).Recv().Type().String(), "Tx")
	}

	// ---- ctx-writing functions: fixpoint
	type cw struct{ writes int }
	writers := map[*ssa.Function]*cw{}
	for changed := true; changed; {
		changed = false
		for _, fn := range prod {
			cp := ctxParam(fn)
			if cp == nil {
				continue
			}
			n := 0
			for _, cs := range CallsIn(fn) {
				cc := cs.Common()
				a := ctxArg(cc)
				if a == nil || !originsAll(a, func(o ssa.Value) bool { return o == cp }) {
					continue
				}
				if isMutatorCall(cc) {
					n++
				} else if cf := CalleeFunc(cc); cf != nil && writers[cf] != nil {
					n += writers[cf].writes
				}
			}
			// writes inside loops count twice
			if n > 0 && (writers[fn] == nil || writers[fn].writes != n) {
				if writers[fn] == nil || n > writers[fn].writes {
					writers[fn] = &cw{n}
					changed = true
				}
			}
		}
	}
	isCtxWriter := func(cc *ssa.CallCommon) bool {
		if isMutatorCall(cc) {
			return true
		}
		if cf := CalleeFunc(cc); cf != nil && writers[cf] != nil {
			return true
		}
		return false
	}

	// ---- rule T over all WriteTx sites
	nTx := 0
	for _, fn := range prod {
		opens := CallSinks(fn, isWriteTx, false)
		if len(opens) == 0 {
			continue
		}
		if len(opens) != 1 {
			c.Violate("C10.T1-commit-or-rollback", FuncName(fn)+"|single-tx", p.Pos(fn.Pos()), fmt.Sprintf("%d WriteTx calls in one function; rule expects one transaction per function", len(opens)))
			continue
		}
		nTx++
		c.Fn(FuncName(fn))
		open := opens[0].(*ssa.Call)
		name := FuncName(fn)
		// success edge of WriteTx
		gOpen := GErrNil("WriteTx()==nil", func(cc *ssa.CallCommon) bool { return cc == &open.Call })
		edges, sites := gOpen.PassEdges(fn)
		var starts []*ssa.BasicBlock
		for _, s := range sites {
			for si, succ := range s.Block().Succs {
				if edges[Edge{From: s.Block(), Succ: si}] {
					starts = append(starts, succ)
				}
			}
		}
		if len(starts) == 0 {
			c.Violate("C10.T1-commit-or-rollback", name+"|WriteTx-error-tested", p.Pos(InstrPos(open)), "the error of WriteTx is not tested")
			continue
		}
		endTx := func(cc *ssa.CallCommon) bool { return isCommit(cc) || isRollback(cc) }
		// T1
		{
			r := Reach(fn, ReachOpts{Starts: starts, Cut: CutAtCall(endTx)})
			bad := ""
			for _, ret := range Returns(fn) {
				if r.Reachable(ret) {
					bad = "an exit at " + p.Pos(InstrPos(ret)) + " is reachable after WriteTx without Commit or Rollback (witness " + r.Path(p, ret) + "): the write transaction stays open"
				}
			}
			c.Check(bad == "", "C10.T1-commit-or-rollback", name+"|all-exits", p.Pos(InstrPos(open)), orDefault(bad, "every exit after a successful WriteTx passes Commit or Rollback (deferred ones included)"))
		}
		// find deferred commit-or-rollback closure
		var deferClosure *ssa.Function
		Instrs(fn, func(in ssa.Instruction) {
			if d, ok := in.(*ssa.Defer); ok {
				if mc, ok := d.Call.Value.(*ssa.MakeClosure); ok {
					if f := mc.Fn.(*ssa.Function); ContainsCall(f, isCommit) {
						deferClosure = f
					}
				}
			}
		})
		if deferClosure != nil {
			c.Fn(FuncName(deferClosure))
			// closure: Commit gated by captured err == nil
			var cell *ssa.FreeVar
			g := GCmp("captured err == nil", func(a Atom) (bool, bool) {
				if a.Op != token.EQL && a.Op != token.NEQ {
					return false, false
				}
				var x ssa.Value
				if IsNilConst(a.Y) {
					x = a.X
				} else if IsNilConst(a.X) {
					x = a.Y
				} else {
					return false, false
				}
				ld, ok := BoundValue(x).(*ssa.UnOp) // inside an extracted commit-or-rollback helper the error is a parameter
				if !ok || ld.Op != token.MUL {
					return false, false
				}
				fv, ok := ld.X.(*ssa.FreeVar)
				if !ok || !IsErrorType(ld.Type()) {
					return false, false
				}
				cell = fv
				return true, a.Op == token.EQL
			})
			commitSinks := CallSinksX(deferClosure, isCommit, false)
			okGate := c.RequireGate("C10.T2-commit-only-on-success", deferClosure, g, commitSinks, "call tx.Commit")
			// Rollback on the other edge: with pass edges kept only, rollback unreachable; i.e. every path not passing the pass edge reaches Rollback
			if okGate {
				rollbackOnFail := func(f *ssa.Function) string {
					edges2, _ := g.PassEdges(f)
					r := Reach(f, ReachOpts{Removed: edges2, Cut: CutAtCall(isRollback)})
					for _, ret := range Returns(f) {
						if r.Reachable(ret) {
							return "the failing edge of the deferred commit-or-rollback code can return without Rollback"
						}
					}
					return ""
				}
				bad := ""
				if h, _, isExp := ExpandSink(commitSinks[0]); isExp && len(commitSinks) == 1 {
					// test, Commit and Rollback were moved together into a new helper: decide it there
					if call, isCall := commitSinks[0].(*ssa.Call); isCall {
						BindParams(h, call, func() { bad = rollbackOnFail(h) })
					} else {
						bad = rollbackOnFail(deferClosure)
					}
				} else {
					bad = rollbackOnFail(deferClosure)
				}
				c.Check(bad == "", "C10.T2-commit-only-on-success", FuncName(deferClosure)+"|rollback-on-error-edge", p.Pos(deferClosure.Pos()), orDefault(bad, "err != nil edge reaches tx.Rollback"))
			}
			// the tested cell must be the function's named error result: every return's
			// error operand is a load of that cell made after RunDefers
			if cell != nil {
				var parentCell ssa.Value
				Instrs(fn, func(in ssa.Instruction) {
					if mc, ok := in.(*ssa.MakeClosure); ok && mc.Fn == deferClosure {
						for i, fv := range deferClosure.FreeVars {
							if fv == cell {
								parentCell = mc.Bindings[i]
							}
						}
					}
				})
				r := Reach(fn, ReachOpts{Starts: starts})
				bad := ""
				ei := ErrIndex(fn)
				for _, ret := range Returns(fn) {
					if !r.Reachable(ret) || ei < 0 {
						continue
					}
					v := ret.(*ssa.Return).Results[ei]
					ld, ok := v.(*ssa.UnOp)
					after := false
					if ok && ld.Op == token.MUL && ld.X == parentCell {
						seenRD := false
						for _, x := range ret.Block().Instrs {
							if _, isRD := x.(*ssa.RunDefers); isRD {
								seenRD = true
							}
							if x == ld && seenRD {
								after = true
							}
						}
					}
					if !after {
						bad = "the return at " + p.Pos(InstrPos(ret)) + " does not return the error variable the deferred commit-or-rollback closure tests and assigns (it is not the function's named result): a failing step returned directly lets the closure commit, and Commit's own error is dropped"
					}
				}
				c.Check(bad == "", "C10.T2-verdict-is-returned-error", name+"|named-result", p.Pos(fn.Pos()), orDefault(bad, "every return after WriteTx yields the named error result that the deferred closure tests and assigns"))
			}
		} else {
			// inline form: Commit gated by every tested fallible step between open and commit
			commits := CallSinks(fn, isCommit, false)
			if len(commits) == 0 {
				c.Violate("C10.T2-commit-only-on-success", name+"|has-commit", p.Pos(InstrPos(open)), "transaction is never committed")
			} else {
				r0 := Reach(fn, ReachOpts{Starts: starts})
				n := 0
				for _, cs := range CallsIn(fn) {
					call, ok := cs.(*ssa.Call)
					if !ok || !r0.Reachable(call) || isCommit(&call.Call) || isRollback(&call.Call) {
						continue
					}
					res := call.Call.Signature().Results()
					if res.Len() == 0 || !IsErrorType(res.At(res.Len()-1).Type()) {
						continue
					}
					if ctxArg(&call.Call) == nil {
						continue
					}
					g := GErrNil(instrShort(call)+"==nil", func(cc *ssa.CallCommon) bool { return cc == &call.Call })
					if _, s := g.PassEdges(fn); len(s) == 0 {
						continue // untested: rule E reports
					}
					// only steps that precede a commit
					canReachCommit := false
					rr := Reach(fn, ReachOpts{From: call})
					for _, cm := range commits {
						if rr.Reachable(cm) {
							canReachCommit = true
						}
					}
					if !canReachCommit {
						continue
					}
					n++
					// after THIS call, Commit is reachable only across its success edge (or across
					// `errors.Is(its error, …)`: an error the function explicitly tolerates). Starting
					// at the call — not at entry — keeps a step inside a loop from being "bypassed" by
					// the zero-iteration path.
					pe, _ := g.PassEdges(fn)
					tol := GBool("errors.Is(err, tolerated)==true", func(cc *ssa.CallCommon) bool {
						o := CalleeObj(cc)
						return o != nil && o.Pkg() != nil && o.Pkg().Path() == "errors" && o.Name() == "Is" && len(cc.Args) == 2 &&
							valueIsResultOf(cc.Args[0], func(c2 *ssa.CallCommon) bool { return c2 == &call.Call })
					}, 0, true)
					te, _ := tol.PassEdges(fn)
					removed := map[Edge]bool{}
					for e := range pe {
						removed[e] = true
					}
					for e := range te {
						removed[e] = true
					}
					for e := range ErrorExitEdges(fn) {
						removed[e] = true
					}
					rc := Reach(fn, ReachOpts{From: call, Removed: removed, Cut: func(in ssa.Instruction) bool { return in == ssa.Instruction(call) }})
					badc := ""
					for _, cm := range commits {
						if rc.Reachable(cm) {
							badc = "after " + instrShort(call) + " failed, tx.Commit at " + p.Pos(InstrPos(cm)) + " is still reachable (witness " + rc.Path(p, cm) + "): a partial batch would be committed"
						}
					}
					c.Check(badc == "", "C10.T2-commit-only-on-success", FuncName(fn)+"|"+g.Name+"|call tx.Commit", p.Pos(InstrPos(call)), orDefault(badc, "after this step tx.Commit is reachable only across its success edge"))
				}
				// the commit's error is returned
				for _, cm := range commits {
					call := cm.(*ssa.Call)
					used := false
					for _, ref := range *call.Referrers() {
						switch ref.(type) {
						case *ssa.Return, *ssa.Store, *ssa.Phi, *ssa.BinOp, *ssa.MakeInterface, *ssa.ChangeInterface:
							used = true
						}
					}
					c.Check(used, "C10.E-storage-errors-not-dropped", name+"|tx.Commit-error-used", p.Pos(InstrPos(cm)), "the error of tx.Commit is returned or tested")
				}
			}
		}
		// T3: mutators / ctx-writers between open and commit take the tx context
		{
			r0 := Reach(fn, ReachOpts{Starts: starts})
			check := func(f *ssa.Function, in ssa.CallInstruction, reachable bool) {
				cc := in.Common()
				if !reachable || !isCtxWriter(cc) {
					return
				}
				a := ctxArg(cc)
				if a == nil {
					return
				}
				ok := originsAll(a, func(o ssa.Value) bool {
					call, _, isRes := CallResult(o)
					if isRes && isTxContext(&call.Call) {
						return true
					}
					// closure parameter named ctx receiving tx.Context() from the driver (proc)
					return false
				})
				c.Check(ok, "C10.T3-writes-use-tx-context", FuncName(f)+"|"+calleeShort(cc), p.Pos(InstrPos(in)), "storage write between WriteTx and Commit takes a context derived from tx.Context()")
			}
			for _, cs := range CallsIn(fn) {
				if _, isCall := cs.(*ssa.Call); isCall {
					check(fn, cs, r0.Reachable(cs))
				}
			}
			// dynamic callbacks invoked with a ctx inside the tx (proc(tx.Context()))
			for _, cs := range CallsIn(fn) {
				call, ok := cs.(*ssa.Call)
				if !ok || !r0.Reachable(call) || call.Call.IsInvoke() || call.Call.StaticCallee() != nil {
					continue
				}
				if _, isB := call.Call.Value.(*ssa.Builtin); isB {
					continue
				}
				a := ctxArg(&call.Call)
				if a == nil {
					continue
				}
				ok = originsAll(a, func(o ssa.Value) bool {
					cl, _, isRes := CallResult(o)
					return isRes && isTxContext(&cl.Call)
				})
				c.Check(ok, "C10.T3-writes-use-tx-context", FuncName(fn)+"|callback", p.Pos(InstrPos(call)), "callback run inside the transaction receives tx.Context()")
			}
		}
	}
	c.Min("C10.T1-commit-or-rollback", 10)
	c.Min("C10.T3-writes-use-tx-context", 12)

	// ---- T4 multi-write functions are called inside a transaction
	{
		n := 0
		for _, fn := range prod {
			for _, cs := range CallsIn(fn) {
				cc := cs.Common()
				cf := CalleeFunc(cc)
				if cf == nil || writers[cf] == nil || writers[cf].writes < 2 {
					continue
				}
				a := ctxArg(cc)
				if a == nil {
					continue
				}
				own := ctxParam(fn)
				ok := originsAll(a, func(o ssa.Value) bool {
					if own != nil && o == own {
						return true // caller is itself a multi-write ctx-writer; its callers are checked
					}
					cl, _, isRes := CallResult(o)
					if isRes && isTxContext(&cl.Call) {
						return true
					}
					return false
				})
				// closures passed as proc to createStorageAndDoInTx take ctx as their own parameter: same rule
				n++
				c.Check(ok, "C10.T4-multi-write-inside-tx", FuncName(fn)+"→"+FuncName(cf), p.Pos(InstrPos(cs)), fmt.Sprintf("%s performs %d+ writes through its context; the context passed derives from tx.Context() or from the caller's own context parameter", FuncName(cf), writers[cf].writes))
			}
		}
		c.Min("C10.T4-multi-write-inside-tx", 4)
	}

	// ---- rule M: memory/storage alignment
	ot := "commonspace/object/tree/objecttree"
	al := "commonspace/object/acl/list"
	kv := "commonspace/object/keyvalue/keyvaluestorage/innerstorage"
	treeField := p.Field(ot + ":objectTree.tree")
	tAdd := p.Func(ot + ":(*Tree).Add")
	tAddMerged := p.Func(ot + ":(*Tree).AddMergedHead")
	tAddFast := p.Func(ot + ":(*Tree).AddFast")
	rebuild := p.Func(ot + ":(*objectTree).rebuildFromStorage")
	type mrule struct {
		fn       *ssa.Function
		mut      func(in ssa.Instruction) bool
		mutDesc  string
		realign  CallMatcher
		realDesc string
	}
	storeTo := func(f *types.Var) func(ssa.Instruction) bool {
		return func(in ssa.Instruction) bool {
			st, ok := in.(*ssa.Store)
			if !ok {
				return false
			}
			fa, ok := st.Addr.(*ssa.FieldAddr)
			return ok && FieldOf(fa) == f
		}
	}
	callOf := func(m CallMatcher) func(ssa.Instruction) bool {
		return func(in ssa.Instruction) bool {
			cc, ok := in.(*ssa.Call)
			return ok && m(&cc.Call)
		}
	}
	or := func(fs ...func(ssa.Instruction) bool) func(ssa.Instruction) bool {
		return func(in ssa.Instruction) bool {
			for _, f := range fs {
				if f(in) {
					return true
				}
			}
			return false
		}
	}
	addContent := p.Func(ot + ":(*objectTree).AddContentWithValidator")
	addRaw := p.Func(ot + ":(*objectTree).AddRawChangesWithUpdater")
	addToTree := p.Func(ot + ":(*objectTree).addChangesToTree")
	var rollbackCl []*ssa.Function
	for _, a := range addToTree.AnonFuncs {
		// the rollback closure restores headIds
		fns := []*ssa.Function{a}
		for _, ci := range CallsIn(a) {
			// a closure that only forwards to a rollback method
			if cf := CalleeFunc(ci.Common()); cf != nil && cf.Blocks != nil && IsRepoFunc(cf) {
				fns = append(fns, cf)
			}
		}
		if len(FieldWrites(fns, p.Field(ot+":Tree.headIds"))) > 0 {
			rollbackCl = append(rollbackCl, a)
		}
	}
	for _, a := range addRaw.AnonFuncs {
		if ContainsCall(a, CalleeFn(rebuild)) {
			rollbackCl = append(rollbackCl, a)
		}
	}
	// the rollback closure lifted to a method of its own (new since the anchor snapshot)
	for _, ci := range CallsIn(addToTree) {
		if cf := CalleeFunc(ci.Common()); cf != nil && cf.Blocks != nil && IsRepoFunc(cf) && IsNewFunc(cf) && len(FieldWrites([]*ssa.Function{cf}, p.Field(ot+":Tree.headIds"))) > 0 {
			rollbackCl = append(rollbackCl, cf)
		}
	}
	realignTree := AnyOf(CalleeFn(rebuild), CalleeFn(rollbackCl...))
	addRawRecord := p.Func(al + ":(*aclList).AddRawRecord")
	setState := p.FuncOpt(al + ":(*aclList).setState") // may have been inlined into its only caller
	deferredTx := p.Func(ot + ":(*storageDeferredCreation).createStorageAndDoInTx")
	createStorage := p.FuncOpt(ot + ":(*storageDeferredCreation).createStorage") // may be inlined into its only caller
	kvSet := p.Func(kv + ":(*storage).Set")
	mDiffSet := p.Method("app/ldiff:Diff.Set")
	mDiffRem := p.Method("app/ldiff:Diff.RemoveId")
	rules := []mrule{
		{addContent, or(storeTo(treeField), callOf(CalleeFn(tAddMerged, tAdd, tAddFast))), "in-memory tree mutation (ot.tree=…, Tree.AddMergedHead)", realignTree, "rebuildFromStorage / rollback"},
		{addRaw, callOf(CalleeFn(addToTree)), "addChangesToTree (changes attached in memory)", realignTree, "rollback (rebuildFromStorage)"},
		{addToTree, callOf(CalleeFn(tAdd, tAddFast, tAddMerged)), "Tree.Add (changes attached in memory)", realignTree, "rollback closure / rebuildFromStorage"},
		// the rebuild with the sender's heads replaces ot.tree by a tree that contains the new,
		// not yet stored changes; rebuildFromStorage restores the old tree only when the builder
		// fails, not when validation of the new tree fails
		{addToTree, func(in ssa.Instruction) bool {
			cc, ok := in.(*ssa.Call)
			return ok && CalleeFn(rebuild)(&cc.Call) && !allArgsNil(&cc.Call)
		}, "rebuildFromStorage(new heads, …) (live tree replaced by one holding unstored changes)", func(cc *ssa.CallCommon) bool {
			return (CalleeFn(rebuild)(cc) && allArgsNil(cc)) || CalleeFn(rollbackCl...)(cc)
		}, "rebuildFromStorage(nil, nil, nil) / rollback closure"},
		{addRawRecord, or(callOf(CalleeFn(setState)), storeTo(p.Field(al+":aclList.records")), storeTo(p.Field(al+":aclList.aclState")), func(in ssa.Instruction) bool {
			mu, ok := in.(*ssa.MapUpdate)
			return ok && IsLoadOfField(mu.Map, p.Field(al+":aclList.indexes"))
		}), "in-memory ACL list mutation (setState / records / indexes)", func(cc *ssa.CallCommon) bool { return false }, "(no realign operation exists: persist before mutating)"},
	}
	for _, r := range rules {
		c.Fn(FuncName(r.fn))
		// (the call of a function new since the anchor snapshot that holds a mutation is a mutation site)
		muts := InstrSinksX(r.fn, r.mut)
		construct := FuncName(r.fn) + "|" + r.mutDesc
		if len(muts) == 0 {
			c.Violate("C10.M-realign-on-error", construct, p.Pos(r.fn.Pos()), "no mutation site found (rule table out of date)")
			continue
		}
		bad := ""
		var badPos ssa.Instruction
		cut := CutAtCall(r.realign)
		// once the batch is persisted (pass edge of storage.AddAll == nil) memory
		// and storage agree again: later failures need no realign
		persisted, _ := GErrNil("storage.AddAll==nil", isStorageAddAll).PassEdges(r.fn)
		// failing edges of calls that can only return nil (every repository
		// implementation returns the constant nil) are infeasible
		for e := range p.InfeasibleErrorEdges(r.fn) {
			persisted[e] = true
		}
		// Tree.Add reporting Nothing attached nothing
		nothing := GCmp("Tree.Add mode == Nothing", func(a Atom) (bool, bool) {
			if a.Op != token.EQL && a.Op != token.NEQ {
				return false, false
			}
			if !valueIsResultOf(a.X, CalleeFn(tAdd, tAddFast)) {
				return false, false
			}
			k, ok := a.Y.(*ssa.Const)
			nc := p.Pkg(ot).Types.Scope().Lookup("Nothing").(*types.Const)
			if !ok || k.Value == nil || k.Value.ExactString() != nc.Val().ExactString() {
				return false, false
			}
			return true, a.Op == token.EQL
		})
		if ne, _ := nothing.PassEdges(r.fn); len(ne) > 0 {
			for e := range ne {
				persisted[e] = true
			}
		}
		for _, m := range muts {
			// a mutating callee that reports an error has realigned itself (its own
			// obligation): only its success edge leaves a mutation behind
			if mc, isCall := m.(*ssa.Call); isCall && CalleeFn(addToTree)(&mc.Call) {
				fe, sites := GErrNil("addChangesToTree==nil", func(cc *ssa.CallCommon) bool { return cc == &mc.Call }).PassEdges(r.fn)
				for _, s := range sites {
					for si := range s.Block().Succs {
						if e := (Edge{From: s.Block(), Succ: si}); !fe[e] {
							persisted[e] = true
						}
					}
				}
			}
			rr := Reach(r.fn, ReachOpts{From: m, Cut: cut, Removed: persisted})
			for _, ret := range ErrorExitsReachable(r.fn, m, cut, persisted) {
				bad = fmt.Sprintf("after %s at %s the error exit at %s is reachable without %s (witness %s): the live object disagrees with storage after a failed write", r.mutDesc, p.Pos(InstrPos(m)), p.Pos(InstrPos(ret)), r.realDesc, rr.Path(p, ret))
				badPos = m
			}
		}
		pos := p.Pos(r.fn.Pos())
		if badPos != nil {
			pos = p.Pos(InstrPos(badPos))
		}
		c.Check(bad == "", "C10.M-realign-on-error", construct, pos, orDefault(bad, fmt.Sprintf("every error exit after each of the %d mutation site(s) passes %s", len(muts), r.realDesc)))
	}
	// deferred storage: s.storage set by createStorage must be reset on every error exit of the tx driver
	{
		storF := p.Field(ot + ":storageDeferredCreation.storage")
		c.Fn(FuncName(deferredTx))
		var ev []ssa.Instruction
		if createStorage != nil {
			ev = CallSinksX(deferredTx, CalleeFn(createStorage), false) // or the new helper that calls it
		}
		// createStorage inlined into the tx driver: the event is the store of the new storage
		Instrs(deferredTx, func(in ssa.Instruction) {
			if st, ok := in.(*ssa.Store); ok {
				if fa, ok := st.Addr.(*ssa.FieldAddr); ok && FieldOf(fa) == storF && !IsNilConst(st.Val) {
					ev = append(ev, in)
				}
			}
		})
		resetsStorage := func(in ssa.Instruction) bool {
			st, ok := in.(*ssa.Store)
			if !ok {
				return false
			}
			fa, ok := st.Addr.(*ssa.FieldAddr)
			return ok && FieldOf(fa) == storF && IsNilConst(st.Val)
		}
		bad := ""
		for _, e := range ev {
			cutReset := func(in ssa.Instruction) bool {
				if resetsStorage(in) {
					return true
				}
				// a deferred closure that resets it
				if d, ok := in.(*ssa.Defer); ok {
					if mc, ok := d.Call.Value.(*ssa.MakeClosure); ok {
						found := false
						Instrs(mc.Fn.(*ssa.Function), func(x ssa.Instruction) {
							if resetsStorage(x) {
								found = true
							}
						})
						return found
					}
				}
				return false
			}
			if deferredResetBefore(deferredTx, e, resetsStorage) {
				continue
			}
			// (path-sensitive in the error value: `if err != nil { s.storage = nil }; return err`)
			for _, ret := range ErrorExitsReachable(deferredTx, e, cutReset, nil) {
				{
					bad = "after createStorage set s.storage, the error exit at " + p.Pos(InstrPos(ret)) + " leaves s.storage pointing at a storage whose creating transaction was rolled back"
				}
			}
		}
		if len(ev) == 0 {
			bad = "createStorage call not found (rule table out of date)"
		}
		c.Check(bad == "", "C10.M-realign-on-error", FuncName(deferredTx)+"|s.storage reset on failed tx", p.Pos(deferredTx.Pos()), orDefault(bad, "every error exit after createStorage resets s.storage"))
	}
	// key-value index undo (also C12.4)
	{
		c.Fn(FuncName(kvSet))
		var undo *ssa.Function
		for _, a := range kvSet.AnonFuncs {
			if ContainsCall(a, CalleeIs(mDiffRem)) && ContainsCall(a, CalleeIs(mDiffSet)) {
				undo = a
			}
		}
		ok := undo != nil
		if ok {
			// the undo closure is deferred before diff.Set in Set
			ok = false
			Instrs(kvSet, func(in ssa.Instruction) {
				if d, isD := in.(*ssa.Defer); isD {
					if mc, isMC := d.Call.Value.(*ssa.MakeClosure); isMC && mc.Fn == undo {
						ok = true
						for _, s := range CallSinks(kvSet, CalleeIs(mDiffSet), false) {
							if !d.Block().Dominates(s.Block()) {
								ok = false
							}
						}
					}
				}
			})
		}
		c.Check(ok, "C10.M-realign-on-error", FuncName(kvSet)+"|diff undo deferred before diff.Set", p.Pos(kvSet.Pos()), "a deferred closure restoring prior elements and removing added ids is registered before the index is mutated")
	}

	// ---- rule E: storage errors not dropped in tx / write-path functions
	{
		var fns []*ssa.Function
		seen := map[*ssa.Function]bool{}
		for _, fn := range prod {
			if len(CallSinks(fn, isWriteTx, false)) > 0 || writers[fn] != nil {
				if !seen[fn] {
					seen[fn] = true
					fns = append(fns, fn)
				}
			}
		}
		for _, fn := range []*ssa.Function{addContent, addRaw, addToTree, addRawRecord} {
			if !seen[fn] {
				fns = append(fns, fn)
			}
		}
		n := 0
		for _, fn := range fns {
			for _, cs := range CallsIn(fn) {
				call, ok := cs.(*ssa.Call)
				if !ok {
					continue
				}
				cc := &call.Call
				o := CalleeObj(cc)
				if o == nil || o.Pkg() == nil {
					continue
				}
				res := cc.Signature().Results()
				if res.Len() == 0 || !IsErrorType(res.At(res.Len()-1).Type()) {
					continue
				}
				storageCall := isMutatorCall(cc) || isCommit(cc) || isWriteTx(cc) || (CalleeFunc(cc) != nil && writers[CalleeFunc(cc)] != nil) ||
					(strings.HasSuffix(o.Pkg().Path(), "objecttree") && (o.Name() == "AddAll" || o.Name() == "AddAllNoError")) ||
					(strings.HasSuffix(o.Pkg().Path(), "acl/list") && o.Name() == "AddAll")
				if !storageCall {
					continue
				}
				n++
				used := errResultUsed(call)
				c.Check(used, "C10.E-storage-errors-not-dropped", FuncName(fn)+"|"+calleeShort(cc), p.Pos(InstrPos(call)), "error result of the storage call is tested, stored or returned")
			}
		}
		c.Min("C10.E-storage-errors-not-dropped", 20)
	}
}

// isStorageAddAll: Storage.AddAll / AddAllNoError of the tree and ACL storages.
func isStorageAddAll(cc *ssa.CallCommon) bool {
	o := CalleeObj(cc)
	if o == nil || o.Pkg() == nil {
		return false
	}
	if o.Name() != "AddAll" && o.Name() != "AddAllNoError" {
		return false
	}
	return strings.HasSuffix(o.Pkg().Path(), "tree/objecttree") || strings.HasSuffix(o.Pkg().Path(), "acl/list")
}

// returnsCallError: the return's error operand is directly the result of a
// call (e.g. `return a.storage.AddAll(...)`): it is an error exit whenever the
// call fails.
func returnsCallError(ret *ssa.Return) bool {
	ei := ErrIndex(ret.Parent())
	if ei < 0 || ei >= len(ret.Results) {
		return false
	}
	vals, _ := Origins(ret.Results[ei])
	for _, v := range vals {
		if _, _, ok := CallResult(v); ok {
			return true
		}
	}
	return false
}

func deferredResetBefore(fn *ssa.Function, at ssa.Instruction, isReset func(ssa.Instruction) bool) bool {
	found := false
	Instrs(fn, func(in ssa.Instruction) {
		d, ok := in.(*ssa.Defer)
		if !ok {
			return
		}
		mc, ok := d.Call.Value.(*ssa.MakeClosure)
		if !ok {
			return
		}
		has := false
		Instrs(mc.Fn.(*ssa.Function), func(x ssa.Instruction) {
			if isReset(x) {
				has = true
			}
		})
		if has && d.Block().Dominates(at.Block()) {
			found = true
		}
	})
	return found
}

func calleeShort(cc *ssa.CallCommon) string {
	if o := CalleeObj(cc); o != nil {
		return ObjName(o)
	}
	return "dynamic call"
}

// errResultUsed: the error result of the call has at least one use that is
// not a DebugRef.
func errResultUsed(call *ssa.Call) bool {
	n := call.Call.Signature().Results().Len()
	uses := func(v ssa.Value) bool {
		refs := v.Referrers()
		if refs == nil {
			return false
		}
		for _, r := range *refs {
			if _, ok := r.(*ssa.DebugRef); ok {
				continue
			}
			return true
		}
		return false
	}
	if n == 1 {
		return uses(call)
	}
	for _, r := range *call.Referrers() {
		if ex, ok := r.(*ssa.Extract); ok && ex.Index == n-1 {
			return uses(ex)
		}
	}
	return false
}

// allArgsNil: every explicit argument of the call is the nil constant.
func allArgsNil(cc *ssa.CallCommon) bool {
	args := callArgs(cc)
	if len(args) == 0 {
		return false
	}
	for _, a := range args {
		if !IsNilConst(a) {
			return false
		}
	}
	return true
}
