package rules

import (
	"fmt"
	"go/token"
	"go/types"
	"strings"

	"golang.org/x/tools/go/ssa"

	. "verif/checker/core"
)

func init() {
	register(&Pack{
		ID: "C09",
		Explanation: "Full-sync response streaming, decided on SSA: (1) size bound — in loadIterator.NextBatch every append to the batch is reachable only across the false edge of (accumulated size + entry size >= maxSize) or the 'batch still empty' edge (single oversized change), the comparison's operands being the running accumulator, the entry's size and the maxSize parameter, and the accumulator grows by the entry size on the appending path; " +
			"(2) stream order is storage order — NextBatch/load enumerate only through Storage.GetAfterOrder (no map iteration produces output), storage.GetAfterOrder sorts by the order key and filters by tree id, and a locally added change takes an order id extending the order id of the tree's last iterated head; " +
			"(3) nothing is swallowed — HandleStreamRequest returns the errors of NewResponse/ProtoMessage/send (C01.2), sends every non-empty batch, and pairs every queue-size increment with its decrement before the next batch or exit; responseProducer.NewResponse forwards Heads, SnapshotPath, Batch and Root of the iterator batch; " +
			"(4) an empty-path request starts from the tree root (last element of our snapshot path) without computing a common snapshot.",
		NotDecided: "Completeness of the streamed set, per-batch causal closure and consistency of the announced heads (values of DAG computations over the cached changes).",
		Run:        runC09,
	})
}

func runC09(c *Ctx) {
	p := c.P
	next := p.Func(otPkg + ":(*loadIterator).NextBatch")
	load := p.Func(otPkg + ":(*loadIterator).load")
	batchF := p.Field(otPkg + ":IteratorBatch.Batch")
	sizeF := p.Field(otPkg + ":rawCacheEntry.size")

	// ---- C09.1 size bound
	{
		var cb *ssa.Function
		for _, a := range next.AnonFuncs {
			if len(FieldWrites([]*ssa.Function{a}, batchF)) > 0 {
				cb = a
			}
		}
		if cb == nil {
			c.Violate("C09.1-size-bound", FuncName(next)+"|batch-building callback", p.Pos(next.Pos()), "no closure of NextBatch appends to IteratorBatch.Batch")
		} else {
			c.Fn(FuncName(cb))
			var appends []ssa.Instruction
			for _, w := range FieldWrites([]*ssa.Function{cb}, batchF) {
				appends = append(appends, w.Instr)
			}
			// maxSize free variable
			var maxFV ssa.Value
			for i, fv := range cb.FreeVars {
				_ = i
				if fv.Name() == "maxSize" {
					maxFV = fv
				}
			}
			isMax := func(v ssa.Value) bool {
				if maxFV == nil {
					return false
				}
				vals, _ := Origins(v)
				for _, o := range vals {
					if o == maxFV {
						return true
					}
				}
				ld, ok := v.(*ssa.UnOp)
				return ok && ld.X == maxFV
			}
			hasSize := func(v ssa.Value) bool {
				bo, ok := v.(*ssa.BinOp)
				if !ok || bo.Op != token.ADD {
					return false
				}
				return IsLoadOfField(bo.X, sizeF) || IsLoadOfField(bo.Y, sizeF)
			}
			under := GCmp("accumulated+entry.size < maxSize", func(a Atom) (bool, bool) {
				switch a.Op {
				case token.GEQ:
					if hasSize(a.X) && isMax(a.Y) {
						return true, false
					}
				case token.GTR:
					if hasSize(a.X) && isMax(a.Y) {
						return true, false
					}
				case token.LSS:
					if hasSize(a.X) && isMax(a.Y) {
						return true, true
					}
				case token.LEQ:
					if hasSize(a.X) && isMax(a.Y) {
						return true, true
					}
				}
				return false, false
			})
			empty := GCmp("len(batch.Batch)==0", func(a Atom) (bool, bool) {
				if a.Op != token.EQL && a.Op != token.NEQ {
					return false, false
				}
				call, ok := a.X.(*ssa.Call)
				if !ok {
					return false, false
				}
				b, ok := call.Call.Value.(*ssa.Builtin)
				if !ok || b.Name() != "len" || !IsLoadOfField(call.Call.Args[0], batchF) {
					return false, false
				}
				if k, isK := IntConst(a.Y); !isK || k != 0 {
					return false, false
				}
				return true, a.Op == token.EQL
			})
			c.RequireAnyGate("C09.1-size-bound", cb, []Gate{under, empty}, nil, appends, "append to the batch", nil, false)
			// accumulator grows by the entry size before the append
			grows := false
			Instrs(cb, func(in ssa.Instruction) {
				st, ok := in.(*ssa.Store)
				if !ok {
					return
				}
				if fv, isFV := st.Addr.(*ssa.FreeVar); isFV && fv.Name() == "curSize" && hasSize(st.Val) {
					for _, ap := range appends {
						if st.Block() == ap.Block() || st.Block().Dominates(ap.Block()) {
							grows = true
						}
					}
				}
			})
			c.Check(grows, "C09.1-size-bound", FuncName(cb)+"|accumulator += entry.size", p.Pos(cb.Pos()), "the running size is increased by the entry's size on the appending path")
			// the payload appended is a copy of the stored raw change with its id
			okCopy := false
			for _, w := range FieldWrites([]*ssa.Function{cb}, p.Field(tcProto+":RawTreeChangeWithId.RawChange")) {
				if derivesFromField(w.Val, p.Field(otPkg+":StorageChange.RawChange")) {
					okCopy = true
				}
			}
			c.Check(okCopy, "C09.1-size-bound", FuncName(cb)+"|streams stored bytes", p.Pos(cb.Pos()), "each streamed change carries the raw bytes delivered by storage")

			// ---- C09.5 announced heads: a batch announces a change as head only when the change is
			// in the batch (the heads update follows the append) or the requester already has it
			// (entry.removed). A heads update placed before the size cut announces a head that
			// was not sent.
			{
				headsF := p.Field(otPkg + ":IteratorBatch.Heads")
				removedF := p.Field(otPkg + ":rawCacheEntry.removed")
				gRemoved := GCmp("entry.removed==true", func(a Atom) (bool, bool) {
					if a.Op != token.ILLEGAL || !IsLoadOfField(a.X, removedF) {
						return false, false
					}
					return true, true
				})
				pass, sites := gRemoved.PassEdges(cb)
				isAppend := func(in ssa.Instruction) bool {
					for _, ap := range appends {
						if ap == in {
							return true
						}
					}
					return false
				}
				r := Reach(cb, ReachOpts{Removed: pass, Cut: isAppend})
				bad := ""
				nw := 0
				for _, w := range FieldWrites([]*ssa.Function{cb}, headsF) {
					nw++
					if r.Reachable(w.Instr) {
						bad = "batch.Heads is updated at " + p.Pos(InstrPos(w.Instr)) + " on a path where the change was neither appended to the batch nor already known to the requester (witness " + r.Path(p, w.Instr) + "): a batch cut by the size limit announces a head it does not carry"
					}
				}
				if nw == 0 || len(sites) == 0 {
					bad = fmt.Sprintf("the batch-building callback has %d heads update(s) and %d test(s) of entry.removed (rule table out of date)", nw, len(sites))
				}
				c.Check(bad == "", "C09.5-announced-heads", FuncName(cb)+"|heads follow the append", p.Pos(cb.Pos()), orDefault(bad, "every update of batch.Heads follows the append of that change to the batch, or is for an entry the requester already has"))
			}
		}
	}

	// ---- C09.5 (shared with C01.4) the common snapshot is computed from the CURRENT snapshot
	// path: the cached path is served only while its first element is the tree's root.
	{
		sub := NewCtx(c.P, "C01", c.Tier)
		shared := runShared(c, "C01", func() { runC01(sub) })
		n := 0
		if !shared {
			sub.Obls = nil
		}
		for _, o := range sub.Obls {
			if o.Rule != "C01.4-snapshot-path-cache" {
				continue
			}
			n++
			c.Check(o.Held, "C09.5-snapshot-path-cache", strings.TrimPrefix(o.Key, o.Rule+"|"), o.Pos, o.Detail)
		}
		if shared {
			c.Min("C09.5-snapshot-path-cache", 3)
		}
	}

	// ---- C09.2 storage order
	{
		fns := regionFuncs(next)
		for _, fn := range fns {
			n := len(MapRangeLoops(fn))
			c.Check(n == 0, "C09.2-storage-order", FuncName(fn)+"|no map iteration", p.Pos(fn.Pos()), "NextBatch produces its output while storage enumerates in order; it never ranges over the cache map")
		}
		gao := calleeMethod("tree/objecttree", "GetAfterOrder")
		c.Check(len(CallSinks(next, gao, false)) == 1 && len(CallSinks(load, gao, false)) == 1, "C09.2-storage-order", FuncName(next)+"|enumerates via Storage.GetAfterOrder", p.Pos(next.Pos()), "both the load and the batch phase enumerate through Storage.GetAfterOrder")
		sg := p.Func(otPkg + ":(*storage).GetAfterOrder")
		okSort, okFilter := false, false
		orderKey := constVal(p, otPkg, "OrderKey")
		treeKey := constVal(p, otPkg, "TreeKey")
		for _, cs := range CallsIn(sg) {
			o := CalleeObj(cs.Common())
			if o != nil && o.Name() == "Sort" {
				for _, v := range variadicConsts(cs.Common().Args[len(cs.Common().Args)-1]) {
					if v == orderKey {
						okSort = true
					}
				}
			}
		}
		Instrs(sg, func(in ssa.Instruction) {
			if st, ok := in.(*ssa.Store); ok {
				if k, isK := st.Val.(*ssa.Const); isK && k.Value != nil && k.Value.ExactString() == treeKey {
					okFilter = true
				}
			}
		})
		c.Check(okSort && okFilter, "C09.2-storage-order", FuncName(sg)+"|Sort(OrderKey) + tree filter", p.Pos(sg.Pos()), "the storage query is sorted by the order key and restricted to this tree")
		// local change order id
		ac := p.Func(otPkg + ":(*objectTree).AddContentWithValidator")
		lexNext := calleeMethod("util/slice", "Next")
		_ = lexNext
		okOrd := false
		det := "the new change's order id is lexId.Next(attached[lastIteratedHeadId].OrderId)"
		ordF := p.Field(otPkg + ":Change.OrderId")
		lastIt := p.Field(otPkg + ":Tree.lastIteratedHeadId")
		attached := p.Field(otPkg + ":Tree.attached")
		for _, w := range FieldWrites([]*ssa.Function{ac}, ordF) {
			call, _, ok := CallResult(w.Val)
			if !ok {
				continue
			}
			o := CalleeObj(&call.Call)
			if o == nil || o.Name() != "Next" {
				continue
			}
			args := callArgs(&call.Call)
			vals, _ := Origins(args[0])
			for _, v := range vals {
				f, base := LoadedField(v)
				if f != ordF {
					continue
				}
				bv, _ := Origins(base)
				for _, b := range bv {
					if lk, isLk := b.(*ssa.Lookup); isLk && IsLoadOfField(lk.X, attached) && IsLoadOfField(lk.Index, lastIt) {
						okOrd = true
					}
				}
			}
		}
		c.Check(okOrd, "C09.2-local-order-id", FuncName(ac)+"|OrderId extends the last iterated head", p.Pos(ac.Pos()), det)
	}

	// ---- C09.3 nothing swallowed between iterator and wire
	{
		hs := p.Func(stPkg + ":(*syncHandler).HandleStreamRequest")
		uqs := calleeMethod("sync/syncdeps", "UpdateQueueSize")
		// the streaming loop may have been moved into a function of its own
		hs, _ = descendTo(hs, uqs)
		c.Fn(FuncName(hs))
		var incs []ssa.Instruction
		isDec := func(cc *ssa.CallCommon) bool {
			if !uqs(cc) {
				return false
			}
			a := callArgs(cc)
			b, ok := BoolConst(a[len(a)-1])
			return ok && !b
		}
		for _, cs := range CallSinks(hs, uqs, false) {
			a := callArgs(cs.(*ssa.Call).Common())
			if b, ok := BoolConst(a[len(a)-1]); ok && b {
				incs = append(incs, cs)
			}
		}
		bad := ""
		if len(incs) == 0 {
			bad = "no queue-size increment found (rule table out of date)"
		}
		for _, inc := range incs {
			r := Reach(hs, ReachOpts{From: inc, Cut: CutAtCall(isDec)})
			for _, ret := range Returns(hs) {
				if r.Reachable(ret) {
					bad = "an exit at " + p.Pos(InstrPos(ret)) + " is reachable after the queue-size increment without the matching decrement"
				}
			}
			if r.Reachable(inc) {
				bad = "the next batch's increment is reachable without the previous decrement"
			}
		}
		c.Check(bad == "", "C09.3-queue-size-pairing", FuncName(hs)+"|UpdateQueueSize(+) ↔ (-)", p.Pos(hs.Pos()), orDefault(bad, "every queue-size increment is matched by a decrement before the next batch or any exit"))
		// a non-empty batch reaches send: from the len(Changes)==0 false edge, send is on every path to the next NewResponse / success return
		send := func(cc *ssa.CallCommon) bool {
			pm, ok := cc.Value.(*ssa.Parameter)
			return ok && pm.Name() == "send"
		}
		changesF := p.Field(stPkg + "/response:Response.Changes")
		emptyBatch := GCmp("len(batch.Changes)==0", func(a Atom) (bool, bool) {
			if a.Op != token.EQL && a.Op != token.NEQ {
				return false, false
			}
			call, ok := a.X.(*ssa.Call)
			if !ok {
				return false, false
			}
			b, ok := call.Call.Value.(*ssa.Builtin)
			if !ok || b.Name() != "len" || !IsLoadOfField(call.Call.Args[0], changesF) {
				return false, false
			}
			return true, a.Op == token.EQL
		})
		fail := emptyBatch.FailEdges(hs)
		var starts []*ssa.BasicBlock
		for e := range fail {
			starts = append(starts, e.From.Succs[e.Succ])
		}
		bad2 := ""
		if len(starts) == 0 {
			bad2 = "the streaming loop no longer tests for an empty batch"
		} else {
			nr := calleeMethod("synctree/response", "NewResponse")
			r := Reach(hs, ReachOpts{Starts: starts, Cut: CutAtCall(send)})
			for _, cs := range CallSinks(hs, nr, false) {
				if r.Reachable(cs) {
					bad2 = "a non-empty batch can be dropped: the next NewResponse is reachable without send"
				}
			}
			for _, ret := range SuccessReturns(hs) {
				if r.Reachable(ret) {
					bad2 = "a non-empty batch can be dropped: a success return is reachable without send"
				}
			}
		}
		c.Check(bad2 == "", "C09.3-batches-sent", FuncName(hs)+"|non-empty batch ⇒ send", p.Pos(hs.Pos()), orDefault(bad2, "every non-empty batch is handed to send before the next batch or a success return"))
		// NewResponse field coverage
		nr := p.Func(stPkg + "/response:(*responseProducer).NewResponse")
		st := p.Type(otPkg + ":IteratorBatch").Underlying().(*types.Struct)
		for i := 0; i < st.NumFields(); i++ {
			fl := st.Field(i)
			ok := len(FieldReads([]*ssa.Function{nr}, fl)) > 0
			c.Check(ok, "C09.3-response-fields", FuncName(nr)+"|forwards IteratorBatch."+fl.Name(), p.Pos(nr.Pos()), "the response carries the iterator batch's "+fl.Name())
		}
		c.Min("C09.3-response-fields", 4)
		nb := calleeMethod("tree/objecttree", "NextBatch")
		for _, cs := range CallSinks(nr, nb, false) {
			ok := originatesFromParam(callArgs(cs.(*ssa.Call).Common())[0], nr.Params[1])
			c.Check(ok, "C09.3-response-fields", FuncName(nr)+"|NextBatch(batchSize)", p.Pos(InstrPos(cs)), "the caller's batch size limit is what the iterator receives")
		}
	}

	// ---- C09.4 empty request returns the whole tree
	{
		fn := p.Func(otPkg + ":(*objectTree).ChangesAfterCommonSnapshotLoader")
		cs2 := p.Func(otPkg + ":commonSnapshotForTwoPaths")
		emptyPath := GCmp("len(theirPath)==0", func(a Atom) (bool, bool) {
			// needFullDocument := len(theirPath) == 0 ; if !needFullDocument
			if a.Op != token.EQL && a.Op != token.NEQ {
				return false, false
			}
			call, ok := a.X.(*ssa.Call)
			if !ok {
				return false, false
			}
			b, ok := call.Call.Value.(*ssa.Builtin)
			if !ok || b.Name() != "len" || !originatesFromParam(call.Call.Args[0], fn.Params[1]) {
				return false, false
			}
			if k, isK := IntConst(a.Y); !isK || k != 0 {
				return false, false
			}
			return true, a.Op == token.NEQ // pass edge = path NOT empty
		})
		c.RequireGate("C09.4-empty-request", fn, emptyPath, CallSinksX(fn, CalleeFn(cs2), false), "commonSnapshotForTwoPaths")
		// the default common snapshot is ourPath[len-1]
		ldr := p.Func(otPkg + ":(*loadIterator).load")
		okRoot := false
		for _, cs := range CallSinks(fn, CalleeFn(ldr), false) {
			vals, _ := Origins(cs.(*ssa.Call).Call.Args[1])
			for _, v := range vals {
				if ld, ok := v.(*ssa.UnOp); ok && ld.Op == token.MUL {
					if ia, isIA := ld.X.(*ssa.IndexAddr); isIA {
						if bo, isBO := ia.Index.(*ssa.BinOp); isBO && bo.Op == token.SUB {
							if k, isK := IntConst(bo.Y); isK && k == 1 {
								okRoot = true
							}
						}
					}
				}
			}
		}
		c.Check(okRoot, "C09.4-empty-request", FuncName(fn)+"|default = root of our snapshot path", p.Pos(fn.Pos()), "without a common-snapshot computation the iterator starts at ourPath[len-1], the tree root")
	}
	_ = strings.Contains
}
