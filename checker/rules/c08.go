package rules

import (
	"fmt"

	"golang.org/x/tools/go/ssa"

	. "verif/checker/core"
)

func init() {
	register(&Pack{
		ID: "C08",
		Explanation: "Range-hash index (app/ldiff) and its users: (1) cardinality pairing — every hashRanges.addElement call is control-dependent on the " +
			"skip-list reporting the element ABSENT (sl.Remove/sl.Get == nil) and every removeElement on PRESENT, so the per-range counters that drive split/merge track set cardinality, not update history; " +
			"(2) the closure that computes hashes contains no run-to-run nondeterminism source feeding a hasher (map-order, time, rand, select, goroutines) and hasher writes exist only in calcElementsHash/calcDividedHash; " +
			"(3) no stale advertisement — every skip-list/range mutation in diff.Set/RemoveId is followed by recalculateHashes on every exit, all diff readers/writers hold diff.mu, the skip list is mutated only by Set/RemoveId, " +
			"and every Diff.Set/RemoveId in DiffManager and key-value storage is followed by re-publishing diff.Hash(); (4) remote.DiffTypeCheck reports 'in sync' only across bytes.Equal(localHash, remoteHash).",
		NotDecided: "General equality of hashes of two indexes with equal contents (value level): split/merge threshold arithmetic in addElement/removeElement beyond the counter pairing, e.g. that a divided range is re-merged at exactly the cardinalities at which a fresh index would not have split it.",
		Run:        runC08,
	})
}

func runC08(c *Ctx) {
	p := c.P
	ld := "app/ldiff"
	addEl := p.Func(ld + ":(*hashRanges).addElement")
	remEl := p.Func(ld + ":(*hashRanges).removeElement")
	recalc := p.Func(ld + ":(*hashRanges).recalculateHashes")
	dSet := p.Func(ld + ":(*diff).Set")
	dRem := p.Func(ld + ":(*diff).RemoveId")
	slRemove := CalleeNamed("huandu/skiplist", "SkipList", "Remove")
	slGet := CalleeNamed("huandu/skiplist", "SkipList", "Get")
	slSet := CalleeNamed("huandu/skiplist", "SkipList", "Set")
	ldFuncs := p.FuncsOfPkg(ld)

	// ---- C08.1 cardinality pairing
	presence := func(v ssa.Value) bool { return valueIsResultOf(v, AnyOf(slRemove, slGet)) }
	absent := GNil("skiplist reports element absent (sl.Remove/Get == nil)", presence, true)
	present := GNil("skiplist reports element present (sl.Remove/Get != nil)", presence, false)
	nAdd, nRem := 0, 0
	for _, fn := range ldFuncs {
		if TopFunc(fn) == addEl || TopFunc(fn) == remEl {
			continue
		}
		if s := CallSinks(fn, CalleeFn(addEl), true); len(s) > 0 {
			nAdd++
			c.RequireGate("C08.1-count-pairing", fn, absent, s, "call hashRanges.addElement")
		}
		if s := CallSinks(fn, CalleeFn(remEl), true); len(s) > 0 {
			nRem++
			c.RequireGate("C08.1-count-pairing", fn, present, s, "call hashRanges.removeElement")
		}
	}
	c.Min("C08.1-count-pairing", 2)
	// the counters themselves: hashRange.elements is written only inside hashRanges methods
	elemField := p.Field(ld + ":hashRange.elements")
	for _, w := range FieldWrites(ldFuncs, elemField) {
		top := TopFunc(w.Fn)
		ok := top.Signature.Recv() != nil && recvNamed(top) == "hashRanges"
		c.Check(ok, "C08.1-counter-writers", FuncName(w.Fn)+"|hashRange.elements", p.Pos(InstrPos(w.Instr)), "range element counter written only by hashRanges methods")
	}
	c.Min("C08.1-counter-writers", 4)

	// ---- C08.5 divide / collapse keep the range table in step with isDivided
	{
		divF := p.Field(ld + ":hashRange.isDivided")
		rangesF := p.Field(ld + ":hashRanges.ranges")
		mkBottom := p.Func(ld + ":(*hashRanges).makeBottomRanges")
		n := 0
		for _, w := range FieldWrites(ldFuncs, divF) {
			b, isConst := BoolConst(w.Val)
			if !isConst {
				c.Violate("C08.5-divide-collapse-pairing", FuncName(w.Fn)+"|isDivided=<non-constant>", p.Pos(InstrPos(w.Instr)), "isDivided is stored from a non-constant value; pairing with the range table cannot be decided")
				continue
			}
			n++
			if b {
				// divided ⇒ children are created: makeBottomRanges follows on every path
				r := Reach(w.Fn, ReachOpts{From: w.Instr, Cut: CutAtCall(CalleeFn(mkBottom))})
				bad := ""
				for _, ret := range Returns(w.Fn) {
					if r.Reachable(ret) {
						bad = "after isDivided=true an exit is reachable without makeBottomRanges (a divided range without children in the table)"
					}
				}
				c.Check(bad == "", "C08.5-divide-collapse-pairing", FuncName(w.Fn)+"|isDivided=true→makeBottomRanges", p.Pos(InstrPos(w.Instr)), orDefault(bad, "marking a range divided is always followed by makeBottomRanges"))
			} else {
				// collapsed ⇒ the former children were deleted from the table before
				isDel := func(in ssa.Instruction) bool {
					cc, ok := in.(*ssa.Call)
					if !ok {
						return false
					}
					bi, ok := cc.Call.Value.(*ssa.Builtin)
					return ok && bi.Name() == "delete" && IsLoadOfField(cc.Call.Args[0], rangesF)
				}
				// the deletion happens unconditionally in a loop over genTupleRanges of the
				// collapsing range, and the store lies behind that loop
				ok, inGenLoop := false, false
				gen := p.Func(ld + ":genTupleRanges")
				for _, l := range Loops(w.Fn) {
					if l.Test == nil {
						continue
					}
					lc, isCall := l.TestAtom.Y.(*ssa.Call)
					if !isCall || len(lc.Call.Args) != 1 || !valueIsResultOf(lc.Call.Args[0], CalleeFn(gen)) {
						continue
					}
					for b := range l.Blocks {
						for _, in := range b.Instrs {
							if !isDel(in) {
								continue
							}
							uncond := true
							for _, latch := range l.Latches {
								if !b.Dominates(latch) {
									uncond = false
								}
							}
							if uncond {
								inGenLoop = true
								hdr := l.Header
								r := Reach(w.Fn, ReachOpts{Cut: func(x ssa.Instruction) bool { return x.Block() == hdr }})
								if !r.Reachable(w.Instr) {
									ok = true
								}
							}
						}
					}
				}
				// helper form: the store is preceded on every path by a call of a function that
				// deletes, unconditionally, every genTupleRanges child of its argument from the
				// table and descends into divided children (no stale grandchildren)
				detail := "collapsing a range is preceded on every path by deleting its genTupleRanges children from hashRanges.ranges (no stale sub-range answers)"
				if !(ok && inGenLoop) {
					for _, h := range ldFuncs {
						if h == w.Fn || h.Signature.Recv() == nil {
							continue
						}
						delInLoop, recurses := false, false
						for _, l := range Loops(h) {
							if l.Test == nil {
								continue
							}
							lc, isCall := l.TestAtom.Y.(*ssa.Call)
							if !isCall || len(lc.Call.Args) != 1 || !valueIsResultOf(lc.Call.Args[0], CalleeFn(gen)) {
								continue
							}
							for b := range l.Blocks {
								for _, in := range b.Instrs {
									if isDel(in) {
										uncond := true
										for _, latch := range l.Latches {
											if !b.Dominates(latch) {
												uncond = false
											}
										}
										if uncond {
											delInLoop = true
										}
									}
									if cc, isC := in.(*ssa.Call); isC && CalleeFn(h)(&cc.Call) {
										recurses = true
									}
								}
							}
						}
						if !delInLoop {
							continue
						}
						by, _ := MustPass(w.Fn, nil, CutAtCall(CalleeFn(h)), []ssa.Instruction{w.Instr}, nil)
						if len(by) == 0 {
							ok, inGenLoop = true, true
							if !recurses {
								ok = false
								detail = FuncName(h) + " deletes the children of the collapsing range but does not descend into divided children: their sub-ranges stay in the table"
							} else {
								detail = "collapsing a range is preceded on every path by " + FuncName(h) + ", which deletes every genTupleRanges child and descends into divided ones"
							}
						}
					}
				}
				c.Check(ok && inGenLoop, "C08.5-divide-collapse-pairing", FuncName(w.Fn)+"|isDivided=false←delete(children)", p.Pos(InstrPos(w.Instr)), detail)
			}
		}
		_ = n
		c.Min("C08.5-divide-collapse-pairing", 3)
	}

	// ---- C08.6 a removal compares EVERY range it decrements with the threshold. A freshly filled
	// index keeps a (non-top) range flat exactly when it holds <= compareThreshold elements; a
	// removal that only tests the lowest divided range leaves an outer range divided when it falls
	// to the threshold together with its only populated child (finding F19): its hash is then the
	// hash of child hashes instead of the flat element hash — a function of the history.
	{
		elementsF := p.Field(ld + ":hashRange.elements")
		ctF := p.Field(ld + ":hashRanges.compareThreshold")
		c.Fn(FuncName(remEl))
		var descent *Loop
		for _, l := range Loops(remEl) {
			for b := range l.Blocks {
				for _, in := range b.Instrs {
					if st, ok := in.(*ssa.Store); ok {
						if fa, ok := st.Addr.(*ssa.FieldAddr); ok && FieldOf(fa) == elementsF {
							descent = l
						}
					}
				}
			}
		}
		inLoop, outside := 0, 0
		for _, b := range remEl.Blocks {
			if len(b.Instrs) == 0 {
				continue
			}
			iff, ok := b.Instrs[len(b.Instrs)-1].(*ssa.If)
			if !ok {
				continue
			}
			a := AtomOf(iff)
			if a.Y == nil {
				continue
			}
			if (IsLoadOfField(a.X, elementsF) && IsLoadOfField(a.Y, ctF)) || (IsLoadOfField(a.Y, elementsF) && IsLoadOfField(a.X, ctF)) {
				if descent != nil && descent.Blocks[b] {
					inLoop++
				} else {
					outside++
				}
			}
		}
		bad := ""
		switch {
		case descent == nil:
			bad = "removeElement has no descent loop that decrements the element counters (rule table out of date)"
		case inLoop == 0 && outside > 0:
			bad = "the threshold is compared only after the descent, for the lowest divided range: an outer divided range that falls to the threshold with the same removal stays divided, and its hash then depends on the history"
		case inLoop == 0:
			bad = "removeElement never compares a decremented range with compareThreshold: ranges are never collapsed"
		}
		c.Check(bad == "", "C08.6-collapse-every-level", FuncName(remEl)+"|threshold test inside the descent", p.Pos(remEl.Pos()), orDefault(bad, "every range decremented on the way down is compared with compareThreshold"))
	}

	// ---- C08.3b a mutated range is always left marked dirty (else its advertised hash is stale)
	for _, fn := range []*ssa.Function{addEl, remEl, p.Func(ld + ":(*hashRanges).updateElement")} {
		dirtyMarkSurvives(c, "C08.3-dirty-mark-survives", fn)
	}

	// ---- C08.2 history-free hash computation
	{
		// (the small helpers are reached from the other roots anyway: one that was inlined into its
		// caller since the rule tables were written is simply absent)
		roots := append([]*ssa.Function{recalc, addEl, remEl,
			p.Func(ld + ":(*hashRanges).calcElementsHash"), p.Func(ld + ":(*hashRanges).calcDividedHash"),
			p.Func(ld + ":(*hashRanges).makeBottomRanges"), p.Func(ld + ":(*hashRanges).hash"), p.Func(ld + ":newHashRanges"),
			p.Func(ld + ":(*diff).Hash"), p.Func(ld + ":(*diff).Compare")},
			optFuncs(p, ld+":genTupleRanges", ld+":(*hashRanges).getBottomRange", ld+":(*hashRanges).makeRange",
				ld+":(*hashRanges).getRange", ld+":(*diff).getRange")...)
		clo := StaticClosure(roots, IsRepoFunc)
		hasherWrite := func(cc *ssa.CallCommon) bool {
			o := CalleeObj(cc)
			if o == nil || o.Pkg() == nil {
				return false
			}
			if o.Pkg().Path() == "github.com/zeebo/blake3" && (o.Name() == "Write" || o.Name() == "WriteString") {
				return true
			}
			return false
		}
		// functions that (transitively, statically) write to a hasher
		writers := map[*ssa.Function]bool{}
		for changed := true; changed; {
			changed = false
			for _, fn := range clo {
				if writers[fn] {
					continue
				}
				for _, cs := range CallsIn(fn) {
					if hasherWrite(cs.Common()) || (CalleeFunc(cs.Common()) != nil && writers[CalleeFunc(cs.Common())]) {
						writers[fn] = true
						changed = true
						break
					}
				}
			}
		}
		feeds := func(cc *ssa.CallCommon) bool {
			return hasherWrite(cc) || (CalleeFunc(cc) != nil && writers[CalleeFunc(cc)])
		}
		finds := NondetScan(clo, feeds)
		for _, fn := range clo {
			c.Fn(FuncName(fn))
		}
		if len(finds) == 0 {
			c.Hold("C08.2-history-free", "app/ldiff hash closure|nondeterminism-sources", p.Pos(recalc.Pos()),
				fmt.Sprintf("static call closure of the hash computation (%d functions) has no map-order/time/rand/select/goroutine dependence feeding a hasher or building an unsorted slice", len(clo)))
		}
		for _, f := range finds {
			c.Violate("C08.2-history-free", FuncName(f.Fn)+"|"+f.Kind, p.Pos(InstrPos(f.Instr)), f.Detail+" in "+FuncName(f.Fn))
		}
		// hasher writes only in the two calc functions (package ldiff, excluding the
		// standalone head Hasher in hasher.go)
		allowed := map[*ssa.Function]string{
			p.Func(ld + ":(*hashRanges).calcElementsHash"): "hashes elements in skip-list order",
			p.Func(ld + ":(*hashRanges).calcDividedHash"):  "hashes children in genTupleRanges order",
			p.Func(ld + ":(*Hasher).HashId"):               "standalone head hasher, not part of the index",
		}
		n := whoMayCall(c, "C08.2-hasher-writers", ldFuncs, hasherWrite, "blake3 hasher write", allowed)
		_ = n
		c.Min("C08.2-hasher-writers", 3)
		// calcDividedHash iterates the slice returned by genTupleRanges, forward
		cdh := p.Func(ld + ":(*hashRanges).calcDividedHash")
		ok := false
		gen := p.Func(ld + ":genTupleRanges")
		for _, l := range Loops(cdh) {
			if l.Ind != nil && l.Step == 1 && l.Test != nil {
				if lc, isCall := l.TestAtom.Y.(*ssa.Call); isCall && len(lc.Call.Args) == 1 && valueIsResultOf(lc.Call.Args[0], CalleeFn(gen)) {
					for b := range l.Blocks {
						for _, in := range b.Instrs {
							if cc, isC := in.(*ssa.Call); isC && hasherWrite(&cc.Call) {
								ok = true
							}
						}
					}
				}
			}
		}
		c.Check(ok, "C08.2-child-order", FuncName(cdh)+"|children-in-genTupleRanges-order", p.Pos(cdh.Pos()), "child hashes are written while ranging forward over genTupleRanges(from,to,divideFactor)")
	}

	// ---- C08.3 no stale advertisement
	{
		hrMut := func(cc *ssa.CallCommon) bool {
			f := CalleeFunc(cc)
			if f == nil || f.Signature.Recv() == nil || recvNamed(f) != "hashRanges" {
				return false
			}
			switch f.Name() {
			case "recalculateHashes", "hash", "getRange", "getBottomRange":
				return false
			}
			return true
		}
		for _, fn := range []*ssa.Function{dSet, dRem} {
			ev := CallSinks(fn, AnyOf(slSet, hrMut), false)
			requireFollowedBy(c, "C08.3-recalc-after-mutation", fn, ev, "skip-list/range mutation", CalleeFn(recalc), "hashRanges.recalculateHashes", false)
		}
		// sl.Remove whose result is discarded or non-nil
		for _, fn := range []*ssa.Function{dSet, dRem} {
			for _, rm := range CallSinks(fn, slRemove, false) {
				call := rm.(*ssa.Call)
				g := GNil("sl.Remove==nil", func(v ssa.Value) bool { return v == call }, true)
				edges, sites := g.PassEdges(fn)
				var r *ReachResult
				if len(sites) == 0 {
					r = Reach(fn, ReachOpts{From: rm, Cut: CutAtCall(CalleeFn(recalc))})
				} else {
					var starts []*ssa.BasicBlock
					for _, s := range sites {
						for si, succ := range s.Block().Succs {
							if !edges[Edge{From: s.Block(), Succ: si}] {
								starts = append(starts, succ)
							}
						}
					}
					r = Reach(fn, ReachOpts{Starts: starts, Cut: CutAtCall(CalleeFn(recalc))})
				}
				bad := ""
				for _, ret := range Returns(fn) {
					if r.Reachable(ret) {
						bad = "after a successful sl.Remove an exit at " + p.Pos(InstrPos(ret)) + " is reachable without recalculateHashes"
					}
				}
				c.Check(bad == "", "C08.3-recalc-after-mutation", FuncName(fn)+"|sl.Remove(present)→recalculateHashes", p.Pos(InstrPos(rm)), orDefault(bad, "every exit after a successful sl.Remove passes recalculateHashes"))
			}
		}
		// skip list mutated only in Set / RemoveId
		whoMayCall(c, "C08.3-skiplist-writers", ldFuncs, AnyOf(slSet, slRemove), "skip-list Set/Remove",
			map[*ssa.Function]string{dSet: "writer under d.mu", dRem: "writer under d.mu"})
		c.Min("C08.3-skiplist-writers", 3)
		// lock discipline
		muField := p.Field(ld + ":diff.mu")
		for _, spec := range []struct{ name, mode string }{
			{"Set", "Lock"}, {"RemoveId", "Lock"}, {"Hash", "RLock"}, {"Ranges", "RLock"}, {"Ids", "RLock"}, {"Elements", "RLock"}, {"Element", "RLock"}, {"Len", "RLock"},
		} {
			fn := p.Func(ld + ":(*diff)." + spec.name)
			el := LockAtEntry(fn)
			ok := el != nil && el.Field == muField && el.Deferred && (el.Mode == spec.mode || el.Mode == "Lock")
			detail := "holds diff.mu (" + spec.mode + ") for the whole call via defer"
			if !ok {
				// explicit Lock/Unlock pairs: every access to the skip list and the hash ranges is made
				// with diff.mu held, and no exit leaves it held (lockset analysis)
				la := NewLockAnalysis()
				la.Analyze(fn)
				key := LockKey{Obj: muField}
				slF, rgF := p.Field(ld+":diff.sl"), p.Field(ld+":diff.ranges")
				n, bad := 0, ""
				Instrs(fn, func(in ssa.Instruction) {
					fa, isFA := in.(*ssa.FieldAddr)
					if !isFA || (FieldOf(fa) != slF && FieldOf(fa) != rgF) {
						return
					}
					n++
					if !la.Must(in)[key] {
						bad = "diff." + FieldOf(fa).Name() + " is accessed at " + p.Pos(InstrPos(in)) + " without diff.mu held"
					}
				})
				for _, ret := range Returns(fn) {
					if la.May(ret)[key] {
						bad = "the exit at " + p.Pos(InstrPos(ret)) + " may leave diff.mu held"
					}
				}
				if n > 0 && bad == "" {
					ok, detail = true, fmt.Sprintf("all %d accesses to the skip list / hash ranges are made with diff.mu held and every exit releases it", n)
				} else if bad != "" {
					detail = bad
				}
			}
			c.Check(ok, "C08.3-lock", FuncName(fn)+"|diff.mu."+spec.mode, p.Pos(fn.Pos()), detail)
		}
		// users: after Diff.Set / RemoveId the stored/advertised hash is refreshed
		mSet := p.Method(ld + ":Diff.Set")
		mRem := p.Method(ld + ":Diff.RemoveId")
		mHash := p.Method(ld + ":Diff.Hash")
		setHash := CalleeNamed("headsync/statestorage", "StateStorage", "SetHash")
		dm := "commonspace/headsync"
		for _, name := range []string{"UpdateHeads", "FillDiff"} {
			fn := p.Func(dm + ":(*DiffManager)." + name)
			ev := CallSinks(fn, CalleeIs(mSet, mRem), false)
			requireFollowedBy(c, "C08.3-republish-hash", fn, ev, "Diff.Set/RemoveId", setHash, "StateStorage.SetHash", false)
			for _, sh := range CallSinks(fn, setHash, false) {
				args := sh.(*ssa.Call).Call.Args
				ok := len(args) >= 1 && valueIsResultOf(args[len(args)-1], CalleeIs(mHash))
				c.Check(ok, "C08.3-republish-hash", FuncName(fn)+"|SetHash(diff.Hash())", p.Pos(InstrPos(sh)), "the hash stored is the current diff.Hash()")
			}
		}
		// key-value storage: Set publishes diff.Hash() through UpdateEntry after diff.Set
		kv := "commonspace/object/keyvalue/keyvaluestorage/innerstorage"
		upd := CalleeNamed("headsync/headstorage", "HeadStorage", "UpdateEntry")
		for _, spec := range []string{kv + ":(*storage).Set", kv + ":New"} {
			fn := p.Func(spec)
			ev := CallSinks(fn, CalleeIs(mSet), false)
			requireFollowedBy(c, "C08.3-republish-hash", fn, ev, "Diff.Set", upd, "HeadStorage.UpdateEntry(Heads: diff.Hash())", true)
		}
	}

	// ---- C08.4 equal top hash ⇒ no round
	{
		fn := p.Func("commonspace/headsync:(*remote).DiffTypeCheck")
		var sinks []ssa.Instruction
		for _, r := range SuccessReturns(fn) {
			ret := r.(*ssa.Return)
			if b, ok := BoolConst(ret.Results[0]); ok && b {
				continue // needsSync=true
			}
			sinks = append(sinks, r)
		}
		g := GBool("bytes.Equal(localHash, remoteTopHash)", CalleeIs(p.PkgFunc("bytes:Equal")), 0, true)
		// `return !sameHash, nil`: the answer is computed; needsSync=false must imply the comparison held
		verdicts := 0
		var rest []ssa.Instruction
		for _, s := range sinks {
			ret := s.(*ssa.Return)
			if _, isConst := ret.Results[0].(*ssa.Const); !isConst && g.ImpliedBy(ret.Results[0], false, fn) {
				verdicts++
				continue
			}
			rest = append(rest, s)
		}
		if verdicts > 0 && len(rest) == 0 {
			c.Fn(FuncName(fn))
			c.Hold("C08.4-insync-only-if-equal", FuncName(fn)+"|"+g.Name+"|return needsSync=false, err=nil", p.Pos(fn.Pos()), "the returned needsSync is computed from the comparison: it is false only when "+g.Name+" held")
		} else {
			c.RequireGate("C08.4-insync-only-if-equal", fn, g, sinks, "return needsSync=false, err=nil")
		}
		// the operands: local = decoded diff.Hash(), remote = resp.Results[0].Hash
		for _, in := range CallSinks(fn, CalleeIs(p.PkgFunc("bytes:Equal")), false) {
			args := in.(*ssa.Call).Call.Args
			ok := false
			hashField := p.Field("commonspace/spacesyncproto:HeadSyncResult.Hash")
			for i := 0; i < 2; i++ {
				if valueIsResultOf(args[i], CalleeIs(p.PkgFunc("encoding/hex:DecodeString"))) && IsLoadOfField(args[1-i], hashField) {
					ok = true
				}
			}
			c.Check(ok, "C08.4-insync-only-if-equal", FuncName(fn)+"|operands", p.Pos(InstrPos(in)), "compares hex-decoded local diff.Hash() with HeadSyncResult.Hash of the remote answer")
		}
	}
}

func recvNamed(fn *ssa.Function) string {
	if fn.Signature.Recv() == nil {
		return ""
	}
	t := fn.Signature.Recv().Type()
	if pt, ok := t.(interface{ Elem() interface{ String() string } }); ok {
		_ = pt
	}
	s := t.String()
	// strip pointer and package path
	for len(s) > 0 && s[0] == '*' {
		s = s[1:]
	}
	for i := len(s) - 1; i >= 0; i-- {
		if s[i] == '.' {
			return s[i+1:]
		}
	}
	return s
}
