package main

import (
	"encoding/json"
	"fmt"
	"os"
	"os/exec"
	"path/filepath"
	"sort"
	"strings"
	"sync"
	"syscall"
	"time"
)

// altConfigs: build configurations analysed by the thorough tier in addition
// to the host configuration, so that files guarded by build constraints
// (app/apptrace.go, objecttree/treegraph*.go, yamux/util_windows.go,
// are covered by the same rule packs. GOOS=js GOARCH=wasm is not analysable here:
// the storage dependencies do not type-check for that target (stated in DESIGN.md).
var altConfigs = map[string][]string{
	"tags":    {"GOFLAGS=-mod=mod -tags=appdebug,nographviz"},
	"windows": {"GOOS=windows", "GOARCH=amd64", "CGO_ENABLED=0"},
	"386":     {"GOARCH=386", "CGO_ENABLED=0"},
}

// Every verifcheck process that loads the program holds one of maxSlots
// machine-wide slots while it does so: a load peaks near 2 GB and the thorough
// tier of twenty properties may be started at once.
const maxSlots = 14

func acquireSlot() (release func()) {
	dir := filepath.Join(os.TempDir(), "verifcheck-slots")
	if err := os.MkdirAll(dir, 0o777); err != nil {
		return func() {}
	}
	open := func(i int) *os.File {
		f, err := os.OpenFile(filepath.Join(dir, fmt.Sprintf("slot-%02d", i)), os.O_CREATE|os.O_RDWR, 0o666)
		if err != nil {
			return nil
		}
		return f
	}
	deadline := time.Now().Add(20 * time.Minute)
	for time.Now().Before(deadline) {
		for i := 0; i < maxSlots; i++ {
			f := open((i + os.Getpid()) % maxSlots)
			if f == nil {
				return func() {}
			}
			if syscall.Flock(int(f.Fd()), syscall.LOCK_EX|syscall.LOCK_NB) == nil {
				return func() { syscall.Flock(int(f.Fd()), syscall.LOCK_UN); f.Close() }
			}
			f.Close()
		}
		time.Sleep(300 * time.Millisecond)
	}
	return func() {}
}

type mutant struct {
	Name   string `json:"name"`
	File   string `json:"file"`
	Old    string `json:"old"`
	New    string `json:"new"`
	Expect string `json:"expect"`
	Count  int    `json:"count"`
	// Edits: a variant made of several substitutions (e.g. a check moved into a new helper)
	Edits []struct {
		File  string `json:"file"`
		Old   string `json:"old"`
		New   string `json:"new"`
		Count int    `json:"count"`
	} `json:"edits"`
}

type childResult struct {
	Exit       int
	Summary    string
	Violations []struct {
		Rule string `json:"rule"`
		Key  string `json:"key"`
		Pos  string `json:"pos"`
	}
	Stderr string
	tmp    string
}

func runChild(id, root, known string, extra ...string) childResult {
	self, _ := os.Executable()
	tmp, _ := os.MkdirTemp("", "verifcheck-"+id+"-")
	args := append([]string{"-prop", id, "-tier", "quick", "-root", root, "-known", known, "-out", tmp}, extra...)
	// children load dependencies from compiler export data (3 s instead of 9 s, a quarter of
	// the CPU); the repository's own packages are still type-checked from source. If that mode
	// cannot load (cold or unwritable build cache), the child is re-run in full-source mode.
	var so, se strings.Builder
	var err error
	for _, mode := range []string{"export", ""} {
		so.Reset()
		se.Reset()
		cmd := exec.Command(self, args...)
		cmd.Env = append(os.Environ(), "VERIF_LOAD="+mode)
		if os.Getenv("GOMAXPROCS") == "" {
			cmd.Env = append(cmd.Env, "GOMAXPROCS=8")
		}
		cmd.Stdout, cmd.Stderr = &so, &se
		err = cmd.Run()
		if ee, ok := err.(*exec.ExitError); !ok || ee.ExitCode() != 2 {
			break
		}
	}
	res := childResult{tmp: tmp, Stderr: strings.TrimSpace(se.String())}
	if err != nil {
		if ee, ok := err.(*exec.ExitError); ok {
			res.Exit = ee.ExitCode()
		} else {
			res.Exit = 2
			res.Stderr = err.Error()
		}
	}
	for _, l := range strings.Split(so.String(), "\n") {
		if strings.HasPrefix(l, "property=") {
			res.Summary = l
		}
	}
	if b, err := os.ReadFile(filepath.Join(tmp, id+".violations.json")); err == nil {
		json.Unmarshal(b, &res.Violations)
	}
	return res
}

// thorough extends the quick result of property id (already written to
// outDir) by (1) the same rule pack under the alternative build
// configurations — violations found there are violations; (2) a liveness
// self-test of the rules against the current tree: every committed mutant
// whose anchor text is present is analysed as an in-memory overlay (the disk
// is not touched, nothing is executed) and must make its rule fire, every
// benign variant must stay silent. The self-test is evidence only and never
// changes the exit code.
func thorough(id, root, outDir, known string) int {
	verif := filepath.Dir(known)
	t0 := time.Now()
	type job struct {
		kind string // "config" | "mutant"
		name string
		args []string
		mut  mutant
		res  childResult
	}
	var jobs []*job
	var cfgNames []string
	for n := range altConfigs {
		cfgNames = append(cfgNames, n)
	}
	sort.Strings(cfgNames)
	for _, n := range cfgNames {
		jobs = append(jobs, &job{kind: "config", name: n, args: []string{"-cfg", n}})
	}
	var muts []mutant
	if b, err := os.ReadFile(filepath.Join(verif, "mutants", id+".json")); err == nil {
		json.Unmarshal(b, &muts)
	}
	skipped := []string{}
	ovDir, _ := os.MkdirTemp("", "verifcheck-ov-"+id+"-")
	defer os.RemoveAll(ovDir)
	for i, m := range muts {
		type edit struct {
			file, old, new string
			count          int
		}
		edits := []edit{{m.File, m.Old, m.New, m.Count}}
		if len(m.Edits) > 0 {
			edits = nil
			for _, e := range m.Edits {
				edits = append(edits, edit{e.File, e.Old, e.New, e.Count})
			}
		}
		ov := map[string]string{}
		applicable := true
		for _, e := range edits {
			path := filepath.Join(root, e.file)
			cur, seen := ov[path]
			if !seen {
				src, err := os.ReadFile(path)
				if err != nil {
					applicable = false
					break
				}
				cur = string(src)
			}
			want := e.count
			if want == 0 {
				want = 1
			}
			if strings.Count(cur, e.old) != want {
				applicable = false
				break
			}
			ov[path] = strings.Replace(cur, e.old, e.new, -1)
		}
		if !applicable {
			skipped = append(skipped, m.Name)
			continue
		}
		b, _ := json.Marshal(ov)
		of := filepath.Join(ovDir, fmt.Sprintf("%d.json", i))
		os.WriteFile(of, b, 0o644)
		jobs = append(jobs, &job{kind: "mutant", name: m.Name, mut: m, args: []string{"-overlay", of}})
	}
	sem := make(chan struct{}, 3)
	var wg sync.WaitGroup
	for _, j := range jobs {
		wg.Add(1)
		go func(j *job) {
			defer wg.Done()
			sem <- struct{}{}
			defer func() { <-sem }()
			j.res = runChild(id, root, known, j.args...)
		}(j)
	}
	wg.Wait()

	exit := 0
	var cfgReport, selfReport []map[string]any
	killed, silentOK, missed, falseAlarm, nocompile := 0, 0, 0, 0, 0
	for _, j := range jobs {
		switch j.kind {
		case "config":
			r := map[string]any{"configuration": j.name, "env": altConfigs[j.name], "exit": j.res.Exit, "summary": j.res.Summary}
			switch j.res.Exit {
			case 0:
			case 1:
				replay := filepath.Join(outDir, fmt.Sprintf("%s.violations.%s.json", id, j.name))
				if b, err := os.ReadFile(filepath.Join(j.res.tmp, id+".violations.json")); err == nil {
					os.WriteFile(replay, b, 0o644)
				}
				for _, v := range j.res.Violations {
					fmt.Printf("  violated under configuration %s: %s @%s\n", j.name, v.Key, v.Pos)
				}
				fmt.Printf("VIOLATION property=%s replay=%s\n", id, replay)
				exit = 1
			default:
				// the configuration does not load / an anchor does not exist there: recorded, not a verdict
				r["not_analysable"] = firstLine(j.res.Stderr)
			}
			cfgReport = append(cfgReport, r)
		case "mutant":
			verdict := ""
			hit := false
			for _, v := range j.res.Violations {
				if strings.HasPrefix(v.Rule, j.mut.Expect) || strings.HasPrefix(v.Key, j.mut.Expect) {
					hit = true
				}
			}
			switch {
			case j.res.Exit == 2:
				verdict = "variant does not load/type-check"
				nocompile++
			case j.mut.Expect == "SILENT" && j.res.Exit == 0:
				verdict = "silent (as required for a behaviour-preserving edit)"
				silentOK++
			case j.mut.Expect == "SILENT":
				verdict = "FALSE ALARM on a behaviour-preserving edit"
				falseAlarm++
			case hit:
				verdict = "rule fired"
				killed++
			default:
				verdict = "MISSED"
				missed++
			}
			var keys []string
			for _, v := range j.res.Violations {
				keys = append(keys, v.Key)
			}
			selfReport = append(selfReport, map[string]any{"variant": j.name, "file": j.mut.File, "expect": j.mut.Expect, "verdict": verdict, "reported": keys})
		}
		os.RemoveAll(j.res.tmp)
	}
	// fold into the evidence file
	evPath := filepath.Join(outDir, id+".json")
	if b, err := os.ReadFile(evPath); err == nil {
		ev := map[string]any{}
		if json.Unmarshal(b, &ev) == nil {
			cov, _ := ev["coverage"].(map[string]any)
			if cov == nil {
				cov = map[string]any{}
			}
			cov["thorough_configurations"] = cfgReport
			cov["thorough_rule_liveness"] = map[string]any{
				"what":    "each committed source variant whose anchor text is present in the current tree was analysed as an in-memory overlay by the same rule pack (nothing executed, disk untouched); evidence only, never changes the verdict",
				"killed":  killed, "silent_ok": silentOK, "missed": missed, "false_alarm": falseAlarm, "not_loadable": nocompile,
				"skipped_anchor_absent": skipped,
				"variants":              selfReport,
			}
			if n, ok := cov["evaluations"].(float64); ok {
				cov["evaluations"] = n * float64(1+len(cfgReport))
			}
			ev["coverage"] = cov
			ev["wall_s"] = asFloat(ev["wall_s"]) + time.Since(t0).Seconds()
			if exit == 1 {
				ev["violations"] = asFloat(ev["violations"]) + 1
			}
			nb, _ := json.MarshalIndent(ev, "", " ")
			os.WriteFile(evPath, nb, 0o644)
		}
	}
	fmt.Printf("property=%s tier=thorough configurations=%d variants: fired=%d silent-ok=%d missed=%d false-alarm=%d skipped=%d wall=%.1fs\n",
		id, len(cfgReport), killed, silentOK, missed, falseAlarm, len(skipped)+nocompile, time.Since(t0).Seconds())
	return exit
}

func asFloat(v any) float64 {
	f, _ := v.(float64)
	return f
}

func firstLine(s string) string {
	if i := strings.IndexByte(s, '\n'); i >= 0 {
		s = s[:i]
	}
	if len(s) > 300 {
		s = s[:300]
	}
	return s
}
