// verifcheck decides structural necessary conditions of the any-sync
// properties by static analysis of /repo's current working tree.
//
//	verifcheck -prop C08 -tier quick [-root /repo] [-out /verif/evidence]
//
// exit 0: all obligations hold (KNOWN-FINDING lines possible)
// exit 1: VIOLATION property=<id> replay=<path>
// exit 2: checker broken / undecided (never a VIOLATION line)
package main

import (
	"encoding/json"
	"flag"
	"fmt"
	"os"
	"path/filepath"
	"runtime/debug"
	"sort"
	"strconv"
	"strings"
	"time"

	"verif/checker/core"
	"verif/checker/rules"
)

type knownFinding struct {
	Property string `json:"property"`
	Key      string `json:"key"`
	What     string `json:"what"`
	Status   string `json:"status"` // "known" | "fixed"
	Commit   string `json:"commit,omitempty"`
}

type knownFile struct {
	Findings []knownFinding `json:"findings"`
	Fixed    []string       `json:"fixed_log"`
}

func main() {
	prop := flag.String("prop", "", "property id (C01..C20) or 'all'")
	tier := flag.String("tier", "quick", "quick|thorough")
	root := flag.String("root", "/repo", "repository root to analyse")
	out := flag.String("out", "/verif/evidence", "evidence directory")
	known := flag.String("known", "/verif/known_findings.json", "known findings file")
	only := flag.String("rule", "", "only report obligations whose rule id has this prefix (replay)")
	verbose := flag.Bool("v", false, "print every obligation")
	dump := flag.String("dump", "", "debug: dump SSA of pkgrel:Func[,..]")
	snapAnchors := flag.String("snapshot-anchors", "", "write the anchor snapshot (names, signatures, field types of the repository) to this file and exit")
	cfgName := flag.String("cfg", "", "internal: analyse under an alternative build configuration (tags|windows|386)")
	overlay := flag.String("overlay", "", "internal: JSON file {abs path: content} analysed instead of the files on disk")
	flag.Parse()
	if *dump != "" {
		dumpFuncs(*root, *dump)
		return
	}
	if t := os.Getenv("VERIF_TIER"); t != "" && *tier == "" {
		*tier = t
	}
	seed := 0
	if s := os.Getenv("VERIF_SEED"); s != "" {
		seed, _ = strconv.Atoi(s)
	}
	if *snapAnchors != "" {
		p, err := core.Load(*root)
		if err == nil {
			err = p.WriteAnchorSnapshot(*snapAnchors)
		}
		if err != nil {
			fmt.Fprintf(os.Stderr, "CHECKER-BROKEN: %v\n", err)
			os.Exit(2)
		}
		return
	}
	if *prop == "" {
		fmt.Fprintln(os.Stderr, "usage: verifcheck -prop Cxx [-tier quick|thorough]")
		os.Exit(2)
	}
	abs, err := filepath.Abs(*root)
	if err == nil {
		*root = abs
	}
	var props []string
	if *prop == "all" {
		for id := range rules.Packs {
			props = append(props, id)
		}
		sort.Strings(props)
	} else {
		props = strings.Split(*prop, ",")
	}
	for _, id := range props {
		if _, ok := rules.Packs[id]; !ok {
			fmt.Fprintf(os.Stderr, "CHECKER-BROKEN: no rule pack for property %s\n", id)
			os.Exit(2)
		}
	}
	t0 := time.Now()
	var extraEnv []string
	if *cfgName != "" {
		e, ok := altConfigs[*cfgName]
		if !ok {
			fmt.Fprintf(os.Stderr, "CHECKER-BROKEN: unknown configuration %s\n", *cfgName)
			os.Exit(2)
		}
		extraEnv = e
	}
	if *overlay != "" {
		b, err := os.ReadFile(*overlay)
		if err == nil {
			m := map[string]string{}
			err = json.Unmarshal(b, &m)
			core.Overlay = map[string][]byte{}
			for k, v := range m {
				core.Overlay[k] = []byte(v)
			}
		}
		if err != nil {
			fmt.Fprintf(os.Stderr, "CHECKER-BROKEN: overlay: %v\n", err)
			os.Exit(2)
		}
	}
	release := acquireSlot()
	p, err := core.Load(*root, extraEnv...)
	if err != nil {
		fmt.Fprintf(os.Stderr, "CHECKER-BROKEN: %v\n", err)
		os.Exit(2)
	}
	core.IsNewFunc = p.IsNewSinceSnapshot
	core.AllRepoFuncs = p.RepoFuncs
	kf := loadKnown(*known)
	exit := 0
	for _, id := range props {
		code := runProp(p, id, *tier, seed, *out, kf, *only, *verbose, t0)
		if code > exit {
			exit = code
		}
		t0 = time.Now()
	}
	p = nil
	release()
	if *tier == "thorough" && *cfgName == "" && *overlay == "" && *only == "" {
		debug.FreeOSMemory()
		for _, id := range props {
			if code := thorough(id, *root, *out, *known); code > exit {
				exit = code
			}
		}
	}
	os.Exit(exit)
}

func loadKnown(path string) []knownFinding {
	b, err := os.ReadFile(path)
	if err != nil {
		return nil
	}
	var kf knownFile
	if err := json.Unmarshal(b, &kf); err != nil {
		fmt.Fprintf(os.Stderr, "CHECKER-BROKEN: %s: %v\n", path, err)
		os.Exit(2)
	}
	return kf.Findings
}

func runProp(p *core.Prog, id, tier string, seed int, outDir string, kf []knownFinding, only string, verbose bool, t0 time.Time) (code int) {
	pack := rules.Packs[id]
	ctx := core.NewCtx(p, id, tier)
	broken := ""
	func() {
		defer func() {
			if r := recover(); r != nil {
				if b, ok := r.(*core.Broken); ok {
					broken = b.Msg
				} else {
					broken = fmt.Sprintf("engine panic: %v\n%s", r, debug.Stack())
				}
			}
		}()
		pack.Run(ctx)
	}()
	if broken == "" {
		// a rule that no longer finds the constructs it was written for cannot
		// show its clause: the mechanism it guards is gone from the code.
		for _, v := range ctx.VacuityFailures() {
			ctx.Violate("vacuity", v, "-", "the code no longer contains the constructs this rule decides ("+v+"); the structural guarantee cannot be established")
		}
	}
	if broken == "" && len(ctx.Undecided) > 0 {
		broken = "undecided obligations: " + strings.Join(ctx.Undecided, "; ")
	}
	if broken != "" {
		fmt.Fprintf(os.Stderr, "CHECKER-BROKEN property=%s: %s\n", id, broken)
		return 2
	}
	// classify
	knownKeys := map[string]knownFinding{}
	for _, k := range kf {
		if k.Property == id && k.Status == "known" {
			knownKeys[k.Key] = k
		}
	}
	var viols, knownHit []core.Obligation
	held := 0
	for _, o := range ctx.Obls {
		if only != "" && !strings.HasPrefix(o.Rule, only) {
			continue
		}
		if verbose {
			st := "HELD"
			if !o.Held {
				st = "VIOLATED"
			}
			fmt.Printf("%-8s %s @%s :: %s\n", st, o.Key, o.Pos, o.Detail)
		}
		if o.Held {
			held++
			continue
		}
		if _, ok := knownKeys[o.Key]; ok {
			knownHit = append(knownHit, o)
			continue
		}
		viols = append(viols, o)
	}
	for _, o := range knownHit {
		fmt.Printf("KNOWN-FINDING: property=%s %s — %s (%s)\n", id, o.Key, knownKeys[o.Key].What, o.Pos)
	}
	wall := time.Since(t0).Seconds()
	// evidence
	total := len(ctx.Obls)
	var samples []any
	seenRule := map[string]int{}
	for _, o := range ctx.Obls {
		if seenRule[o.Rule] >= 2 || len(samples) >= 24 {
			continue
		}
		seenRule[o.Rule]++
		samples = append(samples, map[string]any{"rule": o.Rule, "key": o.Key, "pos": o.Pos, "held": o.Held, "detail": o.Detail})
	}
	distinct := map[string]bool{}
	for _, o := range ctx.Obls {
		distinct[o.Key] = true
	}
	var funcs []string
	for f := range ctx.Funcs {
		funcs = append(funcs, f)
	}
	sort.Strings(funcs)
	var allObls []any
	for _, o := range ctx.Obls {
		allObls = append(allObls, o)
	}
	ev := map[string]any{
		"property_id": id,
		"tier":        tier,
		"seed":        seed,
		"level":       "other",
		"coverage": map[string]any{
			"explanation":         pack.Explanation + rules.Addendum(id),
			"obligations":         total,
			"discharged":          held + len(knownHit)*0,
			"evaluations":         total,
			"distinct_nontrivial": len(distinct),
			"rule":                "one obligation per (rule id, resolved construct); non-trivial = the rule located at least one sink/site in today's source and decided it on the SSA/CFG/AST of the current tree",
			"samples":             samples,
			"rule_instance_counts": ctx.RuleCounts(),
			"functions_analysed":  funcs,
			"packages_loaded":     len(p.Pkgs),
			"ssa_functions":       len(p.AllFuncs),
			"known_findings_hit":  len(knownHit),
			"notes":               ctx.Notes,
			"load_errors_tolerated": p.Tolerated,
			"anchors_renamed":       p.Renamed,
			"all_obligations":     allObls,
			"checker_cmd":         fmt.Sprintf("/verif/bin/verifcheck -prop %s -tier %s", id, tier),
			"not_decided":         pack.NotDecided,
			"load_s":              p.LoadS,
			"ssa_s":               p.SSAS,
		},
		"assumptions": append([]string{
			"go/types and go/ssa (x/tools v0.50.0) model the Go semantics of the analysed packages faithfully",
			"decides only the structural clauses named in coverage.explanation; the behavioural remainder (coverage.not_decided) is not decided",
		}, pack.Assumptions...),
		"wall_s":     wall,
		"violations": len(viols),
	}
	os.MkdirAll(outDir, 0o755)
	b, _ := json.MarshalIndent(ev, "", " ")
	if err := os.WriteFile(filepath.Join(outDir, id+".json"), b, 0o644); err != nil {
		fmt.Fprintf(os.Stderr, "CHECKER-BROKEN: cannot write evidence: %v\n", err)
		return 2
	}
	fmt.Printf("property=%s tier=%s obligations=%d held=%d known=%d violations=%d functions=%d wall=%.1fs\n", id, tier, total, held, len(knownHit), len(viols), len(funcs), wall)
	if len(viols) > 0 {
		replay := filepath.Join(outDir, id+".violations.json")
		vb, _ := json.MarshalIndent(viols, "", " ")
		os.WriteFile(replay, vb, 0o644)
		for _, o := range viols {
			fmt.Printf("  violated: %s @%s\n    %s\n", o.Key, o.Pos, o.Detail)
		}
		fmt.Printf("VIOLATION property=%s replay=%s\n", id, replay)
		return 1
	}
	os.Remove(filepath.Join(outDir, id+".violations.json"))
	return 0
}
