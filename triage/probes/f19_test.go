package ldiff

// Probe F19 (C08): nested collapse. removeElement collapses only the parent of
// the bottom range; when a divided range and its divided child fall to the
// threshold with the same removal, the outer one stays divided although a
// freshly filled index would keep it flat: Hash() depends on the history.

import (
	"fmt"
	"math/rand"
	"testing"
)

func TestProbeF19(t *testing.T) {
	for _, prm := range [][2]int{{2, 1}, {4, 2}, {16, 16}} {
		bad := 0
		rnd := rand.New(rand.NewSource(1))
		for it := 0; it < 2000; it++ {
			d := New(prm[0], prm[1])
			cur := map[string]string{}
			n := 3 + rnd.Intn(40)
			for i := 0; i < n; i++ {
				id := fmt.Sprintf("id-%d", rnd.Intn(200))
				cur[id] = "h"
				d.Set(Element{Id: id, Head: "h"})
			}
			for id := range cur {
				if rnd.Intn(2) == 0 {
					_ = d.RemoveId(id)
					delete(cur, id)
				}
			}
			fresh := New(prm[0], prm[1])
			var els []Element
			for id, h := range cur {
				els = append(els, Element{Id: id, Head: h})
			}
			fresh.Set(els...)
			if d.Hash() != fresh.Hash() {
				bad++
			}
		}
		t.Logf("divideFactor=%d compareThreshold=%d: %d of 2000 histories end with a hash different from a fresh index", prm[0], prm[1], bad)
		if bad > 0 && !testing.Short() {
			t.Fail()
		}
	}
}
