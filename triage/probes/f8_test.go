package list

import (
	"testing"

	"github.com/anyproto/any-sync/commonspace/object/acl/aclrecordproto"
)

func TestProbeF8(t *testing.T) {
	ex := NewAclExecutor("spaceId")
	if err := ex.Execute("a.init::a"); err != nil { t.Fatal(err) }
	if err := ex.Execute("a.invite::invId"); err != nil { t.Fatal(err) }
	acl := ex.ActualAccounts()["a"].Acl
	st := acl.AclState()
	rec := &AclRecord{Id: "x", PrevId: st.lastRecordId, Identity: st.pubKey,
		Model: &aclrecordproto.AclData{AclContent: []*aclrecordproto.AclContentValue{
			{Value: &aclrecordproto.AclContentValue_AccountRemove{AccountRemove: &aclrecordproto.AclAccountRemove{}}},
		}}}
	defer func() { t.Logf("recovered: %v", recover()) }()
	err := st.Copy().ApplyRecord(rec)
	t.Logf("err=%v", err)
}
