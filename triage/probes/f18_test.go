package ldiff

// Probe F18 (C07): a local-only id in a range the local index has not divided
// (nil hash, elements listed) compared with the remote's EMPTY bottom range
// (nil hash): bytes.Equal(nil, nil) — the id is never reported as removed.

import (
	"context"
	"fmt"
	"testing"
)

func TestProbeF18(t *testing.T) {
	missed := 0
	for k := 0; k < 50; k++ {
		local := New(16, 16)
		remote := New(16, 16)
		own := fmt.Sprintf("own-%d", k)
		local.Set(Element{Id: own, Head: "h"})
		for i := 0; i < 600; i++ {
			remote.Set(Element{Id: fmt.Sprintf("r-%d", i), Head: "h"})
		}
		newIds, changed, removed, err := local.Diff(context.Background(), remote)
		if err != nil {
			t.Fatal(err)
		}
		found := false
		for _, id := range removed {
			if id == own {
				found = true
			}
		}
		if !found {
			missed++
			t.Logf("k=%d: local-only id %s not reported as removed (new=%d changed=%d removed=%v)", k, own, len(newIds), len(changed), removed)
		}
	}
	if missed > 0 {
		t.Fatalf("%d of 50 local-only ids were not reported", missed)
	}
}
