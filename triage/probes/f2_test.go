package objecttree

import (
	"errors"
	"testing"
)

func TestProbeF2(t *testing.T) {
	aclList, keys := prepareAclList(t)
	tc := prepareTreeContext(t, aclList)
	ot := tc.objTree.(*objectTree)
	ts := &testStorage{Storage: ot.storage, errAdd: errors.New("disk full")}
	ot.storage = ts
	ot.Lock()
	defer ot.Unlock()
	_, err := ot.AddContent(ctx, SignableChangeContent{Data: []byte("x"), Key: keys.SignKey, IsSnapshot: false, ShouldBeEncrypted: false})
	stHeads, _ := ts.Storage.Heads(ctx)
	t.Logf("F2: add err=%v memHeads=%v storageHeads=%v", err, ot.Heads(), stHeads)

	// F3: snapshot + failing validator
	ts.errAdd = nil
	_, _ = ot.rebuildFromStorage(nil, nil, nil)
	_, err = ot.AddContentWithValidator(ctx, SignableChangeContent{Data: []byte("y"), Key: keys.SignKey, IsSnapshot: true}, func(StorageChange) error { return errors.New("rejected") })
	t.Logf("F3: err=%v treeLen=%d root=%q", err, len(ot.tree.attached), ot.tree.RootId())
}
