package synctree

import (
	"context"
	"testing"

	"github.com/anyproto/any-sync/commonspace/object/tree/synctree/response"
)

// A full-sync response that carries changes but no root (rootChange is optional on the wire).
func TestProbeF9(t *testing.T) {
	defer func() {
		if r := recover(); r != nil {
			t.Fatalf("CollectResponse panicked on a response without root: %v", r)
		}
	}()
	c := newFullResponseCollector(BuildDeps{})
	err := c.CollectResponse(context.Background(), "peer", "obj", &response.Response{Heads: []string{"h"}})
	t.Logf("err=%v", err)
}
