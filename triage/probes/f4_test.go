package list

import (
	"context"
	"errors"
	"testing"

	"github.com/anyproto/any-sync/commonspace/object/acl/list/listtest"
)

type failingStorage struct {
	Storage
	fail bool
}

func (f *failingStorage) AddAll(ctx context.Context, recs []StorageRecord) error {
	if f.fail {
		return errors.New("disk full")
	}
	return f.Storage.AddAll(ctx, recs)
}

func TestProbeF4(t *testing.T) {
	ex := NewAclExecutor("spaceId")
	if err := ex.Execute("a.init::a"); err != nil {
		t.Fatal(err)
	}
	acl := ex.ActualAccounts()["a"].Acl.(*aclList)
	fs := &failingStorage{Storage: acl.storage, fail: true}
	acl.storage = fs
	res, err := acl.RecordBuilder().BuildInvite()
	if err != nil {
		t.Fatal(err)
	}
	rec := listtest.WrapAclRecord(res.InviteRec)
	headBefore := acl.Head().Id
	err = acl.AddRawRecord(rec)
	stHead, _ := fs.Storage.Head(context.Background())
	t.Logf("first add err=%v; memHead changed=%v; storageHead==memHead: %v", err, acl.Head().Id != headBefore, stHead == acl.Head().Id)
	fs.fail = false
	err = acl.AddRawRecord(rec)
	t.Logf("retry err=%v", err)
}
