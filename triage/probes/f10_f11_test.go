package keyvalue

import (
	"testing"
	"time"

	anystore "github.com/anyproto/any-store"
	"github.com/stretchr/testify/require"

	"github.com/anyproto/any-sync/commonspace/object/accountdata"
	"github.com/anyproto/any-sync/commonspace/spacesyncproto"
)

// F10: a validly signed value filed under a slot other than the one named in the signed bytes.
func TestProbeF10(t *testing.T) {
	ownerKeys, err := accountdata.NewRandom()
	require.NoError(t, err)
	payload := newStorageCreatePayload(t, ownerKeys)
	fxA := newFixture(t, ownerKeys, payload)
	recvKeys, err := accountdata.NewRandom()
	require.NoError(t, err)
	recvKeys.SignKey = ownerKeys.SignKey
	fxB := newFixture(t, recvKeys, payload)
	fxA.add(t, "profile", []byte("genuine"))
	slot := "profile-" + ownerKeys.PeerKey.GetPublic().PeerId()
	genuine, err := fxA.defaultStore.InnerStorage().GetKeyPeerId(ctx, slot)
	require.NoError(t, err)
	p := genuine.Proto()
	p.KeyPeerId = "somebody-elses-slot"
	require.NoError(t, fxB.defaultStore.SetRaw(ctx, p))
	_, err = fxB.defaultStore.InnerStorage().GetKeyPeerId(ctx, "somebody-elses-slot")
	require.ErrorIs(t, err, anystore.ErrDocNotFound, "a signed value was filed under a slot its signed bytes do not name")
}

// F11: a value signed by an account that holds no permission at the ACL record it cites.
func TestProbeF11(t *testing.T) {
	ownerKeys, err := accountdata.NewRandom()
	require.NoError(t, err)
	payload := newStorageCreatePayload(t, ownerKeys)
	fxB := newFixture(t, ownerKeys, payload)
	fxB.add(t, "seed", []byte("x"))
	seedKv, err := fxB.defaultStore.InnerStorage().GetKeyPeerId(ctx, "seed-"+ownerKeys.PeerKey.GetPublic().PeerId())
	require.NoError(t, err)
	seedInner := &spacesyncproto.StoreKeyInner{}
	require.NoError(t, seedInner.UnmarshalVT(seedKv.Value.Value))
	outsider, err := accountdata.NewRandom()
	require.NoError(t, err)
	peerPub, err := outsider.PeerKey.GetPublic().Marshall()
	require.NoError(t, err)
	idPub, err := outsider.SignKey.GetPublic().Marshall()
	require.NoError(t, err)
	inner := &spacesyncproto.StoreKeyInner{
		Peer: peerPub, Identity: idPub, Value: []byte("junk"), TimestampMicro: time.Now().UnixMicro(),
		AclHeadId: seedInner.AclHeadId, Key: "profile",
	}
	b, err := inner.MarshalVT()
	require.NoError(t, err)
	ps, err := outsider.PeerKey.Sign(b)
	require.NoError(t, err)
	is, err := outsider.SignKey.Sign(b)
	require.NoError(t, err)
	slot := "profile-" + outsider.PeerKey.GetPublic().PeerId()
	require.NoError(t, fxB.defaultStore.SetRaw(ctx, &spacesyncproto.StoreKeyValue{KeyPeerId: slot, Value: b, PeerSignature: ps, IdentitySignature: is}))
	_, err = fxB.defaultStore.InnerStorage().GetKeyPeerId(ctx, slot)
	require.ErrorIs(t, err, anystore.ErrDocNotFound, "a value signed by an account without write permission was stored")
}
