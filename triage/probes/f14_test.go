package ocache

import (
	"context"
	"testing"
	"time"
)

type probeObj14 struct{}

func (probeObj14) Close() error                          { return nil }
func (probeObj14) TryClose(time.Duration) (bool, error) { return true, nil }

// TryRemove of an id whose load is still in flight.
func TestProbeF14(t *testing.T) {
	started := make(chan struct{})
	release := make(chan struct{})
	c := New(func(ctx context.Context, id string) (Object, error) {
		close(started)
		<-release
		return probeObj14{}, nil
	})
	go func() { _, _ = c.Get(context.Background(), "x") }()
	<-started
	defer close(release)
	defer func() {
		if r := recover(); r != nil {
			t.Fatalf("TryRemove panicked on a loading entry: %v", r)
		}
	}()
	_, _ = c.TryRemove("x")
}
