package handshake

import (
	"bytes"
	"io"
	"testing"

	"github.com/anyproto/any-sync/net/secureservice/handshake/handshakeproto"
)

type rwc struct{ *bytes.Buffer }

func (rwc) Close() error { return nil }

func frame(t *testing.T, c *handshakeproto.Credentials) io.ReadWriteCloser {
	h := newHandshake()
	buf := &bytes.Buffer{}
	h.conn = rwc{buf}
	if err := h.writeCredentials(c); err != nil {
		t.Fatal(err)
	}
	out := bytes.NewBuffer(append([]byte{}, buf.Bytes()...))
	h.release()
	return rwc{out}
}

func TestProbeF13(t *testing.T) {
	// connection 1: a compatible peer announces version 8 and a client version
	f1 := frame(t, &handshakeproto.Credentials{Type: handshakeproto.CredentialsType_SkipVerify, Version: 8, ClientVersion: "good:v1"})
	f2 := frame(t, &handshakeproto.Credentials{Type: handshakeproto.CredentialsType_SkipVerify})
	h := newHandshake()
	h.conn = f1
	m, err := h.readMsg(msgTypeCred)
	if err != nil { t.Fatal(err) }
	t.Logf("conn1 cred: version=%d client=%q", m.cred.Version, m.cred.ClientVersion)
	h.release()
	// connection 2: another peer sends credentials WITHOUT version / clientVersion fields
	h2 := newHandshake()
	h2.conn = f2
	m2, err := h2.readMsg(msgTypeCred)
	if err != nil { t.Fatal(err) }
	t.Logf("conn2 cred (sent version=0, client=\"\"): seen version=%d client=%q sameObject=%v", m2.cred.Version, m2.cred.ClientVersion, h == h2)
	h2.release()
}
