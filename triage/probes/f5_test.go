package objecttree

import (
	"testing"

	anystore "github.com/anyproto/any-store"
	"github.com/anyproto/any-sync/commonspace/headsync/headstorage"
)

func TestProbeF5(t *testing.T) {
	store := createStore(ctx, t)
	cc := NewMockChangeCreator(func() anystore.DB { return store })
	root := cc.CreateRoot("r0", "aclHead")
	hs, err := headstorage.New(ctx, store)
	if err != nil { t.Fatal(err) }
	st, err := CreateStorageWithDeferredCreation(ctx, root, hs, store)
	if err != nil { t.Fatal(err) }
	initTestAddSeq(st)
	ch := StorageChange{RawChange: []byte("c1"), Id: "c1", PrevIds: []string{"r0"}, SnapshotId: "r0", OrderId: "zz1", SnapshotCounter: 1}
	// first attempt fails inside the tx (duplicate id in one batch)
	err = st.AddAll(ctx, []StorageChange{ch, ch}, []string{"c1"}, "r0")
	t.Logf("first AddAll err=%v; inner storage set=%v", err, st.(*storageDeferredCreation).storage != nil)
	// retry with valid input
	err = st.AddAll(ctx, []StorageChange{ch}, []string{"c1"}, "r0")
	t.Logf("retry err=%v", err)
	hasRoot, _ := st.Has(ctx, "r0")
	hasC1, _ := st.Has(ctx, "c1")
	entry, eerr := hs.GetEntry(ctx, "r0")
	t.Logf("durable: root stored=%v c1 stored=%v headsEntry=%v err=%v", hasRoot, hasC1, entry.Heads, eerr)
	_, nerr := NewStorage(ctx, "r0", hs, store)
	t.Logf("reopen err=%v", nerr)
}
