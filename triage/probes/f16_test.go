package list

import (
	"context"
	"errors"
	"testing"

	"github.com/stretchr/testify/require"

	"github.com/anyproto/any-sync/commonspace/headsync/headstorage"
	"github.com/anyproto/any-sync/commonspace/object/accountdata"
	"github.com/anyproto/any-sync/consensus/consensusproto"
)

type faultyHeads16 struct {
	headstorage.HeadStorage
	fail bool
}

func (f *faultyHeads16) UpdateEntry(ctx context.Context, u headstorage.HeadsUpdate) error {
	if f.fail {
		return errors.New("injected: head upsert failed")
	}
	return f.HeadStorage.UpdateEntry(ctx, u)
}

// A failing head update inside acl storage.AddAll must not commit the record.
func TestProbeF16(t *testing.T) {
	ctx := context.Background()
	keys, err := accountdata.NewRandom()
	require.NoError(t, err)
	var fh *faultyHeads16
	acl, err := newDerivedAclWithStoreProvider("spaceId", keys, []byte("metadata"), func(root *consensusproto.RawRecordWithId) (Storage, error) {
		store := createStore(ctx, t)
		hs, err := headstorage.New(ctx, store)
		require.NoError(t, err)
		fh = &faultyHeads16{HeadStorage: hs}
		return CreateStorage(ctx, root, fh, store)
	})
	require.NoError(t, err)
	st := acl.(*aclList).storage
	headBefore, err := st.Head(ctx)
	require.NoError(t, err)
	fh.fail = true
	rec := StorageRecord{RawRecord: []byte("x"), PrevId: headBefore, Id: "rec-1", Order: 2, ChangeSize: 1}
	err = st.AddAll(ctx, []StorageRecord{rec})
	require.Error(t, err, "AddAll must report the failed head update")
	has, herr := st.Has(ctx, "rec-1")
	require.NoError(t, herr)
	headAfter, _ := st.Head(ctx)
	require.Equal(t, headBefore, headAfter)
	require.False(t, has, "record was committed although the head update failed: ACL head is not the last stored record")
}
