package encoding

import (
	"encoding/binary"
	"runtime"
	"testing"

	"github.com/anyproto/any-sync/commonspace/spacesyncproto"
)

// A 6-byte message claiming a 1 GiB decoded length.
func TestProbeF7(t *testing.T) {
	buf := binary.AppendUvarint(nil, 1<<30)
	buf = append(buf, 0x00)
	var m1, m2 runtime.MemStats
	runtime.GC()
	runtime.ReadMemStats(&m1)
	err := snappyEncoding{}.Unmarshal(buf, &spacesyncproto.HeadSyncRequest{})
	runtime.ReadMemStats(&m2)
	t.Logf("input %d bytes, err=%v, allocated %d MiB", len(buf), err, (m2.TotalAlloc-m1.TotalAlloc)>>20)
	if (m2.TotalAlloc-m1.TotalAlloc)>>20 > 16 {
		t.Fatalf("allocation unrelated to the input size")
	}
}
