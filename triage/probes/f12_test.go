package ocache

import (
	"context"
	"errors"
	"testing"
	"time"
)

type probeObj struct{}

func (probeObj) Close() error { return nil }
func (probeObj) TryClose(time.Duration) (bool, error) { return true, errors.New("close failed") }

func TestProbeF12(t *testing.T) {
	c := New(func(ctx context.Context, id string) (Object, error) { return probeObj{}, nil }, WithTTL(0))
	_, err := c.Get(context.Background(), "a")
	if err != nil { t.Fatal(err) }
	ok, err := c.TryRemove("a")
	t.Logf("TryRemove ok=%v err=%v len=%d", ok, err, c.Len())
	ctx, cancel := context.WithTimeout(context.Background(), 300*time.Millisecond)
	defer cancel()
	_, err = c.Get(ctx, "a")
	t.Logf("Get after failed TryRemove: err=%v", err)
}
