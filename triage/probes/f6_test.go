package crypto

import "testing"

func TestProbeF6(t *testing.T) {
	priv, _, _ := GenerateRandomEd25519KeyPair()
	defer func() { t.Logf("recovered: %v", recover()) }()
	_, err := priv.Decrypt([]byte{1, 2, 3})
	t.Logf("err=%v", err)
}
