package ldiff

import "testing"

func TestProbeF1(t *testing.T) {
	a := New(4, 1)
	a.Set(Element{Id: "x", Head: "1"})
	for i := 0; i < 40; i++ {
		a.Set(Element{Id: "x", Head: "2"})
	}
	b := New(4, 1)
	b.Set(Element{Id: "x", Head: "2"})
	if a.Hash() != b.Hash() {
		t.Fatalf("hash differs: %s vs %s", a.Hash(), b.Hash())
	}
}
