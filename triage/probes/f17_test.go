package list

import (
	"testing"
	"time"

	"github.com/stretchr/testify/require"

	"github.com/anyproto/any-sync/commonspace/object/accountdata"
	"github.com/anyproto/any-sync/commonspace/object/acl/aclrecordproto"
	"github.com/anyproto/any-sync/commonspace/object/acl/list/listtest"
	"github.com/anyproto/any-sync/consensus/consensusproto"
)

func f17Sign(t *testing.T, keys *accountdata.AccountKeys, prevId string, contents ...*aclrecordproto.AclContentValue) *consensusproto.RawRecord {
	data, err := (&aclrecordproto.AclData{AclContent: contents}).MarshalVT()
	require.NoError(t, err)
	identity, err := keys.SignKey.GetPublic().Marshall()
	require.NoError(t, err)
	payload, err := (&consensusproto.Record{PrevId: prevId, Identity: identity, Data: data, Timestamp: time.Now().Unix()}).MarshalVT()
	require.NoError(t, err)
	sig, err := keys.SignKey.Sign(payload)
	require.NoError(t, err)
	return &consensusproto.RawRecord{Payload: payload, Signature: sig}
}

// A plain admin (not the owner) "accepts" the pending REMOVAL request of another admin
// with Reader permissions: the Admin role is revoked by a non-owner.
func TestProbeF17(t *testing.T) {
	ex := NewAclExecutor("spaceId")
	for _, cmd := range []string{
		"a.init::a",
		"a.invite::inv",
		"e.join::inv",
		"a.approve::e,adm",
		"f.join::inv",
		"a.approve::f,adm",
		"f.request_remove::f",
	} {
		require.NoError(t, ex.Execute(cmd), cmd)
	}
	node := ex.ActualAccounts()["a"].Acl
	eKeys := ex.ActualAccounts()["e"].Keys
	fPub := ex.ActualAccounts()["f"].Keys.SignKey.GetPublic()
	require.True(t, node.AclState().Permissions(fPub).IsAdmin())
	req, err := node.AclState().Record(fPub)
	require.NoError(t, err)
	require.Equal(t, RequestTypeRemove, req.Type)
	fProto, err := fPub.Marshall()
	require.NoError(t, err)
	accept := f17Sign(t, eKeys, node.Head().Id, &aclrecordproto.AclContentValue{
		Value: &aclrecordproto.AclContentValue_RequestAccept{RequestAccept: &aclrecordproto.AclAccountRequestAccept{
			Identity: fProto, RequestRecordId: req.RecordId, EncryptedReadKey: []byte("x"), Permissions: aclrecordproto.AclUserPermissions_Reader,
		}},
	})
	err = node.ValidateRawRecord(accept, nil)
	if err == nil {
		err = node.AddRawRecord(listtest.WrapAclRecord(accept))
	}
	t.Logf("admin e accepts f's removal request as Reader: err=%v; f is now %v", err, node.AclState().Permissions(fPub))
	require.True(t, node.AclState().Permissions(fPub).IsAdmin(), "a non-owner admin revoked another admin's role through RequestAccept on a removal request")
}
