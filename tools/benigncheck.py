#!/usr/bin/env python3
"""Runs every behaviour-preserving refactoring under <dir>/<Cxx>/*.diff against the rule pack of
its property (as overlays on /repo). Any exit other than 0 is a false alarm (1) or a broken
check (2) to be triaged.  usage: benigncheck.py <dir> [Cxx ...]"""
import glob, os, subprocess, sys, concurrent.futures as cf
root = sys.argv[1]; only = sys.argv[2:]
tasks = []
for d in sorted(glob.glob(os.path.join(root, "C??"))):
    p = os.path.basename(d)
    if only and p not in only: continue
    for f in sorted(glob.glob(os.path.join(d, "*.diff"))):
        tasks.append((p, f))
def run(t):
    p, f = t
    r = subprocess.run(["python3", os.path.join(os.path.dirname(os.path.abspath(__file__)), "patchcheck.py"), f, "all"], capture_output=True, text=True)
    return p, f, r.returncode, (r.stdout + r.stderr)
bad = 0
with cf.ThreadPoolExecutor(6) as ex:
    for p, f, rc, out in ex.map(run, tasks):
        tag = {0: "silent", 1: "FALSE-ALARM", 2: "BROKEN", 3: "NOAPPLY"}.get(rc, "rc=%d" % rc)
        print("%s %-28s %s" % (p, os.path.basename(f), tag))
        if rc != 0:
            bad += 1
            keep = [l for l in out.splitlines() if "violations=0" not in l and "KNOWN-FINDING" not in l]
            print("\n".join("    " + l[:300] for l in keep[:40]))
print("refactorings: %d, not silent: %d" % (len(tasks), bad))
