#!/usr/bin/env python3
"""Analyses one patch as an overlay on /repo (nothing applied to /repo).
usage: patchcheck.py <patch.diff> <Cxx>[,Cyy] [-v]"""
import json, os, re, subprocess, sys, tempfile, shutil
patch, props = os.path.abspath(sys.argv[1]), sys.argv[2]
files = re.findall(r"^\+\+\+ b/(\S+)", open(patch).read(), re.M)
tmp = tempfile.mkdtemp(prefix="pc-")
try:
    for f in files:
        os.makedirs(os.path.dirname(os.path.join(tmp, f)), exist_ok=True)
        if os.path.exists("/repo/" + f): shutil.copy("/repo/" + f, os.path.join(tmp, f))
    r = subprocess.run(["patch", "-p1", "-s", "--fuzz=3", "-i", patch], cwd=tmp, capture_output=True, text=True)
    if r.returncode: print("PATCH DOES NOT APPLY", r.stdout, r.stderr); sys.exit(3)
    json.dump({"/repo/" + f: open(os.path.join(tmp, f)).read() for f in files}, open(tmp + "/ov.json", "w"))
    r = subprocess.run(["/verif/bin/verifcheck", "-prop", props, "-overlay", tmp + "/ov.json", "-out", tmp + "/ev"], capture_output=True, text=True)
    for l in (r.stdout + r.stderr).splitlines():
        if l.startswith(("property=", "  violated", "VIOLATION", "KNOWN", "CHECKER")) or "-v" in sys.argv: print(l[:330])
    sys.exit(r.returncode)
finally:
    shutil.rmtree(tmp, ignore_errors=True)
