#!/usr/bin/env python3
"""Runs every seeded change under /verif/seeded against the rule pack of its property
WITHOUT touching /repo: the patch is applied to copies of the touched files in a scratch
directory and handed to the checker as an in-memory overlay (-overlay).  Writes
/verif/seeded/MATRIX.json and folds "caught_by" into each seed's meta.json.

usage: seedmatrix.py [--jobs N] [Cxx-A ...]
"""
import json, os, re, subprocess, sys, tempfile, shutil, concurrent.futures as cf

VERIF = os.path.dirname(os.path.dirname(os.path.abspath(__file__)))
REPO = "/repo"

def section(readme, pat):
    m = re.search(r"^##+\s*[^\n]*" + pat + r"[^\n]*\n(.*?)(?=^##+\s|\Z)", readme, re.S | re.M | re.I)
    return re.sub(r"\s+", " ", m.group(1)).strip() if m else ""

def run(seed):
    d = os.path.join(VERIF, "seeded", seed)
    prop = seed.split("-")[0]
    patch = os.path.join(d, "patch.diff")
    files = re.findall(r"^\+\+\+ b/(\S+)", open(patch).read(), re.M)
    tmp = tempfile.mkdtemp(prefix="seedov-")
    try:
        for f in files:
            os.makedirs(os.path.dirname(os.path.join(tmp, f)), exist_ok=True)
            if os.path.exists(os.path.join(REPO, f)):
                shutil.copy(os.path.join(REPO, f), os.path.join(tmp, f))
        r = subprocess.run(["patch", "-p1", "-s", "--fuzz=3", "-i", patch], cwd=tmp, capture_output=True, text=True)
        if r.returncode != 0:
            return seed, {"error": "patch does not apply: " + (r.stdout + r.stderr)[-300:]}
        ov = {os.path.join(REPO, f): open(os.path.join(tmp, f)).read() for f in files}
        ovf = os.path.join(tmp, "overlay.json")
        json.dump(ov, open(ovf, "w"))
        out = os.path.join(tmp, "ev")
        r = subprocess.run([os.path.join(VERIF, "bin/verifcheck"), "-prop", prop, "-overlay", ovf, "-out", out], capture_output=True, text=True)
        viol = []
        vf = os.path.join(out, prop + ".violations.json")
        if os.path.exists(vf):
            viol = [v["key"] for v in json.load(open(vf))]
        return seed, {"exit": r.returncode, "caught": r.returncode == 1, "violated": viol}
    finally:
        shutil.rmtree(tmp, ignore_errors=True)

def main():
    args = [a for a in sys.argv[1:] if not a.startswith("--")]
    jobs = 5
    if "--jobs" in sys.argv:
        jobs = int(sys.argv[sys.argv.index("--jobs") + 1]); args = [a for a in args if a != str(jobs)]
    seeds = args or sorted(x for x in os.listdir(os.path.join(VERIF, "seeded")) if re.match(r"C\d\d-[A-Z]$", x))
    res = {}
    with cf.ThreadPoolExecutor(jobs) as ex:
        for seed, r in ex.map(run, seeds):
            res[seed] = r
            print("%-6s %-7s %s" % (seed, "CAUGHT" if r.get("caught") else ("ERROR" if "error" in r else "MISSED"), "; ".join(r.get("violated", []))[:200] or r.get("error", "")))
    mpath = os.path.join(VERIF, "seeded", "MATRIX.json")
    old = json.load(open(mpath)) if os.path.exists(mpath) else {}
    old.update(res)
    json.dump(old, open(mpath, "w"), indent=1, sort_keys=True)
    for seed, r in res.items():
        d = os.path.join(VERIF, "seeded", seed)
        mp = os.path.join(d, "meta.json")
        meta = json.load(open(mp)) if os.path.exists(mp) else {}
        readme = open(os.path.join(d, "README.md")).read() if os.path.exists(os.path.join(d, "README.md")) else ""
        meta["breaks_property"] = seed.split("-")[0]
        meta["clause_broken"] = section(readme, r"clause") or meta.get("clause_broken", "")
        meta["needs_to_manifest"] = section(readme, r"needs") or meta.get("needs_to_manifest", "")
        meta["what_was_run"] = [
            "tools/confirm_seed.py: scratch worktree of /repo HEAD; demo on unchanged tree (must pass); git apply patch.diff; go build ./...; demo with change (must fail); go test of the touched packages with change (must pass)",
            "tools/seedmatrix.py: patch applied to copies of the touched files, analysed by ./bin/verifcheck -prop %s as an overlay on /repo's current tree" % seed.split("-")[0],
        ]
        meta["check_result"] = r
        json.dump(meta, open(mp, "w"), indent=1)
    missed = [s for s, r in res.items() if not r.get("caught")]
    print("seeds: %d, caught: %d, not caught: %s" % (len(res), len(res) - len(missed), missed))

main()
