#!/usr/bin/env python3
"""Confirms a seeded change in a scratch worktree of /repo (never in /repo itself):
 demo passes on the unchanged tree, patch applies and builds, demo fails with it,
 the existing tests of the touched packages still pass. Writes meta.json.

usage: confirm_seed.py <seed-dir> <property> [--full]
  <seed-dir> holds patch.diff, demo_test.go (first comment lines name the target dir and -run pattern)
"""
import json, os, re, subprocess, sys, shutil, tempfile, time

def sh(cmd, cwd, timeout=1500):
    env = dict(os.environ, GOFLAGS="-mod=mod", GOPROXY="off")
    r = subprocess.run(cmd, cwd=cwd, shell=True, capture_output=True, text=True, env=env, timeout=timeout)
    return r.returncode, (r.stdout + r.stderr)

def main():
    seed = os.path.abspath(sys.argv[1]); prop = sys.argv[2]; full = "--full" in sys.argv
    head = open(os.path.join(seed, "demo_test.go")).read(1500)
    m = re.search(r"[Cc]opy into:?\s+(\S+/)", head)
    run = re.search(r"-run\s+'?([A-Za-z0-9_]+)'?", head)
    if not m or not run:
        print("cannot parse demo header"); sys.exit(2)
    pkgdir, pat = m.group(1).rstrip("/"), run.group(1)
    wt = tempfile.mkdtemp(prefix="cs-", dir="/tmp")
    os.rmdir(wt)
    subprocess.run(["git", "-C", "/repo", "worktree", "add", "-q", "--detach", wt, "HEAD"], check=True)
    meta = {"property": prop, "seed": os.path.basename(seed), "demo_dir": pkgdir, "demo_run": pat, "confirmed_at_repo_head": subprocess.check_output(["git", "-C", "/repo", "rev-parse", "--short", "HEAD"], text=True).strip()}
    try:
        demo = os.path.join(wt, pkgdir, "zz_seed_demo_test.go")
        shutil.copy(os.path.join(seed, "demo_test.go"), demo)
        rc, out = sh("go test -vet=off -count=1 -run '%s' ./%s/" % (pat, pkgdir), wt)
        meta["demo_on_unchanged_tree"] = "pass" if rc == 0 else "FAIL"
        meta["demo_on_unchanged_tail"] = out[-300:]
        rc, out = sh("git apply %s" % os.path.join(seed, "patch.diff"), wt)
        if rc != 0:
            meta["patch_applies"] = False; meta["apply_err"] = out[-400:]
            print(json.dumps(meta, indent=1)); return
        meta["patch_applies"] = True
        files = subprocess.check_output(["git", "-C", wt, "diff", "--name-only"], text=True).split()
        meta["files_touched"] = files
        rc, out = sh("go build ./...", wt)
        meta["builds"] = rc == 0
        rc, out = sh("go test -vet=off -count=1 -run '%s' ./%s/" % (pat, pkgdir), wt)
        meta["demo_with_change"] = "fail" if rc != 0 else "PASS(not a break)"
        meta["demo_with_change_tail"] = out[-500:]
        os.remove(demo)
        pk = sorted(set("./" + os.path.dirname(f) + "/..." for f in files))
        if full:
            pk = ["./..."]
        rc, out = sh("go test -vet=off -count=1 %s 2>&1 | grep -v '^?' | grep -v 'no test files'" % " ".join(pk), wt)
        bad = [l for l in out.splitlines() if l.startswith("FAIL") or l.startswith("--- FAIL")]
        bad = [l for l in bad if "periodicsync" not in l and l.strip() != "FAIL"]
        meta["existing_tests_scope"] = pk
        meta["existing_tests_with_change"] = "pass" if not bad else "FAIL: " + "; ".join(bad)[:400]
    finally:
        subprocess.run(["git", "-C", "/repo", "worktree", "remove", "--force", wt])
    ok = meta.get("demo_on_unchanged_tree") == "pass" and meta.get("builds") and meta.get("demo_with_change") == "fail" and meta.get("existing_tests_with_change") == "pass"
    meta["confirmed"] = bool(ok)
    json.dump(meta, open(os.path.join(seed, "meta.json"), "w"), indent=1)
    print(json.dumps({k: meta[k] for k in meta if not k.endswith("_tail")}, indent=1))

if __name__ == "__main__":
    main()
