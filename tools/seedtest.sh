#!/bin/sh
# usage: seedtest.sh <patch.diff> <PROP[,PROP..]>   — applies a seeded change to /repo, runs the
# given rule packs (evidence to a scratch dir), and restores /repo straight afterwards.
patch="$1"; props="$2"
cd /repo || exit 2
if [ -n "$(git status --porcelain)" ]; then echo "/repo not clean"; exit 2; fi
if ! git apply --3way "$patch" 2>/tmp/seedapply.err; then
  if ! git apply "$patch" 2>>/tmp/seedapply.err; then echo "PATCH DOES NOT APPLY"; cat /tmp/seedapply.err; git reset -q --hard HEAD; exit 3; fi
fi
git reset -q
out=$(mktemp -d)
/verif/bin/verifcheck -prop "$props" -out "$out" | grep -E "^(property=|  violated:|VIOLATION|KNOWN)" | cut -c1-330
rc=$?
git reset -q --hard HEAD; git clean -fdq
rm -rf "$out"
