#!/usr/bin/env python3
"""Generates /verif/MANIFEST.json from /verif/claims.json (one entry per property:
either a claim or a not-applicable reason) and validates it against the schema."""
import json, os, sys

VERIF = os.path.dirname(os.path.dirname(os.path.abspath(__file__)))
claims = json.load(open(os.path.join(VERIF, "claims.json")))
props = [json.loads(l)["id"] for l in open(os.path.join(VERIF, "properties.jsonl"))]

checks, na = [], []
for pid in props:
    c = claims.get(pid)
    if not c or "na" in c:
        na.append({"property_id": pid, "reason": (c or {}).get("na", "rule pack not built yet; no check is claimed for this property")})
        continue
    checks.append({
        "property_id": pid,
        "quick_cmd": "./bin/verifcheck -prop %s -tier quick" % pid,
        "thorough_cmd": "./bin/verifcheck -prop %s -tier thorough" % pid,
        "evidence_file": "/verif/evidence/%s.json" % pid,
        "replay_cmd_template": "./bin/verifcheck -prop %s -tier quick -v  # violated obligations are listed in {path}" % pid,
        "engine": "verifcheck",
        "level_claimed": {"category": "other", "text": c["text"], "design_ref": "DESIGN.md section 4, " + pid},
        "level_note": c["note"],
        "technique": c["technique"],
    })

manifest = {
    "version": 1,
    "setup_cmd": "./build.sh",
    "hooks": {
        "guard": "verif",
        "enable": "none needed: the checker analyses /repo's source (go/packages + go/ssa) and never builds or runs it; no source hooks exist",
        "baseline_off_cmd": "cd /repo && go test -json -vet=off -count=1 -timeout 25m ./...",
        "source_commits": claims.get("_fix_commits", []),
        "add_only": True,
    },
    "engines": [{
        "name": "verifcheck",
        "path": "/verif/checker",
        "serves_properties": [c["property_id"] for c in checks],
        "kind_free_text": "repository-specific static analyser (go/packages type-checked load of /repo's working tree, go/ssa, CFG reachability with removed pass edges, dominance, reaching stores, lockset, who-may-write/call enumeration, loop-shape recognition, table agreement over the typed AST); never executes any-sync code",
    }],
    "checks": checks,
    "not_applicable": na,
    "notes": "All claims are level 'other': each check decides named structural necessary conditions of its property for every input/schedule (see DESIGN.md); the behavioural remainder is listed as not decided in each evidence file. Exit 2 = checker broken/undecided (never a VIOLATION). Known findings: /verif/known_findings.json.",
}
json.dump(manifest, open(os.path.join(VERIF, "MANIFEST.json"), "w"), indent=1)
try:
    import jsonschema
    jsonschema.validate(manifest, json.load(open("/root/.vp/MANIFEST.schema.json")))
    print("MANIFEST.json valid: %d checks, %d not_applicable" % (len(checks), len(na)))
except ImportError:
    print("jsonschema not available; wrote MANIFEST.json unvalidated")
