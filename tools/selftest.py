#!/usr/bin/env python3
"""Checker self-test: apply each hand-written mutant (a textual substitution in a
scratch copy of /repo, never /repo itself) and require the property's rule pack
to report a violation whose rule id starts with the expected prefix; benign
edits (expect == "SILENT") must stay silent.

usage: selftest.py [PROP ...] [--name NAME] [--jobs N] [--keep]
"""
import json, os, subprocess, sys, shutil, tempfile, glob, concurrent.futures as cf

VERIF = os.path.dirname(os.path.dirname(os.path.abspath(__file__)))
REPO = os.environ.get("VERIF_REPO", "/repo")
BIN = os.path.join(VERIF, "bin", "verifcheck")

def run_one(prop, m):
    tmp = tempfile.mkdtemp(prefix="vmut-")
    try:
        root = os.path.join(tmp, "repo")
        subprocess.run(["rsync", "-a", "--exclude", ".git", REPO + "/", root + "/"], check=True)
        edits = m.get("edits") or [m]
        for e in edits:
            path = os.path.join(root, e["file"])
            s = open(path).read()
            cnt = s.count(e["old"])
            if cnt != e.get("count", 1):
                return (prop, m["name"], "BADMUT", "old text occurs %d times in %s" % (cnt, e["file"]))
            s = s.replace(e["old"], e["new"])
            open(path, "w").write(s)
        if m.get("build", True):
            env = dict(os.environ, GOFLAGS="-mod=mod", GOPROXY="off")
            pk = sorted(set("./" + os.path.dirname(e["file"]) for e in edits))
            r = subprocess.run(["go", "build"] + pk, cwd=root, env=env, capture_output=True, text=True)
            if r.returncode != 0:
                return (prop, m["name"], "NOCOMPILE", r.stderr[-600:])
        out = os.path.join(tmp, "ev")
        r = subprocess.run([BIN, "-prop", prop, "-root", root, "-out", out, "-known", os.path.join(VERIF, "known_findings.json")], capture_output=True, text=True)
        text = r.stdout + r.stderr
        expect = m["expect"]
        if expect == "SILENT":
            if r.returncode == 0:
                return (prop, m["name"], "OK-SILENT", "")
            return (prop, m["name"], "FALSE-ALARM", text[-800:])
        if r.returncode != 1:
            return (prop, m["name"], "MISSED" if r.returncode == 0 else "BROKEN", text[-800:])
        hit = [l for l in text.splitlines() if l.strip().startswith("violated:") and expect in l]
        if not hit:
            return (prop, m["name"], "WRONG-RULE", text[-800:])
        return (prop, m["name"], "KILLED", hit[0].strip()[:200])
    finally:
        shutil.rmtree(tmp, ignore_errors=True)

def main():
    args = sys.argv[1:]
    jobs = 4
    name = None
    props = []
    i = 0
    while i < len(args):
        if args[i] == "--jobs":
            jobs = int(args[i + 1]); i += 2
        elif args[i] == "--name":
            name = args[i + 1]; i += 2
        else:
            props.append(args[i]); i += 1
    files = sorted(glob.glob(os.path.join(VERIF, "mutants", "*.json")))
    tasks = []
    for f in files:
        prop = os.path.basename(f)[:-5]
        if props and prop not in props:
            continue
        for m in json.load(open(f)):
            if name and m["name"] != name:
                continue
            tasks.append((prop, m))
    bad = 0
    with cf.ThreadPoolExecutor(max_workers=jobs) as ex:
        for res in ex.map(lambda t: run_one(*t), tasks):
            prop, nm, status, info = res
            print("%-4s %-40s %-11s %s" % (prop, nm, status, info if status not in ("KILLED", "OK-SILENT") else info[:150]))
            if status not in ("KILLED", "OK-SILENT"):
                bad += 1
    print("selftest: %d mutants, %d not as expected" % (len(tasks), bad))
    sys.exit(1 if bad else 0)

if __name__ == "__main__":
    main()
