#!/usr/bin/env python3
"""Refactor-then-break composites: apply a behaviour-preserving refactoring from
/verif/benign*/ (a diff) as an overlay on /repo, then a textual break ON TOP of
the refactored text, and require the named property's pack to report a rule
with the expected prefix. Shows that the generalisations which keep the
refactoring silent did not blind the rule. Nothing is written to /repo.

usage: compositecheck.py [composites.json] [--name NAME]"""
import json, os, re, subprocess, sys, tempfile, shutil, concurrent.futures as cf
VERIF = os.path.dirname(os.path.dirname(os.path.abspath(__file__)))
spec = os.path.join(VERIF, "composites.json")
only = None
args = sys.argv[1:]
while args:
    a = args.pop(0)
    if a == "--name": only = args.pop(0)
    else: spec = a
items = json.load(open(spec))
def run(it):
    tmp = tempfile.mkdtemp(prefix="cc-")
    try:
        patch = os.path.join(VERIF, it["diff"])
        files = re.findall(r"^\+\+\+ b/(\S+)", open(patch).read(), re.M)
        for e in it["edits"]:
            if e["file"] not in files: files.append(e["file"])
        for f in files:
            os.makedirs(os.path.dirname(os.path.join(tmp, f)), exist_ok=True)
            if os.path.exists("/repo/" + f): shutil.copy("/repo/" + f, os.path.join(tmp, f))
        r = subprocess.run(["patch", "-p1", "-s", "--fuzz=3", "-i", patch], cwd=tmp, capture_output=True, text=True)
        if r.returncode: return it, "NOAPPLY", r.stdout + r.stderr
        # first: the refactoring alone must be silent for this property
        def check():
            json.dump({"/repo/" + f: open(os.path.join(tmp, f)).read() for f in files}, open(tmp + "/ov.json", "w"))
            r = subprocess.run([os.path.join(VERIF, "bin", "verifcheck"), "-prop", it["prop"], "-overlay", tmp + "/ov.json", "-out", tmp + "/ev"], capture_output=True, text=True)
            return r.returncode, r.stdout + r.stderr
        rc, out = check()
        if rc != 0: return it, "REFACTORING-NOT-SILENT", out
        for e in it["edits"]:
            p = os.path.join(tmp, e["file"]); s = open(p).read()
            if s.count(e["old"]) != 1: return it, "BADEDIT", "old text occurs %d times" % s.count(e["old"])
            open(p, "w").write(s.replace(e["old"], e["new"]))
        rc, out = check()
        hit = [l for l in out.splitlines() if "violated: " + it["expect"] in l]
        if rc == 1 and hit: return it, "CAUGHT", hit[0].strip()
        if rc == 1: return it, "OTHER-RULE", "\n".join(l for l in out.splitlines() if "violated" in l)[:400]
        return it, "MISSED", out[-400:]
    finally:
        shutil.rmtree(tmp, ignore_errors=True)
bad = 0
sel = [it for it in items if not only or it["name"] == only]
with cf.ThreadPoolExecutor(4) as ex:
    for it, tag, det in ex.map(run, sel):
        print("%-34s %-8s %-22s %s" % (it["name"], it["prop"], tag, det[:230].replace("\n", " | ")))
        if tag != "CAUGHT": bad += 1
print("composites: %d, not caught: %d" % (len(sel), bad))
sys.exit(1 if bad else 0)
