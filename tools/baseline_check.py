#!/usr/bin/env python3
"""Runs the pinned test suite of /repo (the BASELINE command, module root only) and
reports every test of BASELINE.stable_pass that does not pass.  Used after each fix: commit."""
import json, subprocess, sys, os
base = json.load(open("/root/.vp/BASELINE.json"))
stable = set(base["stable_pass"])
env = dict(os.environ, GOFLAGS="-mod=mod", GOPROXY="off")
p = subprocess.run("go test -json -vet=off -count=1 -timeout 25m ./...", shell=True, cwd="/repo", capture_output=True, text=True, env=env)
res = {}
for l in p.stdout.splitlines():
    try: e = json.loads(l)
    except Exception: continue
    if e.get("Test") and e.get("Action") in ("pass", "fail", "skip"):
        res[e["Package"] + "::" + e["Test"]] = e["Action"]
bad = sorted(t for t in stable if res.get(t) != "pass")
print("stable_pass tests: %d, passing now: %d" % (len(stable), len(stable) - len(bad)))
for t in bad: print("  NOT PASSING:", t, res.get(t))
sys.exit(1 if bad else 0)
