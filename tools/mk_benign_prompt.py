#!/usr/bin/env python3
"""Prepares a benign-refactoring agent prompt and scratch worktree for one property.
usage: mk_benign_prompt.py Cxx <wtroot> <outroot>"""
import json, subprocess, sys, os
pid, wtroot, outroot = sys.argv[1], sys.argv[2], sys.argv[3]
verif = os.path.dirname(os.path.dirname(os.path.abspath(__file__)))
prop = next(json.loads(l) for l in open(os.path.join(verif, "properties.jsonl")) if json.loads(l)["id"] == pid)
text = "%s — %s\n\n%s" % (pid, prop["title"], prop["statement"])
anc = prop["anchors"]
lines = ["  files: " + ", ".join(anc.get("files", []))]
for m in anc.get("mechanism", []):
    lines.append("  - %s (%s)" % (m["name"], m["where"]))
wt = os.path.join(wtroot, pid)
if not os.path.exists(wt):
    subprocess.run(["git", "-C", "/repo", "worktree", "add", "-q", "--detach", wt, "HEAD"], check=True)
out = os.path.join(outroot, pid)
os.makedirs(out, exist_ok=True)
t = open(os.path.join(verif, "tools", "benign_agent_prompt.txt")).read()
t = t.replace("__WT__", wt).replace("__OUT__", out).replace("__PROP__", text).replace("__ANCHORS__", "\n".join(lines))
open(os.path.join(wtroot, "prompt_%s.txt" % pid), "w").write(t)
print(os.path.join(wtroot, "prompt_%s.txt" % pid))
