#!/usr/bin/env python3
"""Imports a sub-agent's seeded changes (<seedroot>/Cxx/{A,B}/{patch.diff,demo_test.go,README.md})
into /verif/seeded/Cxx-<next letter>/ and confirms each with tools/confirm_seed.py (scratch worktree
of /repo; demo passes unchanged, fails with the change; touched packages' tests pass). A change that
is not confirmed is removed again.   usage: import_seeds.py <seedroot> Cxx [Cyy ...]"""
import json, os, re, shutil, subprocess, sys
VERIF = os.path.dirname(os.path.dirname(os.path.abspath(__file__)))
root = sys.argv[1]
for prop in sys.argv[2:]:
    for sub in ("A", "B"):
        src = os.path.join(root, prop, sub)
        if not (os.path.exists(os.path.join(src, "patch.diff")) and os.path.exists(os.path.join(src, "demo_test.go"))):
            print(prop, sub, "incomplete, skipped"); continue
        have = sorted(x for x in os.listdir(os.path.join(VERIF, "seeded")) if re.match(prop + r"-[A-Z]$", x))
        nxt = chr(ord(have[-1][-1]) + 1) if have else "A"
        dst = os.path.join(VERIF, "seeded", "%s-%s" % (prop, nxt))
        shutil.copytree(src, dst)
        r = subprocess.run([sys.executable, os.path.join(VERIF, "tools/confirm_seed.py"), dst, prop], capture_output=True, text=True)
        ok = False
        try:
            ok = json.load(open(os.path.join(dst, "meta.json"))).get("confirmed")
        except Exception:
            pass
        print(prop, sub, "->", os.path.basename(dst), "CONFIRMED" if ok else "NOT CONFIRMED")
        if not ok:
            print(r.stdout[-1500:], r.stderr[-500:])
            shutil.rmtree(dst)
