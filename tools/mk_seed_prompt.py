#!/usr/bin/env python3
"""Prepares a seed-agent prompt and scratch worktree for one property (nothing from /verif
but the property text goes into the prompt). usage: mk_seed_prompt.py Cxx <wtroot> <seedroot>"""
import json, subprocess, sys, os
pid, wtroot, seedroot = sys.argv[1], sys.argv[2], sys.argv[3]
verif = os.path.dirname(os.path.dirname(os.path.abspath(__file__)))
prop = next(json.loads(l) for l in open(os.path.join(verif, "properties.jsonl")) if json.loads(l)["id"] == pid)
text = "%s — %s\n\n%s\n\nQuantified over: %s\n" % (pid, prop["title"], prop["statement"], prop["quantifier"]["text"])
wt = os.path.join(wtroot, pid)
if not os.path.exists(wt):
    subprocess.run(["git", "-C", "/repo", "worktree", "add", "-q", "--detach", wt, "HEAD"], check=True)
t = open(os.path.join(verif, "tools", "seed_agent_prompt.txt")).read()
t = t.replace("__WT__", wt).replace("/tmp/seeds/__ID__", os.path.join(seedroot, pid)).replace("__PROP__", text.rstrip())
os.makedirs(os.path.join(seedroot, pid), exist_ok=True)
open(os.path.join(wtroot, "prompt_%s.txt" % pid), "w").write(t)
print(os.path.join(wtroot, "prompt_%s.txt" % pid))
